/// splitmix64 step used both as a seed scrambler and to derive shard seeds.
pub fn splitmix(seed: u64, i: u64) -> u64 {
    let mut z = seed
        .wrapping_add(0x9E37_79B9_7F4A_7C15u64.wrapping_mul(i.wrapping_add(1)));
    z = (z ^ (z >> 30)).wrapping_mul(0xBF58_476D_1CE4_E5B9);
    z = (z ^ (z >> 27)).wrapping_mul(0x94D0_49BB_1331_11EB);
    z ^ (z >> 31)
}

/// xoshiro256** — small, fast, reproducible from one u64.
#[derive(Clone, Debug)]
pub struct Rng {
    s: [u64; 4],
    pub seed: u64,
}

impl Rng {
    pub fn new(seed: u64) -> Self {
        let mut s = [0u64; 4];
        for (i, x) in s.iter_mut().enumerate() {
            *x = splitmix(seed, i as u64 + 101);
        }
        if s == [0; 4] {
            s[0] = 1;
        }
        Rng { s, seed }
    }
    pub fn fork(&mut self) -> Rng {
        Rng::new(self.next_u64())
    }
    #[inline]
    pub fn next_u64(&mut self) -> u64 {
        let r = self.s[1].wrapping_mul(5).rotate_left(7).wrapping_mul(9);
        let t = self.s[1] << 17;
        self.s[2] ^= self.s[0];
        self.s[3] ^= self.s[1];
        self.s[1] ^= self.s[2];
        self.s[0] ^= self.s[3];
        self.s[2] ^= t;
        self.s[3] = self.s[3].rotate_left(45);
        r
    }
    /// uniform in 0..n (n>0)
    pub fn below(&mut self, n: u64) -> u64 {
        if n <= 1 {
            return 0;
        }
        // multiply-shift; bias negligible for our n
        ((self.next_u64() as u128 * n as u128) >> 64) as u64
    }
    pub fn usize_below(&mut self, n: usize) -> usize {
        self.below(n as u64) as usize
    }
    /// uniform in lo..=hi
    pub fn range(&mut self, lo: u64, hi: u64) -> u64 {
        lo + self.below(hi - lo + 1)
    }
    pub fn urange(&mut self, lo: usize, hi: usize) -> usize {
        self.range(lo as u64, hi as u64) as usize
    }
    pub fn f64(&mut self) -> f64 {
        (self.next_u64() >> 11) as f64 / (1u64 << 53) as f64
    }
    pub fn chance(&mut self, p: f64) -> bool {
        self.f64() < p
    }
    pub fn pick<'a, T>(&mut self, xs: &'a [T]) -> &'a T {
        &xs[self.usize_below(xs.len())]
    }
    pub fn shuffle<T>(&mut self, xs: &mut [T]) {
        for i in (1..xs.len()).rev() {
            let j = self.usize_below(i + 1);
            xs.swap(i, j);
        }
    }
    pub fn fill(&mut self, b: &mut [u8]) {
        for ch in b.chunks_mut(8) {
            let v = self.next_u64().to_le_bytes();
            ch.copy_from_slice(&v[..ch.len()]);
        }
    }
    pub fn bytes(&mut self, n: usize) -> Vec<u8> {
        let mut v = vec![0u8; n];
        self.fill(&mut v);
        v
    }
    pub fn arr32(&mut self) -> [u8; 32] {
        let mut a = [0u8; 32];
        self.fill(&mut a);
        a
    }
    /// weighted choice: returns index
    pub fn weighted(&mut self, w: &[u32]) -> usize {
        let tot: u64 = w.iter().map(|x| *x as u64).sum();
        let mut r = self.below(tot.max(1));
        for (i, x) in w.iter().enumerate() {
            if r < *x as u64 {
                return i;
            }
            r -= *x as u64;
        }
        w.len() - 1
    }
}
