//! vkit — shared runtime-monitoring kit: seeded PRNG, monitor (evaluations, distinct
//! non-trivial cases, samples, violations by signature), known-finding matcher,
//! evidence / replay writers, counting allocator, panic capture, shard runner.

pub mod alloc;
pub mod monitor;
pub mod rng;

pub use alloc::{AllocScope, CountingAlloc};
pub use monitor::{Monitor, Tier};
pub use rng::{splitmix, Rng};

use std::cell::RefCell;
use std::panic::{catch_unwind, AssertUnwindSafe};
use std::sync::Once;

thread_local! {
    static LAST_PANIC: RefCell<Option<String>> = const { RefCell::new(None) };
    static QUIET: RefCell<bool> = const { RefCell::new(false) };
}
static HOOK: Once = Once::new();

fn install_hook() {
    HOOK.call_once(|| {
        let prev = std::panic::take_hook();
        std::panic::set_hook(Box::new(move |info| {
            let loc = info
                .location()
                .map(|l| format!("{}:{}", l.file(), l.line()))
                .unwrap_or_default();
            let msg = if let Some(s) = info.payload().downcast_ref::<&str>() {
                s.to_string()
            } else if let Some(s) = info.payload().downcast_ref::<String>() {
                s.clone()
            } else {
                "<non-string panic>".to_string()
            };
            LAST_PANIC.with(|p| *p.borrow_mut() = Some(format!("{msg} @ {loc}")));
            let quiet = QUIET.with(|q| *q.borrow());
            if !quiet {
                prev(info);
            }
        }));
    });
}

/// Run `f`; a panic inside it becomes `Err("message @ file:line")`.
/// The panic is an observation about the code under test, never a harness crash.
pub fn catch<T>(f: impl FnOnce() -> T) -> Result<T, String> {
    install_hook();
    QUIET.with(|q| *q.borrow_mut() = true);
    let r = catch_unwind(AssertUnwindSafe(f));
    QUIET.with(|q| *q.borrow_mut() = false);
    r.map_err(|_| {
        LAST_PANIC
            .with(|p| p.borrow_mut().take())
            .unwrap_or_else(|| "panic".into())
    })
}

/// Make panics on *other* threads (tokio workers) quiet-but-recorded too.
pub fn install_panic_hook() {
    install_hook();
}

/// Last panic message recorded on this thread, if any.
pub fn take_last_panic() -> Option<String> {
    LAST_PANIC.with(|p| p.borrow_mut().take())
}

/// Run `shards` workers on OS threads; worker `i` gets `Rng::new(splitmix(seed, i))`.
pub fn run_shards<F>(shards: usize, seed: u64, f: F)
where
    F: Fn(usize, Rng) + Send + Sync,
{
    std::thread::scope(|s| {
        for i in 0..shards {
            let f = &f;
            std::thread::Builder::new()
                .name(format!("shard-{i}"))
                .stack_size(16 << 20)
                .spawn_scoped(s, move || f(i, Rng::new(splitmix(seed, i as u64))))
                .expect("spawn shard");
        }
    });
}

pub fn hex(b: &[u8]) -> String {
    let mut s = String::with_capacity(b.len() * 2);
    for x in b {
        s.push_str(&format!("{x:02x}"));
    }
    s
}

pub fn hex8(b: &[u8]) -> String {
    hex(&b[..b.len().min(4)])
}
