//! Counting allocator: per-thread scopes measuring bytes requested, peak live delta and
//! retained delta. Declared as `#[global_allocator]` by the check binaries that need it.

use std::alloc::{GlobalAlloc, Layout, System};
use std::cell::Cell;
use std::sync::atomic::{AtomicUsize, Ordering};

pub struct CountingAlloc;

thread_local! {
    static ACTIVE: Cell<bool> = const { Cell::new(false) };
    static REQUESTED: Cell<u64> = const { Cell::new(0) };
    static LIVE: Cell<i64> = const { Cell::new(0) };
    static PEAK: Cell<i64> = const { Cell::new(0) };
    static LARGEST: Cell<u64> = const { Cell::new(0) };
}

/// Process-wide hard cap on a single allocation (0 = none). Exceeding it makes the
/// allocator return null, which aborts the (child) process: the parent observes that.
pub static SINGLE_ALLOC_CAP: AtomicUsize = AtomicUsize::new(0);
/// Process-wide live bytes and peak (all threads), cheap relaxed counters.
pub static G_LIVE: AtomicUsize = AtomicUsize::new(0);
pub static G_PEAK: AtomicUsize = AtomicUsize::new(0);

#[inline]
fn on_alloc(size: usize) {
    let live = G_LIVE.fetch_add(size, Ordering::Relaxed) + size;
    let mut peak = G_PEAK.load(Ordering::Relaxed);
    while live > peak {
        match G_PEAK.compare_exchange_weak(peak, live, Ordering::Relaxed, Ordering::Relaxed) {
            Ok(_) => break,
            Err(p) => peak = p,
        }
    }
    let _ = ACTIVE.try_with(|a| {
        if a.get() {
            REQUESTED.with(|r| r.set(r.get() + size as u64));
            LARGEST.with(|l| {
                if size as u64 > l.get() {
                    l.set(size as u64)
                }
            });
            LIVE.with(|l| {
                let v = l.get() + size as i64;
                l.set(v);
                PEAK.with(|p| {
                    if v > p.get() {
                        p.set(v)
                    }
                });
            });
        }
    });
}
#[inline]
fn on_free(size: usize) {
    G_LIVE.fetch_sub(size, Ordering::Relaxed);
    let _ = ACTIVE.try_with(|a| {
        if a.get() {
            LIVE.with(|l| l.set(l.get() - size as i64));
        }
    });
}

unsafe impl GlobalAlloc for CountingAlloc {
    unsafe fn alloc(&self, layout: Layout) -> *mut u8 {
        let cap = SINGLE_ALLOC_CAP.load(Ordering::Relaxed);
        if cap != 0 && layout.size() > cap {
            return std::ptr::null_mut();
        }
        let p = System.alloc(layout);
        if !p.is_null() {
            on_alloc(layout.size());
        }
        p
    }
    unsafe fn dealloc(&self, ptr: *mut u8, layout: Layout) {
        on_free(layout.size());
        System.dealloc(ptr, layout)
    }
    unsafe fn alloc_zeroed(&self, layout: Layout) -> *mut u8 {
        let cap = SINGLE_ALLOC_CAP.load(Ordering::Relaxed);
        if cap != 0 && layout.size() > cap {
            return std::ptr::null_mut();
        }
        let p = System.alloc_zeroed(layout);
        if !p.is_null() {
            on_alloc(layout.size());
        }
        p
    }
    unsafe fn realloc(&self, ptr: *mut u8, layout: Layout, new_size: usize) -> *mut u8 {
        let cap = SINGLE_ALLOC_CAP.load(Ordering::Relaxed);
        if cap != 0 && new_size > cap {
            return std::ptr::null_mut();
        }
        let p = System.realloc(ptr, layout, new_size);
        if !p.is_null() {
            on_free(layout.size());
            on_alloc(new_size);
        }
        p
    }
}

/// Measures allocations made by the current thread between `begin` and `end`.
pub struct AllocScope;

#[derive(Debug, Clone, Copy, Default)]
pub struct AllocStats {
    /// sum of sizes requested
    pub requested: u64,
    /// max (live - live at begin)
    pub peak: i64,
    /// live at end - live at begin
    pub retained: i64,
    /// largest single request
    pub largest: u64,
}

impl AllocScope {
    pub fn begin() -> AllocScope {
        REQUESTED.with(|r| r.set(0));
        LIVE.with(|l| l.set(0));
        PEAK.with(|p| p.set(0));
        LARGEST.with(|p| p.set(0));
        ACTIVE.with(|a| a.set(true));
        AllocScope
    }
    pub fn end(self) -> AllocStats {
        ACTIVE.with(|a| a.set(false));
        AllocStats {
            requested: REQUESTED.with(|r| r.get()),
            peak: PEAK.with(|p| p.get()),
            retained: LIVE.with(|l| l.get()),
            largest: LARGEST.with(|l| l.get()),
        }
    }
}
impl Drop for AllocScope {
    fn drop(&mut self) {
        ACTIVE.with(|a| a.set(false));
    }
}
