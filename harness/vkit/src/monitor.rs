//! Monitor: what every check reports through. Thread-safe; cheap enough for hot loops.

use parking_lot::Mutex;
use serde_json::{json, Map, Value};
use std::collections::hash_map::DefaultHasher;
use std::collections::{BTreeMap, HashSet};
use std::hash::{Hash, Hasher};
use std::path::PathBuf;
use std::sync::atomic::{AtomicU64, Ordering};
use std::time::{Duration, Instant};

#[derive(Clone, Copy, PartialEq, Eq, Debug)]
pub enum Tier {
    Quick,
    Thorough,
}

struct VioGroup {
    count: u64,
    details: Vec<Value>,
}

pub struct Monitor {
    pub prop: &'static str,
    pub level: &'static str,
    pub tier: Tier,
    pub seed: u64,
    pub root: PathBuf,
    start: Instant,
    budget: Duration,
    evaluations: AtomicU64,
    distinct: Mutex<HashSet<u64>>,
    samples: Mutex<Vec<Value>>,
    max_samples: usize,
    violations: Mutex<BTreeMap<String, VioGroup>>,
    counters: Mutex<BTreeMap<String, u64>>,
    extras: Mutex<Map<String, Value>>,
    rule: Mutex<String>,
    assumptions: Mutex<Vec<String>>,
    inconclusive: Mutex<Vec<String>>,
}

fn env_u64(k: &str) -> Option<u64> {
    std::env::var(k).ok().and_then(|v| v.trim().parse().ok())
}

impl Monitor {
    pub fn new(prop: &'static str, level: &'static str) -> Self {
        let tier = match std::env::var("VERIF_TIER").as_deref() {
            Ok("thorough") => Tier::Thorough,
            _ => Tier::Quick,
        };
        let seed = env_u64("VERIF_SEED").unwrap_or(1);
        let root = PathBuf::from(std::env::var("VERIF_ROOT").unwrap_or_else(|_| "/verif".into()));
        let budget = Duration::from_secs(env_u64("VERIF_BUDGET_S").unwrap_or(match tier {
            Tier::Quick => 40,
            Tier::Thorough => 420,
        }));
        crate::install_panic_hook();
        Monitor {
            prop,
            level,
            tier,
            seed,
            root,
            start: Instant::now(),
            budget,
            evaluations: AtomicU64::new(0),
            distinct: Mutex::new(HashSet::new()),
            samples: Mutex::new(Vec::new()),
            max_samples: 5,
            violations: Mutex::new(BTreeMap::new()),
            counters: Mutex::new(BTreeMap::new()),
            extras: Mutex::new(Map::new()),
            rule: Mutex::new(String::new()),
            assumptions: Mutex::new(Vec::new()),
            inconclusive: Mutex::new(Vec::new()),
        }
    }

    pub fn quick(&self) -> bool {
        self.tier == Tier::Quick
    }
    /// pick by tier
    pub fn by_tier<T>(&self, quick: T, thorough: T) -> T {
        if self.quick() {
            quick
        } else {
            thorough
        }
    }
    pub fn shards(&self) -> usize {
        env_u64("VERIF_SHARDS").map(|v| v as usize).unwrap_or_else(|| self.by_tier(8, 16))
    }
    pub fn elapsed(&self) -> Duration {
        self.start.elapsed()
    }
    /// Soft budget: generators stop producing new cases once this is true.
    pub fn time_up(&self) -> bool {
        self.start.elapsed() >= self.budget
    }
    /// true once `frac` of the budget is spent
    pub fn spent(&self, frac: f64) -> bool {
        self.start.elapsed().as_secs_f64() >= self.budget.as_secs_f64() * frac
    }

    pub fn set_rule(&self, r: &str) {
        *self.rule.lock() = r.to_string();
    }
    pub fn assume(&self, a: &str) {
        let mut g = self.assumptions.lock();
        if !g.iter().any(|x| x == a) {
            g.push(a.to_string());
        }
    }
    /// One oracle judgement made.
    #[inline]
    pub fn eval(&self) {
        self.evaluations.fetch_add(1, Ordering::Relaxed);
    }
    pub fn evals(&self, n: u64) {
        self.evaluations.fetch_add(n, Ordering::Relaxed);
    }
    pub fn evaluations(&self) -> u64 {
        self.evaluations.load(Ordering::Relaxed)
    }
    /// Register a case signature that passed the non-triviality rule.
    pub fn case<H: Hash>(&self, sig: H) {
        let mut h = DefaultHasher::new();
        sig.hash(&mut h);
        self.distinct.lock().insert(h.finish());
    }
    pub fn distinct(&self) -> usize {
        self.distinct.lock().len()
    }
    pub fn sample(&self, v: Value) {
        let mut s = self.samples.lock();
        if s.len() < self.max_samples {
            s.push(v);
        }
    }
    pub fn want_sample(&self) -> bool {
        self.samples.lock().len() < self.max_samples
    }
    pub fn count(&self, k: &str, n: u64) {
        *self.counters.lock().entry(k.to_string()).or_insert(0) += n;
    }
    pub fn counter(&self, k: &str) -> u64 {
        self.counters.lock().get(k).copied().unwrap_or(0)
    }
    pub fn extra(&self, k: &str, v: Value) {
        self.extras.lock().insert(k.to_string(), v);
    }
    /// The run cannot decide (hook not reached, lane could not run…). Never a violation.
    pub fn inconclusive(&self, why: &str) {
        self.inconclusive.lock().push(why.to_string());
    }

    /// Record a violation. `signature` = rule id plus discriminating features, e.g.
    /// `monotone-success/no-prior-stats`. It is what known findings are keyed on.
    pub fn violation(&self, signature: &str, detail: Value) {
        let mut g = self.violations.lock();
        let e = g.entry(signature.to_string()).or_insert(VioGroup {
            count: 0,
            details: Vec::new(),
        });
        e.count += 1;
        if e.details.len() < 3 {
            e.details.push(detail);
        }
    }
    pub fn violation_count(&self) -> u64 {
        self.violations.lock().values().map(|g| g.count).sum()
    }

    fn load_known(&self) -> Vec<(String, String, String)> {
        // (signature, status, what)
        let p = self.root.join("known_findings.json");
        let Ok(txt) = std::fs::read_to_string(&p) else {
            return Vec::new();
        };
        let Ok(v) = serde_json::from_str::<Value>(&txt) else {
            eprintln!("known_findings.json does not parse; treating as empty");
            return Vec::new();
        };
        let mut out = Vec::new();
        if let Some(arr) = v.get("findings").and_then(|f| f.as_array()) {
            for f in arr {
                if f.get("property").and_then(|x| x.as_str()) != Some(self.prop) {
                    continue;
                }
                let sig = f.get("signature").and_then(|x| x.as_str()).unwrap_or("");
                let st = f.get("status").and_then(|x| x.as_str()).unwrap_or("known");
                let what = f.get("what").and_then(|x| x.as_str()).unwrap_or("");
                out.push((sig.to_string(), st.to_string(), what.to_string()));
            }
        }
        out
    }

    /// Write evidence, print verdict lines, exit with the contract's code.
    pub fn finish(&self) -> ! {
        let wall = self.start.elapsed().as_secs_f64();
        let known = self.load_known();
        let vio = self.violations.lock();
        let mut unknown: Vec<(&String, &VioGroup)> = Vec::new();
        let mut known_hit: Vec<(String, u64, String)> = Vec::new();
        for (sig, g) in vio.iter() {
            // a `fixed` entry suppresses nothing
            if let Some((_, _, what)) = known
                .iter()
                .find(|(s, st, _)| s == sig && st == "known")
            {
                known_hit.push((sig.clone(), g.count, what.clone()));
            } else {
                unknown.push((sig, g));
            }
        }
        let replay_dir = self.root.join("replays");
        let _ = std::fs::create_dir_all(&replay_dir);
        let tier_s = if self.quick() { "quick" } else { "thorough" };
        let mut lines = Vec::new();
        for (i, (sig, g)) in unknown.iter().enumerate() {
            let path = replay_dir.join(format!("{}-{}-{}-{}.json", self.prop, tier_s, self.seed, i));
            let body = json!({
                "property": self.prop, "tier": tier_s, "seed": self.seed,
                "signature": sig, "occurrences": g.count, "witnesses": g.details,
                "replay": format!("VERIF_SEED={} ./check {} {}", self.seed, self.prop, tier_s),
            });
            let _ = std::fs::write(&path, serde_json::to_string_pretty(&body).unwrap_or_default());
            lines.push(format!(
                "VIOLATION property={} replay={} signature={} occurrences={}",
                self.prop,
                path.display(),
                sig,
                g.count
            ));
        }
        for (sig, n, what) in &known_hit {
            println!(
                "KNOWN-FINDING: property={} {} — {} ({} occurrences this run)",
                self.prop, sig, what, n
            );
        }
        let evals = self.evaluations();
        let distinct = self.distinct();
        let mut incon = self.inconclusive.lock().clone();
        if evals == 0 {
            incon.push("no oracle judgement was made".into());
        }
        if distinct < 2 {
            incon.push(format!("only {distinct} distinct non-trivial cases observed"));
        }

        let mut cov = Map::new();
        cov.insert("evaluations".into(), json!(evals));
        cov.insert("distinct_nontrivial".into(), json!(distinct));
        cov.insert("rule".into(), json!(self.rule.lock().clone()));
        cov.insert("samples".into(), Value::Array(self.samples.lock().clone()));
        let counters = self.counters.lock();
        if !counters.is_empty() {
            cov.insert("counters".into(), json!(*counters));
        }
        cov.insert(
            "known_findings_observed".into(),
            json!(known_hit.iter().map(|(s, n, _)| json!({"signature": s, "occurrences": n})).collect::<Vec<_>>()),
        );
        cov.insert(
            "unknown_violation_signatures".into(),
            json!(unknown.iter().map(|(s, g)| json!({"signature": s, "occurrences": g.count})).collect::<Vec<_>>()),
        );
        if !incon.is_empty() {
            cov.insert("inconclusive".into(), json!(incon));
        }
        for (k, v) in self.extras.lock().iter() {
            cov.insert(k.clone(), v.clone());
        }
        let ev = json!({
            "property_id": self.prop,
            "tier": tier_s,
            "seed": self.seed,
            "level": self.level,
            "coverage": Value::Object(cov),
            "assumptions": self.assumptions.lock().clone(),
            "wall_s": wall,
            "violations": unknown.iter().map(|(_, g)| g.count).sum::<u64>(),
        });
        let evdir = self.root.join("evidence");
        let _ = std::fs::create_dir_all(&evdir);
        let evpath = evdir.join(format!("{}.json", self.prop));
        if let Err(e) = std::fs::write(&evpath, serde_json::to_string_pretty(&ev).unwrap_or_default()) {
            eprintln!("cannot write evidence {}: {e}", evpath.display());
        }
        println!(
            "{} {}: evaluations={} distinct_nontrivial={} known_findings={} violations={} wall={:.1}s",
            self.prop,
            tier_s,
            evals,
            distinct,
            known_hit.len(),
            unknown.len(),
            wall
        );
        for (k, v) in counters.iter() {
            println!("  {k} = {v}");
        }
        if !unknown.is_empty() {
            for l in &lines {
                println!("{l}");
            }
            std::process::exit(1);
        }
        if !incon.is_empty() {
            println!("INCONCLUSIVE property={} reasons={:?}", self.prop, incon);
            std::process::exit(2);
        }
        std::process::exit(0);
    }
}
