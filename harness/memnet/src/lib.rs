//! MemNet — an in-memory network of *real* `TransportHandle` + `DhtNetworkManager`
//! instances. The hub implements the repository's `VerifLink` seam: it records every frame
//! at the transport send boundary (the RPC trace), applies a per-endpoint fault plan and
//! delivers frames into the destination's production receive loop with the authenticated
//! sender id of the source connection. Scripted "puppet" endpoints can sit at any address.

use async_trait::async_trait;
use parking_lot::Mutex;
use saorsa_core::dht_network_manager::{
    DhtMessageType, DhtNetworkConfig, DhtNetworkManager, DhtNetworkMessage, DhtNetworkOperation,
    DhtNetworkResult,
};
use saorsa_core::error::{NetworkError, P2PError, P2pResult};
use saorsa_core::transport_handle::TransportHandle;
use saorsa_core::verif_hooks::{self, VerifLink};
use std::collections::HashMap;
use std::net::SocketAddr;
use std::sync::atomic::{AtomicU64, Ordering};
use std::sync::Arc;
use std::time::Duration;
use tokio::sync::mpsc;

pub const DHT_PROTO: &str = "/dht/1.0.0";

pub fn pos_of(peer_id: &str) -> [u8; 32] {
    saorsa_core::dht::derive_dht_key_from_peer_id(peer_id)
}

pub fn now_secs() -> u64 {
    std::time::SystemTime::now()
        .duration_since(std::time::UNIX_EPOCH)
        .map(|d| d.as_secs())
        .unwrap_or(0)
}

#[derive(Clone, Debug, PartialEq)]
pub enum ConnectFault {
    Accept,
    Refuse,
    /// never answers: the dialer's own timeout must fire
    Hang,
}

#[derive(Clone, Debug, PartialEq)]
pub enum DeliverFault {
    Deliver,
    /// frames to this endpoint vanish
    Drop,
    /// frames to this endpoint arrive after this (virtual) delay
    Delay(Duration),
}

#[derive(Clone, Debug)]
pub struct FaultPlan {
    pub connect: ConnectFault,
    /// applied to frames whose destination is this endpoint
    pub inbound: DeliverFault,
    /// applied to frames whose source is this endpoint (e.g. a node whose replies are lost)
    pub outbound: DeliverFault,
    /// the sender's `send` call itself takes this long (a congested link): the awaiting
    /// future can be cancelled while the frame is still being put on the wire
    pub send_stall: Duration,
}
impl Default for FaultPlan {
    fn default() -> Self {
        FaultPlan { connect: ConnectFault::Accept, inbound: DeliverFault::Deliver, outbound: DeliverFault::Deliver, send_stall: Duration::ZERO }
    }
}

/// Summary of a decoded DHT envelope carried by a frame.
#[derive(Clone, Debug)]
pub struct DhtSummary {
    pub message_id: String,
    pub mtype: &'static str, // Request / Response / Broadcast / Error
    pub op: &'static str,    // Put / Get / FindNode / FindValue / Ping / Join / Leave
    pub key: Option<[u8; 32]>,
    pub result: Option<&'static str>,
    pub claimed_source: String,
}

#[derive(Clone, Debug)]
pub struct Frame {
    pub seq: u64,
    /// virtual time since hub creation
    pub t: Duration,
    pub src: String,
    pub dst: String,
    pub protocol: String,
    pub len: usize,
    pub dht: Option<DhtSummary>,
    /// the decoded DHT envelope, when the frame carries one
    pub msg: Option<Arc<DhtNetworkMessage>>,
    pub fate: &'static str, // delivered / dropped / delayed / no-such-peer / injected
    /// virtual time at which the frame enters the destination's receive loop
    pub deliver_at: Option<Duration>,
}

pub fn op_name(op: &DhtNetworkOperation) -> (&'static str, Option<[u8; 32]>) {
    match op {
        DhtNetworkOperation::Put { key, .. } => ("Put", Some(*key)),
        DhtNetworkOperation::Get { key } => ("Get", Some(*key)),
        DhtNetworkOperation::FindNode { key } => ("FindNode", Some(*key)),
        DhtNetworkOperation::FindValue { key } => ("FindValue", Some(*key)),
        DhtNetworkOperation::Ping => ("Ping", None),
        DhtNetworkOperation::Join => ("Join", None),
        DhtNetworkOperation::Leave => ("Leave", None),
    }
}
pub fn result_name(r: &DhtNetworkResult) -> &'static str {
    match r {
        DhtNetworkResult::PutSuccess { .. } => "PutSuccess",
        DhtNetworkResult::GetSuccess { .. } => "GetSuccess",
        DhtNetworkResult::GetNotFound { .. } => "GetNotFound",
        DhtNetworkResult::NodesFound { .. } => "NodesFound",
        DhtNetworkResult::ValueFound { .. } => "ValueFound",
        DhtNetworkResult::PongReceived { .. } => "PongReceived",
        DhtNetworkResult::JoinSuccess { .. } => "JoinSuccess",
        DhtNetworkResult::LeaveSuccess => "LeaveSuccess",
        DhtNetworkResult::Error { .. } => "Error",
    }
}

pub fn summarize(bytes: &[u8]) -> (String, Option<DhtSummary>, Option<DhtNetworkMessage>) {
    match verif_hooks::decode_wire_message(bytes) {
        Some((proto, data, _from, _ts)) => {
            if proto == DHT_PROTO {
                if let Ok(m) = postcard::from_bytes::<DhtNetworkMessage>(&data) {
                    let (op, key) = op_name(&m.payload);
                    let s = DhtSummary {
                        message_id: m.message_id.clone(),
                        mtype: match m.message_type {
                            DhtMessageType::Request => "Request",
                            DhtMessageType::Response => "Response",
                            DhtMessageType::Broadcast => "Broadcast",
                            DhtMessageType::Error => "Error",
                        },
                        op,
                        key,
                        result: m.result.as_ref().map(result_name),
                        claimed_source: m.source.clone(),
                    };
                    return (proto, Some(s), Some(m));
                }
            }
            (proto, None, None)
        }
        None => ("<undecodable>".into(), None, None),
    }
}

enum Kind {
    /// weak: the transport holds the hub (its link); a strong reference back would keep every world
    /// alive for the life of the process
    Node(std::sync::Weak<TransportHandle>),
    /// frames addressed to a puppet are handed to its script: (source tid hex, frame)
    Puppet(mpsc::UnboundedSender<(String, Vec<u8>)>),
}

#[allow(dead_code)]
struct Endpoint {
    tid: [u8; 32],
    addr: SocketAddr,
    kind: Kind,
    fault: FaultPlan,
}

#[derive(Default)]
struct Inner {
    by_tid: HashMap<String, Endpoint>,
    by_addr: HashMap<SocketAddr, String>,
    trace: Vec<Frame>,
    trace_on: bool,
    jitter_us: u64,
    rng: u64,
    connects: Vec<(Duration, String, SocketAddr, &'static str)>,
}

pub struct Hub {
    inner: Mutex<Inner>,
    start: tokio::time::Instant,
    seq: AtomicU64,
}

impl Hub {
    pub fn new(seed: u64) -> Arc<Hub> {
        Arc::new(Hub {
            inner: Mutex::new(Inner { trace_on: true, rng: seed | 1, ..Default::default() }),
            start: tokio::time::Instant::now(),
            seq: AtomicU64::new(0),
        })
    }
    pub fn now(&self) -> Duration {
        self.start.elapsed()
    }
    /// every frame gets an extra seeded delay in 0..=us microseconds of virtual time
    pub fn set_jitter_us(&self, us: u64) {
        self.inner.lock().jitter_us = us;
    }
    pub fn set_fault(&self, tid_hex: &str, f: FaultPlan) {
        if let Some(e) = self.inner.lock().by_tid.get_mut(tid_hex) {
            e.fault = f;
        }
    }
    pub fn fault_of(&self, tid_hex: &str) -> Option<FaultPlan> {
        self.inner.lock().by_tid.get(tid_hex).map(|e| e.fault.clone())
    }
    pub fn trace_len(&self) -> usize {
        self.inner.lock().trace.len()
    }
    pub fn trace_since(&self, from: usize) -> Vec<Frame> {
        self.inner.lock().trace[from..].to_vec()
    }
    pub fn clear_trace(&self) {
        self.inner.lock().trace.clear();
    }
    pub fn connects(&self) -> Vec<(Duration, String, SocketAddr, &'static str)> {
        self.inner.lock().connects.clone()
    }
    pub fn addr_of(&self, tid_hex: &str) -> Option<SocketAddr> {
        self.inner.lock().by_tid.get(tid_hex).map(|e| e.addr)
    }
    pub fn tid_at(&self, addr: &SocketAddr) -> Option<String> {
        self.inner.lock().by_addr.get(addr).cloned()
    }
    pub fn remove_endpoint(&self, tid_hex: &str) {
        let mut g = self.inner.lock();
        if let Some(e) = g.by_tid.remove(tid_hex) {
            g.by_addr.remove(&e.addr);
        }
    }

    fn next_jitter(g: &mut Inner) -> Duration {
        if g.jitter_us == 0 {
            return Duration::ZERO;
        }
        // xorshift
        let mut x = g.rng;
        x ^= x << 13;
        x ^= x >> 7;
        x ^= x << 17;
        g.rng = x;
        Duration::from_micros(x % (g.jitter_us + 1))
    }

    pub fn register_node(&self, tid: [u8; 32], addr: SocketAddr, t: Arc<TransportHandle>) {
        let h = hex::encode(tid);
        let mut g = self.inner.lock();
        g.by_addr.insert(addr, h.clone());
        g.by_tid.insert(h, Endpoint { tid, addr, kind: Kind::Node(Arc::downgrade(&t)), fault: FaultPlan::default() });
    }

    /// Register a scripted endpoint; returns the receiver of frames addressed to it.
    pub fn register_puppet(&self, tid: [u8; 32], addr: SocketAddr) -> mpsc::UnboundedReceiver<(String, Vec<u8>)> {
        let (tx, rx) = mpsc::unbounded_channel();
        let h = hex::encode(tid);
        let mut g = self.inner.lock();
        g.by_addr.insert(addr, h.clone());
        g.by_tid.insert(h, Endpoint { tid, addr, kind: Kind::Puppet(tx), fault: FaultPlan::default() });
        rx
    }

    fn record(&self, g: &mut Inner, src: &str, dst: &str, bytes: &[u8], fate: &'static str, delay: Option<Duration>) {
        if !g.trace_on {
            return;
        }
        let (protocol, dht, msg) = summarize(bytes);
        let f = Frame {
            seq: self.seq.fetch_add(1, Ordering::Relaxed),
            t: self.start.elapsed(),
            src: src.to_string(),
            dst: dst.to_string(),
            protocol,
            len: bytes.len(),
            dht,
            msg: msg.map(Arc::new),
            fate,
            deliver_at: delay.map(|d| self.start.elapsed() + d),
        };
        g.trace.push(f);
    }

    /// Deliver `frame` into endpoint `to`, authenticated as coming from `from_tid`.
    /// Used by the link itself and by adversary scripts (any sender, any bytes).
    pub fn inject(self: &Arc<Self>, from_tid: [u8; 32], to_hex: &str, frame: Vec<u8>, delay: Duration) {
        let from_hex = hex::encode(from_tid);
        let target = {
            let mut g = self.inner.lock();
            self.record(&mut g, &from_hex, to_hex, &frame, "injected", Some(delay));
            g.by_tid.get(to_hex).map(|e| match &e.kind {
                Kind::Node(t) => (t.upgrade(), None),
                Kind::Puppet(tx) => (None, Some(tx.clone())),
            })
        };
        let Some((node, puppet)) = target else { return };
        tokio::spawn(async move {
            if !delay.is_zero() {
                tokio::time::sleep(delay).await;
            }
            if let Some(t) = node {
                let _ = t.verif_inject_frame(from_tid, frame).await;
            } else if let Some(tx) = puppet {
                let _ = tx.send((from_hex, frame));
            }
        });
    }

    /// Make `a` and `b` connected to each other without dialling (both registries).
    pub async fn link_nodes(&self, a: &SimNode, b: &SimNode) {
        let _ = a.mgr.connect_to_peer(&b.addr.to_string()).await;
    }
}

#[async_trait]
impl VerifLink for Hub {
    async fn connect(&self, from: &str, addr: SocketAddr) -> P2pResult<String> {
        let (dst_hex, fault, node, from_addr) = {
            let mut g = self.inner.lock();
            let t = self.start.elapsed();
            let Some(dst_hex) = g.by_addr.get(&addr).cloned() else {
                g.connects.push((t, from.to_string(), addr, "no-listener"));
                return Err(P2PError::Network(NetworkError::ProtocolError("no listener at address".into())));
            };
            let from_addr = g.by_tid.get(from).map(|e| e.addr);
            let e = &g.by_tid[&dst_hex];
            let node = match &e.kind {
                Kind::Node(t) => t.upgrade(),
                Kind::Puppet(_) => None,
            };
            let fault = e.fault.connect.clone();
            let tag = match fault {
                ConnectFault::Accept => "accepted",
                ConnectFault::Refuse => "refused",
                ConnectFault::Hang => "hang",
            };
            g.connects.push((t, from.to_string(), addr, tag));
            (dst_hex, fault, node, from_addr)
        };
        match fault {
            ConnectFault::Refuse => Err(P2PError::Network(NetworkError::ProtocolError("connection refused".into()))),
            ConnectFault::Hang => {
                futures::future::pending::<()>().await;
                unreachable!()
            }
            ConnectFault::Accept => {
                if let (Some(t), Some(fa)) = (node, from_addr) {
                    t.verif_accept(from, fa).await;
                }
                Ok(dst_hex)
            }
        }
    }

    async fn send(&self, from: &str, to: &str, frame: Vec<u8>) -> P2pResult<()> {
        let mut from_tid = [0u8; 32];
        if let Ok(b) = hex::decode(from) {
            if b.len() == 32 {
                from_tid.copy_from_slice(&b);
            }
        }
        let stall = self.inner.lock().by_tid.get(from).map(|e| e.fault.send_stall).unwrap_or(Duration::ZERO);
        if !stall.is_zero() {
            tokio::time::sleep(stall).await;
        }
        let (target, delay) = {
            let mut g = self.inner.lock();
            let out_fault = g.by_tid.get(from).map(|e| e.fault.outbound.clone()).unwrap_or(DeliverFault::Deliver);
            let Some(e) = g.by_tid.get(to) else {
                self.record(&mut g, from, to, &frame, "no-such-peer", None);
                return Err(P2PError::Network(NetworkError::PeerNotFound(to.to_string().into())));
            };
            let in_fault = e.fault.inbound.clone();
            let tgt = match &e.kind {
                Kind::Node(t) => (t.upgrade(), None),
                Kind::Puppet(tx) => (None, Some(tx.clone())),
            };
            let mut delay = Self::next_jitter(&mut g);
            let mut dropped = false;
            for f in [out_fault, in_fault] {
                match f {
                    DeliverFault::Deliver => {}
                    DeliverFault::Drop => dropped = true,
                    DeliverFault::Delay(d) => delay += d,
                }
            }
            if dropped {
                self.record(&mut g, from, to, &frame, "dropped", None);
                return Ok(());
            }
            self.record(&mut g, from, to, &frame, if delay.is_zero() { "delivered" } else { "delayed" }, Some(delay));
            (tgt, delay)
        };
        let from_hex = from.to_string();
        tokio::spawn(async move {
            if !delay.is_zero() {
                tokio::time::sleep(delay).await;
            }
            match target {
                (Some(t), _) => {
                    let _ = t.verif_inject_frame(from_tid, frame).await;
                }
                (_, Some(tx)) => {
                    let _ = tx.send((from_hex, frame));
                }
                _ => {}
            }
        });
        Ok(())
    }
}

/// One simulated node: production transport + production DHT manager.
pub struct SimNode {
    pub tid: [u8; 32],
    pub tid_hex: String,
    /// the id the node calls itself (config.local_peer_id)
    pub app_id: String,
    pub addr: SocketAddr,
    /// where every *other* node places it: blake3(hex(transport id))
    pub pos: [u8; 32],
    pub transport: Arc<TransportHandle>,
    pub mgr: Arc<DhtNetworkManager>,
}

#[derive(Clone, Debug)]
pub struct NodeCfg {
    pub request_timeout: Duration,
    pub connection_timeout: Duration,
    pub replication_factor: usize,
    /// judged configuration: the node's own id equals its transport id
    pub aligned_ids: bool,
    pub max_concurrent_operations: usize,
    pub event_capacity: usize,
}
impl Default for NodeCfg {
    fn default() -> Self {
        NodeCfg {
            request_timeout: Duration::from_secs(2),
            connection_timeout: Duration::from_secs(1),
            replication_factor: 8,
            aligned_ids: true,
            max_concurrent_operations: 100,
            event_capacity: 4096,
        }
    }
}

pub fn sim_addr(i: usize) -> SocketAddr {
    // distinct /16s so that IP-diversity gates never interfere unless a check wants them to
    SocketAddr::from(([10 + (i / 200) as u8, (i % 200) as u8 + 1, 7, 1], 9000 + (i % 1000) as u16))
}

pub async fn spawn_node(hub: &Arc<Hub>, tid: [u8; 32], addr: SocketAddr, cfg: &NodeCfg) -> P2pResult<SimNode> {
    spawn_node_with_trust(hub, tid, addr, cfg, None).await
}

pub async fn spawn_node_with_trust(
    hub: &Arc<Hub>,
    tid: [u8; 32],
    addr: SocketAddr,
    cfg: &NodeCfg,
    trust: Option<Arc<saorsa_core::EigenTrustEngine>>,
) -> P2pResult<SimNode> {
    let tid_hex = hex::encode(tid);
    let app_id = if cfg.aligned_ids { tid_hex.clone() } else { format!("app-{}", &tid_hex[..12]) };
    let link: Arc<dyn VerifLink> = hub.clone();
    let transport = Arc::new(TransportHandle::new_for_verif(
        app_id.clone(),
        tid,
        addr,
        link,
        cfg.connection_timeout,
        cfg.event_capacity,
    ));
    transport.start_network_listeners().await?;
    hub.register_node(tid, addr, transport.clone());
    let mut dcfg = DhtNetworkConfig::default();
    dcfg.local_peer_id = app_id.clone();
    dcfg.request_timeout = cfg.request_timeout;
    dcfg.replication_factor = cfg.replication_factor;
    dcfg.max_concurrent_operations = cfg.max_concurrent_operations;
    dcfg.node_config.listen_addr = addr;
    let mgr = Arc::new(DhtNetworkManager::new(transport.clone(), trust, dcfg).await?);
    mgr.start().await?;
    Ok(SimNode { pos: pos_of(&tid_hex), tid, tid_hex, app_id, addr, transport, mgr })
}

/// Build a DHT response frame as a remote peer would send it.
pub fn dht_response_frame(
    responder_app_id: &str,
    request_id: &str,
    requester: &str,
    payload: DhtNetworkOperation,
    result: Option<DhtNetworkResult>,
    mtype: DhtMessageType,
) -> Vec<u8> {
    let m = DhtNetworkMessage {
        message_id: request_id.to_string(),
        source: responder_app_id.to_string(),
        target: Some(requester.to_string()),
        message_type: mtype,
        payload,
        result,
        timestamp: now_secs(),
        ttl: 9,
        hop_count: 1,
    };
    let data = postcard::to_stdvec(&m).unwrap_or_default();
    verif_hooks::encode_wire_message(DHT_PROTO, data, responder_app_id, now_secs()).unwrap_or_default()
}

pub fn dht_request_frame(source_app_id: &str, request_id: &str, target: &str, payload: DhtNetworkOperation) -> Vec<u8> {
    let m = DhtNetworkMessage {
        message_id: request_id.to_string(),
        source: source_app_id.to_string(),
        target: Some(target.to_string()),
        message_type: DhtMessageType::Request,
        payload,
        result: None,
        timestamp: now_secs(),
        ttl: 10,
        hop_count: 0,
    };
    let data = postcard::to_stdvec(&m).unwrap_or_default();
    verif_hooks::encode_wire_message(DHT_PROTO, data, source_app_id, now_secs()).unwrap_or_default()
}

/// let spawned deliveries and handlers run to quiescence (virtual time)
pub async fn settle(d: Duration) {
    tokio::time::sleep(d).await;
    for _ in 0..8 {
        tokio::task::yield_now().await;
    }
}
