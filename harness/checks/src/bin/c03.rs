//! C03 — put stores on every replica it reports; get returns only stored bytes.
//! MemNet histories of put/get/store_local/put_with_targets from arbitrary nodes with
//! every node's store dumped (hook) at quiescence after each operation.

use checks::keys::xor;
use checks::net::*;
use memnet::*;
use saorsa_core::dht::core_engine::{DhtCoreEngine, DhtKey, DhtRequestWrapper, NodeId};
use saorsa_core::dht::network_integration::{DhtMessage, DhtResponse};
use saorsa_core::dht_network_manager::{DhtMessageType, DhtNetworkOperation, DhtNetworkResult};
use serde_json::json;
use std::collections::{BTreeSet, HashMap, HashSet};
use std::time::Duration;
use vkit::{hex8, Monitor, Rng};

const REQ_TO: Duration = Duration::from_secs(2);
const CONN_TO: Duration = Duration::from_secs(1);

fn value_for(op: u64, key_idx: usize, len: usize, rng: &mut Rng) -> Vec<u8> {
    let mut v = format!("op{op}:k{key_idx}:").into_bytes();
    while v.len() < len {
        v.push(b'a' + (rng.below(26) as u8));
    }
    v.truncate(len);
    v
}

fn size_class(len: usize) -> &'static str {
    match len {
        0 => "0",
        1..=510 => "small",
        511 => "511",
        512 => "512",
        513 => "513",
        _ => "over",
    }
}

async fn dumps(w: &World) -> Vec<HashMap<[u8; 32], Vec<u8>>> {
    let mut out = Vec::new();
    for n in &w.nodes {
        out.push(n.mgr.verif_store_dump().await.into_iter().collect());
    }
    out
}

async fn scenario(mon: &Monitor, rng: &mut Rng) {
    let n = rng.urange(1, mon.by_tier(9, 12));
    let topo = *rng.pick(&TOPOS);
    let repl = *rng.pick(&[1usize, 2, 3, 8, 8]);
    let cfg = NodeCfg { request_timeout: REQ_TO, connection_timeout: CONN_TO, replication_factor: repl, ..Default::default() };
    let w = match World::build(rng, n, topo, &cfg).await {
        Ok(w) => w,
        Err(e) => {
            mon.inconclusive(&format!("world build failed: {e}"));
            return;
        }
    };
    w.hub.set_jitter_us(if rng.chance(0.5) { rng.range(0, 2000) } else { 0 });

    // a lying puppet that answers FindValue/Get with bytes for ANOTHER key or invented bytes
    let puppet = if rng.chance(0.3) && n >= 2 {
        let tid = rng.arr32();
        let addr = sim_addr(n + 1);
        let mut rx = w.hub.register_puppet(tid, addr);
        let hub = w.hub.clone();
        let tid_hex = hex::encode(tid);
        let mode = rng.below(3);
        let me = tid_hex.clone();
        tokio::spawn(async move {
            while let Some((from, frame)) = rx.recv().await {
                let (_, _, msg) = summarize(&frame);
                let Some(m) = msg else { continue };
                if !matches!(m.message_type, DhtMessageType::Request) {
                    continue;
                }
                let result = match &m.payload {
                    DhtNetworkOperation::FindValue { key } | DhtNetworkOperation::Get { key } => {
                        let mut other = *key;
                        other[0] ^= 0x55;
                        match mode {
                            // a value that (by its own label) belongs to another key
                            0 => DhtNetworkResult::ValueFound { key: other, value: b"puppet:other-key-value".to_vec(), source: me.clone() },
                            1 => DhtNetworkResult::GetSuccess { key: other, value: b"puppet:other-key-value".to_vec(), source: me.clone() },
                            _ => DhtNetworkResult::GetNotFound { key: *key, peers_queried: 0, peers_failed: 0, last_error: None },
                        }
                    }
                    DhtNetworkOperation::FindNode { key } => DhtNetworkResult::NodesFound { key: *key, nodes: vec![] },
                    DhtNetworkOperation::Put { key, .. } => DhtNetworkResult::PutSuccess { key: *key, replicated_to: 1, peer_outcomes: vec![] },
                    _ => DhtNetworkResult::PongReceived { responder: me.clone(), latency: Duration::ZERO },
                };
                let f = dht_response_frame(&me, &m.message_id, &m.source, m.payload.clone(), Some(result), DhtMessageType::Response);
                hub.inject(tid, &from, f, Duration::from_micros(100));
            }
        });
        for _ in 0..rng.urange(1, 2) {
            let a = rng.usize_below(n);
            let _ = w.nodes[a].mgr.connect_to_peer(&addr.to_string()).await;
        }
        settle(Duration::from_millis(20)).await;
        Some((tid_hex, mode))
    } else {
        None
    };

    let nkeys = rng.urange(1, 8);
    let mut keys: Vec<[u8; 32]> = (0..nkeys).map(|_| rng.arr32()).collect();
    if rng.chance(0.3) {
        keys[0] = w.nodes[rng.usize_below(n)].pos;
    }
    // model: bytes ever offered to a store path under each key (only those may ever be read back)
    let mut offered: HashMap<[u8; 32], HashSet<Vec<u8>>> = HashMap::new();
    let mut silent: HashSet<usize> = HashSet::new();
    let nops = rng.urange(3, mon.by_tier(18, 40));
    let mut hist: Vec<String> = Vec::new();

    for op in 0..nops as u64 {
        if mon.time_up() {
            break;
        }
        // faults: toggle a silent subset now and then
        if rng.chance(0.15) && n >= 3 {
            let i = rng.usize_below(n);
            if silent.remove(&i) {
                w.hub.set_fault(&w.nodes[i].tid_hex, FaultPlan::default());
                hist.push(format!("heal n{i}"));
            } else {
                silent.insert(i);
                let f = if rng.chance(0.5) {
                    FaultPlan { inbound: DeliverFault::Drop, ..Default::default() }
                } else {
                    FaultPlan { outbound: DeliverFault::Drop, ..Default::default() }
                };
                w.hub.set_fault(&w.nodes[i].tid_hex, f);
                hist.push(format!("silence n{i}"));
            }
        }
        let healthy: Vec<usize> = (0..n).filter(|i| !silent.contains(i)).collect();
        if healthy.is_empty() {
            continue;
        }
        let x = *rng.pick(&healthy);
        let ki = rng.usize_below(keys.len());
        let key = keys[ki];
        let fault_free = silent.is_empty() && puppet.is_none();
        let kind = rng.weighted(&[40, 35, 8, 8, 5, 4]);
        let len = match rng.below(8) {
            0 => 511,
            1 => 512,
            2 => 513,
            3 => rng.urange(514, 600),
            4 => 0,
            _ => rng.urange(1, 510),
        };
        let ctx = |hist: &Vec<String>, extra: serde_json::Value| {
            json!({"n": n, "topology": format!("{topo:?}"), "replication": repl, "silent": silent.len(), "puppet": puppet.as_ref().map(|p| p.1),
                   "op": op, "node": x, "key": hex8(&key), "history_tail": hist.iter().rev().take(8).rev().collect::<Vec<_>>(), "detail": extra})
        };
        match kind {
            0 => {
                // ---- put ----
                let value = value_for(op, ki, len, rng);
                let expected_targets: Option<BTreeSet<usize>> = if fault_free {
                    // same quiescent, fault-free state: the lookup put() is specified to use. A lookup also
                    // teaches the node new peers (sparse topologies), so the reference is taken only once
                    // a lookup no longer changes what the node knows and two lookups in a row agree
                    let mut exp: Option<BTreeSet<usize>> = None;
                    let mut stable = false;
                    for _ in 0..3 {
                        let know0 = (w.nodes[x].mgr.verif_routing_snapshot().await.len(), w.nodes[x].mgr.verif_dht_peers().await.iter().filter(|p| p.2).count());
                        let got: Option<BTreeSet<usize>> = match w.nodes[x].mgr.find_closest_nodes(&key, repl).await {
                            Ok(v) => Some(v.iter().filter_map(|d| w.spell.get(&d.peer_id).copied()).filter(|i| *i != x).collect()),
                            Err(_) => None,
                        };
                        settle(Duration::from_millis(20)).await;
                        let know1 = (w.nodes[x].mgr.verif_routing_snapshot().await.len(), w.nodes[x].mgr.verif_dht_peers().await.iter().filter(|p| p.2).count());
                        if got.is_some() && got == exp && know0 == know1 {
                            stable = true;
                            break;
                        }
                        exp = got;
                    }
                    if !stable {
                        mon.count("skipped.targets-reference-lookup-still-changing-the-node's-knowledge", 1);
                        exp = None;
                    }
                    exp
                } else {
                    None
                };
                settle(Duration::from_millis(20)).await;
                let t0 = w.hub.trace_len();
                let r = tokio::time::timeout((CONN_TO + REQ_TO) * 21 + Duration::from_secs(1), w.nodes[x].mgr.put(key, value.clone())).await;
                settle(Duration::from_millis(30)).await;
                let frames = w.hub.trace_since(t0);
                mon.eval();
                hist.push(format!("put n{x} k{ki} len{len}"));
                let put_frames: Vec<&Frame> = frames
                    .iter()
                    .filter(|f| f.src == w.nodes[x].tid_hex && f.dht.as_ref().is_some_and(|d| d.mtype == "Request" && d.op == "Put"))
                    .collect();
                mon.count("frames.put_request", put_frames.len() as u64);
                if n >= 2 && !frames.is_empty() {
                    mon.case(("put", n, size_class(len), silent.len().min(2), put_frames.len()));
                } else if len >= 511 && len <= 513 {
                    mon.case(("put-boundary", len));
                }
                match r {
                    Err(_) => {
                        mon.violation("put/no-result-within-virtual-bound", ctx(&hist, json!({})));
                    }
                    Ok(Err(e)) => {
                        if len <= 512 {
                            mon.count("put.err_small_value", 1);
                            let _ = e;
                        }
                        // a refused put must leave no trace in any store
                        if len > 512 {
                            mon.count("put.oversize_refused", 1);
                            if !put_frames.is_empty() {
                                mon.violation("size/oversize-put-sent-on-the-wire", ctx(&hist, json!({"len": len})));
                            }
                        }
                    }
                    Ok(Ok(DhtNetworkResult::PutSuccess { replicated_to, peer_outcomes, .. })) => {
                        offered.entry(key).or_default().insert(value.clone());
                        if len > 512 {
                            mon.violation("size/oversize-put-accepted", ctx(&hist, json!({"len": len})));
                        }
                        let d = dumps(&w).await;
                        // (1) local copy and every reported replica hold the bytes
                        if d[x].get(&key) != Some(&value) {
                            let routing = w.nodes[x].mgr.verif_routing_snapshot().await.len();
                            let f = if routing == 0 { "routing-table-empty" } else { "routing-table-non-empty" };
                            mon.violation(&format!("put/acknowledged-but-local-node-does-not-hold-value/{f}"), ctx(&hist, json!({"len": len, "local_has_key": d[x].contains_key(&key)})));
                        }
                        let succ: Vec<&str> = peer_outcomes.iter().filter(|o| o.success).map(|o| o.peer_id.as_str()).collect();
                        for p in &succ {
                            match w.spell.get(*p) {
                                Some(&i) => {
                                    mon.eval();
                                    if d[i].get(&key) != Some(&value) {
                                        // a later put to the same key cannot have happened: one op at a time
                                        let routing = w.nodes[i].mgr.verif_routing_snapshot().await.len();
                                        let f = if routing == 0 { "routing-table-empty" } else { "routing-table-non-empty" };
                                        mon.violation(&format!("put/reported-replica-does-not-hold-value/{f}"), ctx(&hist, json!({"replica": i, "holds_key": d[i].contains_key(&key)})));
                                        break;
                                    }
                                }
                                None => {
                                    if puppet.as_ref().map(|q| q.0.as_str()) != Some(*p) {
                                        mon.violation("put/reported-replica-is-not-a-known-node", ctx(&hist, json!({"peer": &p[..p.len().min(16)]})));
                                    }
                                }
                            }
                        }
                        if replicated_to != 1 + succ.len() {
                            mon.violation("put/replicated_to-differs-from-1-plus-successes", ctx(&hist, json!({"replicated_to": replicated_to, "successes": succ.len()})));
                        }
                        // (2) targets
                        let me = &w.nodes[x];
                        let self_target = peer_outcomes.iter().any(|o| o.peer_id == me.tid_hex || o.peer_id == me.app_id || o.peer_id == hex::encode(me.pos));
                        if self_target || put_frames.iter().any(|f| f.dst == me.tid_hex) {
                            mon.violation("targets/put-addressed-the-local-node", ctx(&hist, json!({"in_outcomes": self_target})));
                        }
                        let frame_dsts: BTreeSet<usize> = put_frames.iter().filter_map(|f| w.spell.get(&f.dst).copied()).collect();
                        let outcome_nodes: BTreeSet<usize> = peer_outcomes.iter().filter_map(|o| w.spell.get(&o.peer_id).copied()).filter(|i| *i != x).collect();
                        if let Some(exp) = &expected_targets {
                            mon.eval();
                            if &outcome_nodes != exp {
                                let missing = exp.difference(&outcome_nodes).count();
                                let extra = outcome_nodes.difference(exp).count();
                                let f = if missing > 0 && extra == 0 { "missing-members" } else if extra > 0 && missing == 0 { "extra-members" } else { "different-members" };
                                mon.violation(&format!("targets/not-the-remote-members-of-the-lookup/{f}"), ctx(&hist, json!({"lookup_remote": exp.len(), "targeted": outcome_nodes.len()})));
                            }
                            if !frame_dsts.is_subset(&outcome_nodes) {
                                mon.violation("targets/put-frame-to-peer-not-reported", ctx(&hist, json!({})));
                            }
                        } else {
                            mon.count("skipped.targets-under-faults", 1);
                        }
                    }
                    Ok(Ok(other)) => {
                        mon.violation("put/unexpected-result-variant", ctx(&hist, json!({"got": result_name(&other)})));
                    }
                }
            }
            1 => {
                // ---- get ----
                let rt = w.nodes[x].mgr.verif_routing_snapshot().await;
                let peers = w.nodes[x].mgr.verif_dht_peers().await;
                let mut learned: BTreeSet<usize> = BTreeSet::new();
                for (id, _) in &rt {
                    if let Some(&i) = w.by_pos.get(id) {
                        learned.insert(i);
                    }
                }
                for (pid, _, conn, _) in &peers {
                    if *conn {
                        if let Some(&i) = w.spell.get(pid) {
                            learned.insert(i);
                        }
                    }
                }
                learned.remove(&x);
                let had_local = w.nodes[x].mgr.verif_store_dump().await.iter().any(|(k, _)| *k == key);
                let t0 = w.hub.trace_len();
                let c0 = w.hub.connects().len();
                let r = tokio::time::timeout((CONN_TO + REQ_TO) * 21 + Duration::from_secs(1), w.nodes[x].mgr.get(&key)).await;
                settle(Duration::from_millis(30)).await;
                let frames = w.hub.trace_since(t0);
                let dials = w.hub.connects()[c0..].to_vec();
                mon.eval();
                hist.push(format!("get n{x} k{ki}"));
                let reqs: Vec<&Frame> = frames.iter().filter(|f| f.src == w.nodes[x].tid_hex && f.dht.as_ref().is_some_and(|d| d.mtype == "Request" && d.op == "FindValue")).collect();
                mon.count("frames.findvalue_request", reqs.len() as u64);
                if n >= 2 && (!reqs.is_empty() || had_local) {
                    mon.case(("get", n, silent.len().min(2), reqs.len().min(12), had_local));
                }
                if frames.iter().any(|f| f.src == w.nodes[x].tid_hex && f.dst == w.nodes[x].tid_hex) {
                    mon.violation("targets/get-addressed-the-local-node", ctx(&hist, json!({})));
                }
                match r {
                    Err(_) => mon.violation("get/no-result-within-virtual-bound", ctx(&hist, json!({}))),
                    Ok(Err(_)) => mon.count("get.err", 1),
                    Ok(Ok(DhtNetworkResult::GetSuccess { value, .. })) => {
                        mon.count("get.success", 1);
                        let ok = offered.get(&key).is_some_and(|s| s.contains(&value));
                        if !ok {
                            let elsewhere = offered.iter().any(|(k, s)| *k != key && s.contains(&value));
                            let f = if elsewhere { "bytes-stored-under-another-key" } else if puppet.is_some() && value.starts_with(b"puppet:") { "reply-carried-a-different-key" } else { "bytes-never-put" };
                            mon.violation(&format!("get/returned-bytes-not-put-under-this-key/{f}"), ctx(&hist, json!({"value_prefix": String::from_utf8_lossy(&value[..value.len().min(24)])})));
                        }
                    }
                    Ok(Ok(DhtNetworkResult::GetNotFound { .. })) => {
                        mon.count("get.not_found", 1);
                        // (4) every learned peer queried or failed (or named with budget spent)
                        let mut known = learned.clone();
                        for f in frames.iter().filter(|f| f.dst == w.nodes[x].tid_hex && f.fate != "dropped") {
                            if let Some(m) = &f.msg {
                                if let Some(DhtNetworkResult::NodesFound { nodes, .. }) = &m.result {
                                    for nd in nodes {
                                        if let Some(&i) = w.spell.get(&nd.peer_id) {
                                            if i != x {
                                                known.insert(i);
                                            }
                                        }
                                    }
                                }
                            }
                        }
                        let queried: HashSet<usize> = reqs.iter().filter_map(|f| w.spell.get(&f.dst).copied()).collect();
                        let dial_failed: HashSet<usize> = dials.iter().filter(|d| d.3 != "accepted").filter_map(|d| w.by_addr.get(&d.2).copied()).collect();
                        if known.len() <= 25 {
                            for p in &known {
                                mon.eval();
                                if !queried.contains(p) && !dial_failed.contains(p) {
                                    mon.violation("get/not-found-with-learned-peer-never-queried", ctx(&hist, json!({"peer": p, "known": known.len(), "queried": queried.len()})));
                                    break;
                                }
                            }
                        } else {
                            mon.count("skipped.get-closure-budget-may-bind", 1);
                        }
                        // a healthy network that holds the value on a reachable queried node must not say not-found
                        if fault_free {
                            let d = dumps(&w).await;
                            if let Some(h) = queried.iter().find(|i| d[**i].contains_key(&key)) {
                                mon.violation("get/not-found-although-a-queried-node-holds-the-key", ctx(&hist, json!({"holder": h})));
                            }
                        }
                    }
                    Ok(Ok(other)) => mon.violation("get/unexpected-result-variant", ctx(&hist, json!({"got": result_name(&other)}))),
                }
            }
            2 => {
                // ---- store_local ----
                let value = value_for(op, ki, len, rng);
                let r = w.nodes[x].mgr.store_local(key, value.clone()).await;
                mon.eval();
                hist.push(format!("store_local n{x} k{ki} len{len}"));
                mon.case(("store_local", size_class(len), r.is_ok()));
                let has = w.nodes[x].mgr.get_local(&key).await.ok().flatten();
                if r.is_ok() {
                    offered.entry(key).or_default().insert(value.clone());
                    if len > 512 {
                        mon.violation("size/oversize-store_local-accepted", ctx(&hist, json!({"len": len})));
                    }
                    if has.as_ref() != Some(&value) {
                        let routing = w.nodes[x].mgr.verif_routing_snapshot().await.len();
                        let f = if routing == 0 { "routing-table-empty" } else { "routing-table-non-empty" };
                        mon.violation(&format!("store_local/acknowledged-but-not-held/{f}"), ctx(&hist, json!({"len": len})));
                    }
                } else if len <= 512 {
                    mon.count("store_local.err_small", 1);
                }
            }
            3 => {
                // ---- put_with_targets ----
                let value = value_for(op, ki, len, rng);
                let mut tg: Vec<String> = Vec::new();
                for _ in 0..rng.urange(0, 3) {
                    let i = rng.usize_below(n);
                    if i != x {
                        tg.push(w.nodes[i].tid_hex.clone());
                    }
                }
                // make sure targets are connected so that the request can be put on the wire
                for t in &tg {
                    if let Some(&i) = w.spell.get(t) {
                        let _ = w.nodes[x].mgr.connect_to_peer(&w.nodes[i].addr.to_string()).await;
                    }
                }
                let r = tokio::time::timeout(REQ_TO * 3, w.nodes[x].mgr.put_with_targets(key, value.clone(), &tg)).await;
                settle(Duration::from_millis(30)).await;
                mon.eval();
                hist.push(format!("put_with_targets n{x} k{ki} len{len} targets{}", tg.len()));
                mon.case(("put_with_targets", size_class(len), tg.len()));
                if let Ok(Ok(DhtNetworkResult::PutSuccess { peer_outcomes, replicated_to, .. })) = r {
                    offered.entry(key).or_default().insert(value.clone());
                    if len > 512 {
                        mon.violation("size/oversize-put_with_targets-accepted", ctx(&hist, json!({"len": len})));
                    }
                    let d = dumps(&w).await;
                    if d[x].get(&key) != Some(&value) {
                        let routing = w.nodes[x].mgr.verif_routing_snapshot().await.len();
                        let f = if routing == 0 { "routing-table-empty" } else { "routing-table-non-empty" };
                        mon.violation(&format!("put/acknowledged-but-local-node-does-not-hold-value/{f}"), ctx(&hist, json!({"api": "put_with_targets"})));
                    }
                    let succ = peer_outcomes.iter().filter(|o| o.success).count();
                    for o in peer_outcomes.iter().filter(|o| o.success) {
                        if let Some(&i) = w.spell.get(&o.peer_id) {
                            if d[i].get(&key) != Some(&value) {
                                let routing = w.nodes[i].mgr.verif_routing_snapshot().await.len();
                                let f = if routing == 0 { "routing-table-empty" } else { "routing-table-non-empty" };
                                mon.violation(&format!("put/reported-replica-does-not-hold-value/{f}"), ctx(&hist, json!({"api": "put_with_targets", "replica": i})));
                                break;
                            }
                        }
                    }
                    if replicated_to != 1 + succ {
                        mon.violation("put/replicated_to-differs-from-1-plus-successes", ctx(&hist, json!({"api": "put_with_targets"})));
                    }
                }
            }
            4 => {
                // ---- remote Put frame with an oversize value, injected by a stranger ----
                let olen = rng.urange(513, 600);
                let value = value_for(op, ki, olen, rng);
                let stranger = rng.arr32();
                let sh = hex::encode(stranger);
                let f = dht_request_frame(&sh, &format!("inj-{op}"), &w.nodes[x].tid_hex, DhtNetworkOperation::Put { key, value: value.clone() });
                w.hub.inject(stranger, &w.nodes[x].tid_hex, f, Duration::ZERO);
                settle(Duration::from_millis(30)).await;
                mon.eval();
                hist.push(format!("inject oversize Put -> n{x} k{ki} len{olen}"));
                mon.case(("remote-oversize-put", olen % 8));
                let d = w.nodes[x].mgr.verif_store_dump().await;
                if d.iter().any(|(k, v)| *k == key && *v == value) {
                    mon.violation("size/oversize-remote-put-stored", ctx(&hist, json!({"len": olen})));
                }
            }
            _ => {
                // ---- a well-formed remote Put from a stranger at the boundary sizes ----
                let blen = *rng.pick(&[511usize, 512]);
                let value = value_for(op, ki, blen, rng);
                let stranger = rng.arr32();
                let sh = hex::encode(stranger);
                let f = dht_request_frame(&sh, &format!("injb-{op}"), &w.nodes[x].tid_hex, DhtNetworkOperation::Put { key, value: value.clone() });
                offered.entry(key).or_default().insert(value.clone());
                w.hub.inject(stranger, &w.nodes[x].tid_hex, f, Duration::ZERO);
                settle(Duration::from_millis(30)).await;
                mon.eval();
                hist.push(format!("inject boundary Put -> n{x} k{ki} len{blen}"));
                mon.case(("remote-boundary-put", blen));
            }
        }
        // global invariant at quiescence: stores hold only offered bytes under their key, never > 512
        let d = dumps(&w).await;
        for (i, st) in d.iter().enumerate() {
            for (k, v) in st {
                mon.eval();
                if v.len() > 512 {
                    mon.violation("size/value-over-512-present-in-a-store", ctx(&hist, json!({"node": i, "len": v.len()})));
                }
                if !offered.get(k).is_some_and(|s| s.contains(v)) && !v.starts_with(b"puppet:") {
                    let elsewhere = offered.iter().any(|(k2, s)| k2 != k && s.contains(v));
                    mon.violation(if elsewhere { "store/holds-bytes-offered-under-another-key" } else { "store/holds-bytes-never-offered" }, ctx(&hist, json!({"node": i, "key": hex8(k)})));
                }
            }
        }
        if mon.want_sample() && op == 2 {
            mon.sample(ctx(&hist, json!({"stores": d.iter().map(|s| s.len()).collect::<Vec<_>>()})));
        }
        let _ = xor;
    }
    w.shutdown().await;

    // the core engine's own wire handler refuses oversize Store requests too
    if let Ok(eng) = DhtCoreEngine::verif_new_log_only(NodeId::from_bytes(rng.arr32())) {
        for len in [511usize, 512, 513, 600] {
            let key = rng.arr32();
            let value = vec![7u8; len];
            let resp = eng
                .handle_request(DhtRequestWrapper { id: "s".into(), message: DhtMessage::Store { key: DhtKey::from_bytes(key), value: value.clone(), ttl: Duration::from_secs(60) } })
                .await;
            mon.eval();
            mon.case(("engine-store", len));
            let held = eng.verif_store_dump().await.iter().any(|(k, _)| *k == key);
            let acked = matches!(resp.response, DhtResponse::StoreAck { .. });
            if len > 512 && (held || acked) {
                mon.violation("size/oversize-engine-store-accepted", json!({"len": len, "held": held, "acked": acked}));
            }
            if len <= 512 && acked && !held {
                mon.violation("engine-store/acknowledged-but-not-held", json!({"len": len}));
            }
        }
    }
}

fn main() {
    let mon = Monitor::new("C03", "exploration");
    mon.set_rule("case = one put/get/store_local/put_with_targets/injected remote Put on a MemNet of real nodes with all stores dumped at quiescence; non-trivial when >=2 nodes and >=1 RPC frame, or a size probe at 511-513; distinct by (op, N, value-size class, fault class, #frames/outcome)");
    mon.assume("in-memory link below TransportHandle; aligned ids; one operation at a time so a dump after the operation reflects exactly that operation");
    mon.assume("a get may return any bytes ever offered to a store path under that key (puts that failed part-way included)");
    let per_shard = mon.by_tier(300u64, 25_000);
    vkit::run_shards(mon.shards(), mon.seed, |_i, mut rng| {
        for _ in 0..per_shard {
            if mon.time_up() {
                break;
            }
            let rt = checks::rt(true);
            rt.block_on(scenario(&mon, &mut rng));
            mon.count("histories", 1);
        }
    });
    mon.finish();
}
