//! C12 — each peer sequence number is accepted at most once and only in order.
//!
//! Oracle: reference `last[peer]` (highest accepted number). A submission may be `Valid`
//! only when its number is `last+1` and its timestamp is inside the documented window;
//! every other submission must carry a classification whose stated reason really applies
//! (replay: n <= last, gap: n > last+1, too old / from future: timestamp) and must leave
//! `get_peer_counter` of every peer unchanged. Races: every contested (peer, n) has exactly
//! one `Valid`, the accepted numbers form a contiguous run. Reload: the reloaded high-water
//! mark covers everything accepted before a sync that provably completed, invents nothing,
//! and no number at or below it is accepted again.

use saorsa_core::monotonic_counter::{
    BatchUpdateRequest, MonotonicCounterSystem, PeerCounter, SequenceValidationResult as Res,
};
use saorsa_core::peer_record::UserId;
use serde_json::json;
use std::collections::BTreeMap;
use std::path::PathBuf;
use std::sync::Arc;
use std::time::{Duration, SystemTime, UNIX_EPOCH};
use vkit::{hex8, Monitor, Rng};

const SYNC: Duration = Duration::from_millis(5);

fn now_s() -> u64 {
    SystemTime::now().duration_since(UNIX_EPOCH).map(|d| d.as_secs()).unwrap_or(0)
}

#[derive(Clone, Copy, PartialEq, Eq, Hash, Debug, PartialOrd, Ord)]
enum Cls {
    Valid = 0,
    Replay = 1,
    Gap = 2,
    TooOld = 3,
    Future = 4,
}
impl Cls {
    fn of(r: &Res) -> Cls {
        match r {
            Res::Valid => Cls::Valid,
            Res::Replay => Cls::Replay,
            Res::Gap { .. } => Cls::Gap,
            Res::TooOld => Cls::TooOld,
            Res::FromFuture => Cls::Future,
        }
    }
    fn name(self) -> &'static str {
        ["valid", "replay", "gap", "too-old", "from-future"][self as usize]
    }
    fn bit(self) -> u8 {
        1 << (self as u8)
    }
}

/// what two wall-clock readings around the call let us say about a timestamp
#[derive(Clone, Copy, Debug)]
struct TsView {
    must_future: bool,
    may_future: bool,
    must_old: bool,
    may_old: bool,
}
impl TsView {
    /// documented rule: future iff ts > now+60, too old iff ts < now-3600, now in [nb, na]
    fn of(ts: u64, nb: u64, na: u64) -> TsView {
        TsView {
            must_future: ts > na.saturating_add(60),
            may_future: ts > nb.saturating_add(60),
            must_old: ts < nb.saturating_sub(3600),
            may_old: ts < na.saturating_sub(3600),
        }
    }
    fn fine() -> TsView {
        TsView { must_future: false, may_future: false, must_old: false, may_old: false }
    }
    fn undecided(&self) -> bool {
        (self.may_future && !self.must_future) || (self.may_old && !self.must_old)
    }
    fn tag(&self) -> &'static str {
        if self.must_future {
            "ts-future"
        } else if self.must_old {
            "ts-old"
        } else if self.undecided() {
            "ts-edge"
        } else {
            "ts-ok"
        }
    }
}

/// classifications the property allows for (last, n, timestamp view); bitmask of Cls
fn allowed(last: u64, n: u64, ts: &TsView) -> u8 {
    let seq = if Some(n) == last.checked_add(1) {
        Cls::Valid
    } else if n <= last {
        Cls::Replay
    } else {
        Cls::Gap
    };
    let ts_bad_for_sure = ts.must_future || ts.must_old;
    let mut m = 0u8;
    if ts.may_future {
        m |= Cls::Future.bit();
    }
    if ts.may_old {
        m |= Cls::TooOld.bit();
    }
    // the sequence reason is always a true statement about a non-in-order number; an in-order
    // number may be accepted only when the timestamp is not certainly outside the window
    if seq != Cls::Valid || !ts_bad_for_sure {
        m |= seq.bit();
    }
    m
}

fn seq_relation(last: u64, n: u64) -> &'static str {
    if n == 0 {
        "zero"
    } else if Some(n) == last.checked_add(1) {
        "next"
    } else if n == last {
        "dup-last"
    } else if n < last {
        "below-last"
    } else if n >= u64::MAX - 1 {
        "gap-u64-extreme"
    } else {
        "gap"
    }
}

fn mhash(peer: &[u8; 32], n: u64, salt: u8) -> [u8; 32] {
    let mut h = blake3::Hasher::new();
    h.update(peer);
    // salt 7: one message hash reused for every number of the peer (as a client resending one payload would)
    if salt != 7 {
        h.update(&n.to_le_bytes());
    }
    h.update(&[salt]);
    *h.finalize().as_bytes()
}

/// semantic fingerprint of a peer's counter; a missing entry equals a fresh one
#[derive(Clone, PartialEq, Eq, Debug)]
struct Fp {
    last_valid: u64,
    current: u64,
    hist_len: usize,
    digest: u64,
}
fn fp(c: &Option<PeerCounter>) -> Fp {
    match c {
        None => Fp { last_valid: 0, current: 0, hist_len: 0, digest: 0 },
        Some(c) => {
            let mut d = 0u64;
            for e in &c.sequence_history {
                let mut b = [0u8; 8];
                b.copy_from_slice(&e.message_hash[..8]);
                d = d
                    .rotate_left(5)
                    .wrapping_add(e.sequence.wrapping_mul(0x9E37_79B9_7F4A_7C15) ^ u64::from_le_bytes(b) ^ e.timestamp);
            }
            Fp { last_valid: c.last_valid_sequence, current: c.current_sequence, hist_len: c.sequence_history.len(), digest: d }
        }
    }
}

struct PeerM {
    id: [u8; 32],
    uid: UserId,
    last: u64,
    /// salt of the hash with which number i+1 was accepted (only while short)
    salts: Vec<u8>,
}

struct World {
    sys: Arc<MonotonicCounterSystem>,
    path: PathBuf,
    _dir: tempfile::TempDir,
    peers: Vec<PeerM>,
    /// reload generation
    gen: u32,
    hist: Vec<String>,
    subs: u64,
    /// when set, batch entries are stamped this many seconds in the past (just inside the accepted age)
    aged_stamp: Option<u64>,
}

impl World {
    fn tail(&self) -> Vec<String> {
        self.hist.iter().rev().take(14).rev().cloned().collect()
    }
    fn note(&mut self, s: String) {
        if self.hist.len() > 64 {
            self.hist.drain(..32);
        }
        self.hist.push(s);
    }
}

async fn open(path: &PathBuf) -> Result<MonotonicCounterSystem, String> {
    let mut s = MonotonicCounterSystem::new_with_sync_interval(path.clone(), SYNC).await.map_err(|e| e.to_string())?;
    s.start_sync_task().await.map_err(|e| e.to_string())?;
    Ok(s)
}

async fn new_world(rng: &mut Rng, npeers: usize) -> Result<World, String> {
    let dir = tempfile::tempdir().map_err(|e| e.to_string())?;
    let path = dir.path().join("ctr").join("counters.bin");
    let sys = open(&path).await?;
    let peers = (0..npeers)
        .map(|_| {
            let id = rng.arr32();
            PeerM { id, uid: UserId::from_bytes(id), last: 0, salts: Vec::new() }
        })
        .collect();
    Ok(World { sys: Arc::new(sys), path, _dir: dir, peers, gen: 0, hist: Vec::new(), subs: 0, aged_stamp: None })
}

fn gen_tag(g: u32) -> &'static str {
    match g {
        0 => "gen0",
        1 => "gen1",
        _ => "gen2+",
    }
}

/// choose a number relative to the peer's model state
fn pick_n(rng: &mut Rng, last: u64) -> u64 {
    match rng.weighted(&[46, 9, 9, 4, 7, 6, 3, 3, 3, 2]) {
        0 => last.saturating_add(1),
        1 => last,
        2 => {
            if last >= 1 {
                rng.range(1, last)
            } else {
                0
            }
        }
        3 => 0,
        4 => last.saturating_add(2),
        5 => last.saturating_add(rng.range(3, 2000)),
        6 => u64::MAX,
        7 => u64::MAX - 1,
        8 => 1,
        _ => rng.next_u64(),
    }
}

/// salt for a submission of n: for an already accepted number, half the time the very hash it
/// was accepted with
fn pick_salt(rng: &mut Rng, p: &PeerM, n: u64) -> (u8, &'static str) {
    if n >= 1 && n <= p.last {
        let known = p.salts.get((n - 1) as usize).copied();
        match known {
            Some(s) if rng.chance(0.5) => (s, "same-hash"),
            Some(s) => ((s + 1 + rng.below(3) as u8) % 4, "other-hash"),
            None => (rng.below(4) as u8, "any-hash"),
        }
    } else if rng.chance(0.15) {
        (7, "new-reused-payload-hash")
    } else {
        (rng.below(4) as u8, "new")
    }
}

/// judge one observed result against the model and advance the model
#[allow(clippy::too_many_arguments)]
fn judge(
    mon: &Monitor,
    w_gen: u32,
    tail: &dyn Fn() -> Vec<String>,
    api: &'static str,
    p: &mut PeerM,
    n: u64,
    salt: u8,
    hash_rel: &'static str,
    ts: &TsView,
    ts_value: Option<u64>,
    got: &Res,
) -> bool {
    mon.eval();
    let last = p.last;
    let g = Cls::of(got);
    let mask = allowed(last, n, ts);
    let rel = seq_relation(last, n);
    mon.count(&format!("result.{}", g.name()), 1);
    if ts.undecided() {
        mon.count("skipped.clock-edge-timestamp", 1);
    }
    if last > 0 {
        mon.case(("sub", api, g.name(), rel, hash_rel, ts.tag(), gen_tag(w_gen)));
    }
    let detail = |what: &str| {
        json!({"api": api, "what": what, "peer": hex8(&p.id), "model_last": last, "n": n, "hash": hash_rel,
               "timestamp": ts_value, "timestamp_view": format!("{ts:?}"), "got": format!("{got:?}"),
               "reload_generation": w_gen, "history_tail": tail()})
    };
    let mut ok = true;
    if mask & g.bit() == 0 {
        ok = false;
        if g == Cls::Valid {
            let why = if rel == "next" { ts.tag() } else { rel };
            let h = if rel == "dup-last" || rel == "below-last" { hash_rel } else { "-" };
            mon.violation(&format!("accepted-not-in-order/{api}/{why}/{h}"), detail("a number other than last+1 (or one with an out-of-window timestamp) was accepted"));
        } else if mask == Cls::Valid.bit() {
            mon.violation(&format!("in-order-rejected/{api}/as-{}", g.name()), detail("last+1 with an in-window timestamp was not accepted"));
        } else {
            let want: Vec<&str> = [Cls::Valid, Cls::Replay, Cls::Gap, Cls::TooOld, Cls::Future].iter().filter(|c| mask & c.bit() != 0).map(|c| c.name()).collect();
            mon.violation(&format!("misclassified/{api}/{}-as-{}", want.join("|"), g.name()), detail("the stated reason does not apply to this submission"));
        }
    } else if let Res::Gap { expected, received } = got {
        if Some(*expected) != last.checked_add(1) || *received != n {
            ok = false;
            mon.violation(&format!("gap-fields/{api}"), detail("Gap{expected,received} does not describe the submission"));
        }
    }
    if g == Cls::Valid {
        p.last = n;
        if n >= 1 && (n - 1) as usize == p.salts.len() && p.salts.len() < 1 << 20 {
            p.salts.push(salt);
        }
    }
    ok
}

async fn resync(w: &mut World) {
    for p in w.peers.iter_mut() {
        let c = w.sys.get_peer_counter(&p.uid).await;
        p.last = c.map(|c| c.last_valid_sequence).unwrap_or(0);
        p.salts.truncate(p.last.min(1 << 20) as usize);
    }
}

/// one sequential `validate_sequence`
async fn op_single(mon: &Monitor, rng: &mut Rng, w: &mut World, check_state: bool) {
    let pi = rng.usize_below(w.peers.len());
    let bi = (pi + 1 + rng.usize_below(w.peers.len().max(2) - 1)) % w.peers.len();
    let n = pick_n(rng, w.peers[pi].last);
    let (salt, hrel) = pick_salt(rng, &w.peers[pi], n);
    let h = mhash(&w.peers[pi].id, n, salt);
    let (pre, pre_b) = if check_state {
        (Some(fp(&w.sys.get_peer_counter(&w.peers[pi].uid).await)), Some(fp(&w.sys.get_peer_counter(&w.peers[bi].uid).await)))
    } else {
        (None, None)
    };
    let r = w.sys.validate_sequence(&w.peers[pi].uid, n, h).await;
    w.subs += 1;
    mon.count("submissions.single", 1);
    let got = match r {
        Ok(g) => g,
        Err(e) => {
            mon.violation("api-error/validate_sequence", json!({"err": e.to_string()}));
            return;
        }
    };
    let last_before = w.peers[pi].last;
    w.note(format!("single p{pi} n={n} ({}, {hrel}) last={last_before} -> {got:?}", seq_relation(last_before, n)));
    let gen = w.gen;
    let tail_src = w.tail();
    let tail = move || tail_src.clone();
    let ok = judge(mon, gen, &tail, "validate_sequence", &mut w.peers[pi], n, salt, hrel, &TsView::fine(), None, &got);
    let post_c = w.sys.get_peer_counter(&w.peers[pi].uid).await;
    mon.eval();
    let lv = post_c.as_ref().map(|c| c.last_valid_sequence).unwrap_or(0);
    if ok && lv != w.peers[pi].last {
        mon.violation(
            "state-mismatch/validate_sequence",
            json!({"peer": hex8(&w.peers[pi].id), "counter_last_valid": lv, "model_last": w.peers[pi].last, "n": n, "got": format!("{got:?}"), "history_tail": w.tail()}),
        );
    }
    if let (Some(pre), Some(pre_b)) = (pre, pre_b) {
        let post = fp(&post_c);
        if Cls::of(&got) != Cls::Valid {
            mon.eval();
            if pre.hist_len == 0 && pre.last_valid == 0 && post_c.is_some() {
                mon.count("observed.entry-exists-after-rejected-submission", 1);
            }
            if post != pre {
                mon.violation(
                    &format!("state-changed-by-rejected/validate_sequence/{}", Cls::of(&got).name()),
                    json!({"peer": hex8(&w.peers[pi].id), "n": n, "got": format!("{got:?}"), "before": format!("{pre:?}"), "after": format!("{post:?}"), "history_tail": w.tail()}),
                );
            }
        }
        if bi != pi {
            mon.eval();
            let post_b = fp(&w.sys.get_peer_counter(&w.peers[bi].uid).await);
            if post_b != pre_b {
                mon.violation(
                    "cross-peer/validate_sequence",
                    json!({"submitted_for": hex8(&w.peers[pi].id), "changed_peer": hex8(&w.peers[bi].id), "before": format!("{pre_b:?}"), "after": format!("{post_b:?}"), "history_tail": w.tail()}),
                );
            }
        }
    }
    if !ok {
        resync(w).await;
    }
}

fn pick_ts(rng: &mut Rng, now: u64) -> u64 {
    match rng.weighted(&[70, 4, 4, 4, 3, 4, 4, 4, 1, 1, 1]) {
        0 => now,
        1 => now + 59,
        2 => now + 60,
        3 => now + 61,
        4 => now + rng.range(62, 100_000),
        5 => now - 3599,
        6 => now - 3600,
        7 => now - 3601,
        8 => 0,
        9 => u64::MAX,
        _ => now.saturating_sub(rng.range(3602, 10_000_000)),
    }
}

/// one sequential `batch_update`
async fn op_batch(mon: &Monitor, rng: &mut Rng, w: &mut World, check_state: bool) {
    let len = match rng.below(4) {
        0 => rng.urange(1, 3),
        1 => rng.urange(2, 12),
        _ => rng.urange(4, 40),
    };
    // plan with a tentative running `last` so that batches contain runs, duplicates and reorderings
    let mut tent: Vec<u64> = w.peers.iter().map(|p| p.last).collect();
    let now = now_s();
    struct Item {
        pi: usize,
        n: u64,
        salt: u8,
        hrel: &'static str,
        ts: u64,
    }
    let mut items: Vec<Item> = Vec::with_capacity(len);
    for _ in 0..len {
        let pi = rng.usize_below(w.peers.len());
        let n = if !items.is_empty() && rng.chance(0.2) {
            // exact duplicate of an earlier entry of this batch (same peer, same number)
            let j = rng.usize_below(items.len());
            if items[j].pi == pi {
                items[j].n
            } else {
                pick_n(rng, tent[pi])
            }
        } else {
            pick_n(rng, tent[pi])
        };
        let ts = match w.aged_stamp {
            Some(age) => now - age,
            None => pick_ts(rng, now),
        };
        let (salt, hrel) = pick_salt(rng, &w.peers[pi], n);
        let tv = TsView::of(ts, now, now);
        if Some(n) == tent[pi].checked_add(1) && !tv.may_future && !tv.may_old {
            tent[pi] = n;
        }
        items.push(Item { pi, n, salt, hrel, ts });
    }
    let mut pres = Vec::new();
    if check_state {
        for p in &w.peers {
            pres.push(fp(&w.sys.get_peer_counter(&p.uid).await));
        }
    }
    let reqs: Vec<BatchUpdateRequest> = items
        .iter()
        .map(|it| BatchUpdateRequest { user_id: w.peers[it.pi].uid.clone(), sequence: it.n, message_hash: mhash(&w.peers[it.pi].id, it.n, it.salt), timestamp: it.ts })
        .collect();
    let nb = now_s();
    let r = w.sys.batch_update(reqs).await;
    let na = now_s();
    w.subs += len as u64;
    mon.count("submissions.batch", len as u64);
    mon.count("batches", 1);
    let res = match r {
        Ok(v) => v,
        Err(e) => {
            mon.violation("api-error/batch_update", json!({"err": e.to_string()}));
            return;
        }
    };
    mon.eval();
    if res.len() != items.len() || res.iter().zip(&items).any(|(r, it)| r.user_id != w.peers[it.pi].uid) {
        mon.violation("batch/shape", json!({"requests": items.len(), "results": res.len(), "what": "results do not line up with the requests"}));
        resync(w).await;
        return;
    }
    let summary: Vec<String> = items.iter().zip(&res).take(24).map(|(it, r)| format!("p{} n={} dt={} -> {}", it.pi, it.n, it.ts as i128 - nb as i128, Cls::of(&r.result).name())).collect();
    w.note(format!("batch[{}] {}", items.len(), summary.join("; ")));
    let gen = w.gen;
    let tail_src = w.tail();
    let tail = move || tail_src.clone();
    let mut all_ok = true;
    let mut touched_valid = vec![false; w.peers.len()];
    for (it, r) in items.iter().zip(&res) {
        let tv = TsView::of(it.ts, nb, na);
        let ok = judge(mon, gen, &tail, "batch_update", &mut w.peers[it.pi], it.n, it.salt, it.hrel, &tv, Some(it.ts), &r.result);
        all_ok &= ok;
        mon.eval();
        if r.applied != (Cls::of(&r.result) == Cls::Valid) {
            all_ok = false;
            mon.violation("batch/applied-flag", json!({"n": it.n, "result": format!("{:?}", r.result), "applied": r.applied}));
        }
        if Cls::of(&r.result) == Cls::Valid {
            touched_valid[it.pi] = true;
        }
    }
    if mon.want_sample() && items.len() >= 6 && w.subs > 40 {
        mon.sample(json!({"kind": "batch", "reload_generation": w.gen, "entries(peer, n, timestamp-now, result)": summary}));
    }
    // state after the batch: high-water marks equal the model; peers with no accepted entry unchanged
    for (i, p) in w.peers.iter().enumerate() {
        let c = w.sys.get_peer_counter(&p.uid).await;
        mon.eval();
        let lv = c.as_ref().map(|c| c.last_valid_sequence).unwrap_or(0);
        if all_ok && lv != p.last {
            mon.violation("state-mismatch/batch_update", json!({"peer": hex8(&p.id), "counter_last_valid": lv, "model_last": p.last, "history_tail": w.tail()}));
        }
        if check_state && !touched_valid[i] {
            mon.eval();
            let post = fp(&c);
            if post != pres[i] {
                let involved = items.iter().any(|it| it.pi == i);
                let sig = if involved { "state-changed-by-rejected/batch_update" } else { "cross-peer/batch_update" };
                mon.violation(sig, json!({"peer": hex8(&p.id), "before": format!("{:?}", pres[i]), "after": format!("{post:?}"), "history_tail": w.tail()}));
            }
        }
    }
    if !all_ok {
        resync(w).await;
    }
}

#[derive(Clone)]
enum Sub {
    One { pi: usize, n: u64, salt: u8 },
    Batch(Vec<(usize, u64, u8)>),
}

const PATTERNS: [&str; 6] = ["same-number-same-hash", "same-number-distinct-hashes", "ladder", "batch-dups-vs-singles", "multi-peer-ladders", "shuffled-runs"];

/// T tasks race on a multi-thread runtime
async fn op_race(mon: &Monitor, rng: &mut Rng, w: &mut World) {
    let t = *rng.pick(&[2usize, 2, 3, 4, 6, 8, 12, 16, 24, 32]);
    let pat = rng.usize_below(PATTERNS.len());
    let np = w.peers.len();
    let p0 = rng.usize_below(np);
    let base: Vec<u64> = w.peers.iter().map(|p| p.last).collect();
    let m = rng.range(2, 24);
    let mut plans: Vec<Vec<Sub>> = Vec::with_capacity(t);
    // which peers take part, and up to which number above base anything is submitted
    let mut part: BTreeMap<usize, u64> = BTreeMap::new();
    for ti in 0..t {
        let mut plan = Vec::new();
        match pat {
            0 => plan.push(Sub::One { pi: p0, n: base[p0] + 1, salt: 0 }),
            1 => plan.push(Sub::One { pi: p0, n: base[p0] + 1, salt: (ti % 250) as u8 }),
            2 => {
                for k in 1..=m {
                    plan.push(Sub::One { pi: p0, n: base[p0] + k, salt: rng.below(3) as u8 });
                }
            }
            3 => {
                if ti % 2 == 0 {
                    let b = base[p0];
                    plan.push(Sub::Batch(vec![(p0, b + 1, 0), (p0, b + 1, 0), (p0, b + 2, 1), (p0, b + 1, 2), (p0, b + 2, 1), (p0, b + 3, 0)]));
                } else {
                    for k in 1..=3 {
                        plan.push(Sub::One { pi: p0, n: base[p0] + k, salt: rng.below(3) as u8 });
                    }
                }
            }
            4 => {
                let groups = np.min(3).max(1);
                let pi = (p0 + ti % groups) % np;
                for k in 1..=m {
                    plan.push(Sub::One { pi, n: base[pi] + k, salt: rng.below(3) as u8 });
                }
            }
            _ => {
                let mut ks: Vec<u64> = (1..=m).collect();
                rng.shuffle(&mut ks);
                // several passes so that later numbers get another chance once earlier ones landed
                for _ in 0..3 {
                    for k in &ks {
                        plan.push(Sub::One { pi: p0, n: base[p0] + k, salt: rng.below(3) as u8 });
                    }
                }
            }
        }
        for s in &plan {
            match s {
                Sub::One { pi, n, .. } => {
                    let e = part.entry(*pi).or_insert(0);
                    *e = (*e).max(*n - base[*pi]);
                }
                Sub::Batch(v) => {
                    for (pi, n, _) in v {
                        let e = part.entry(*pi).or_insert(0);
                        *e = (*e).max(*n - base[*pi]);
                    }
                }
            }
        }
        plans.push(plan);
    }
    // a bystander peer that nobody touches
    let bystander = (0..np).find(|i| !part.contains_key(i));
    let pre_b = match bystander {
        Some(b) => Some(fp(&w.sys.get_peer_counter(&w.peers[b].uid).await)),
        None => None,
    };
    let ids: Arc<Vec<([u8; 32], UserId)>> = Arc::new(w.peers.iter().map(|p| (p.id, p.uid.clone())).collect());
    let barrier = Arc::new(tokio::sync::Barrier::new(t));
    let mut handles = Vec::with_capacity(t);
    for (ti, plan) in plans.into_iter().enumerate() {
        let sys = w.sys.clone();
        let ids = ids.clone();
        let barrier = barrier.clone();
        let yieldy = rng.chance(0.5);
        handles.push(tokio::spawn(async move {
            let mut out: Vec<(usize, u64, u8, Result<Res, String>, bool)> = Vec::new();
            barrier.wait().await;
            for (si, s) in plan.into_iter().enumerate() {
                match s {
                    Sub::One { pi, n, salt } => {
                        let r = sys.validate_sequence(&ids[pi].1, n, mhash(&ids[pi].0, n, salt)).await.map_err(|e| e.to_string());
                        out.push((pi, n, salt, r, false));
                    }
                    Sub::Batch(v) => {
                        let ts = now_s();
                        let reqs = v.iter().map(|(pi, n, salt)| BatchUpdateRequest { user_id: ids[*pi].1.clone(), sequence: *n, message_hash: mhash(&ids[*pi].0, *n, *salt), timestamp: ts }).collect();
                        match sys.batch_update(reqs).await {
                            Ok(rs) => {
                                for ((pi, n, salt), r) in v.iter().zip(rs) {
                                    out.push((*pi, *n, *salt, Ok(r.result), true));
                                }
                            }
                            Err(e) => out.push((v[0].0, v[0].1, v[0].2, Err(e.to_string()), true)),
                        }
                    }
                }
                if yieldy && (si + ti) % 2 == 0 {
                    tokio::task::yield_now().await;
                }
            }
            out
        }));
    }
    let mut all: Vec<(usize, u64, u8, Result<Res, String>, bool)> = Vec::new();
    for h in handles {
        match h.await {
            Ok(v) => all.extend(v),
            Err(e) => mon.violation("race/task-panicked", json!({"err": e.to_string(), "pattern": PATTERNS[pat]})),
        }
    }
    mon.count("races", 1);
    mon.count("submissions.raced", all.len() as u64);
    w.subs += all.len() as u64;
    let pname = PATTERNS[pat];
    for (pi, top) in &part {
        let b = base[*pi];
        let mut valid_per_n: BTreeMap<u64, Vec<u8>> = BTreeMap::new();
        let mut classes: BTreeMap<&'static str, u64> = BTreeMap::new();
        let mut subs_per_n: BTreeMap<u64, u64> = BTreeMap::new();
        let mut bad_gap: Option<String> = None;
        for (p, n, salt, r, _) in all.iter().filter(|x| x.0 == *pi) {
            let _ = p;
            *subs_per_n.entry(*n).or_insert(0) += 1;
            match r {
                Ok(res) => {
                    *classes.entry(Cls::of(res).name()).or_insert(0) += 1;
                    if Cls::of(res) == Cls::Valid {
                        valid_per_n.entry(*n).or_default().push(*salt);
                    }
                    if let Res::Gap { expected, received } = res {
                        // expected is last+1 at some instant of the race
                        if *received != *n || *expected <= b || *expected > b + top + 1 || *expected >= *n {
                            bad_gap = Some(format!("n={n} {res:?}"));
                        }
                    }
                }
                Err(e) => mon.violation("api-error/race", json!({"err": e})),
            }
        }
        let post = w.sys.get_peer_counter(&w.peers[*pi].uid).await;
        let lv = post.as_ref().map(|c| c.last_valid_sequence).unwrap_or(0);
        let detail = |what: &str| {
            json!({"pattern": pname, "tasks": t, "peer": hex8(&w.peers[*pi].id), "base_last": b, "highest_submitted": b + top, "what": what,
                   "valid_per_number(salts)": valid_per_n.iter().take(30).map(|(n, s)| format!("{n}:{s:?}")).collect::<Vec<_>>(),
                   "classes": classes, "final_last_valid": lv, "reload_generation": w.gen})
        };
        // every contested number: at most one Valid
        let mut contested = 0u64;
        for (n, cnt) in &subs_per_n {
            mon.eval();
            let v = valid_per_n.get(n).map(|x| x.len()).unwrap_or(0);
            if *cnt >= 2 {
                contested += 1;
            }
            if v > 1 {
                mon.violation(&format!("race/double-accept/{pname}"), detail(&format!("number {n} accepted {v} times")));
            }
        }
        // accepted numbers = b+1 ..= b+k, final state agrees
        mon.eval();
        let acc: Vec<u64> = valid_per_n.keys().copied().collect();
        let k = acc.len() as u64;
        if acc.iter().enumerate().any(|(i, n)| *n != b + 1 + i as u64) {
            mon.violation(&format!("race/accepted-not-contiguous/{pname}"), detail("accepted numbers are not base+1, base+2, …"));
        }
        mon.eval();
        if lv != b + k {
            mon.violation(&format!("race/final-state/{pname}"), detail("final last_valid_sequence differs from base + number of accepted submissions"));
        }
        mon.eval();
        if k == 0 {
            // base+1 was submitted by someone in every pattern
            mon.violation(&format!("race/none-accepted/{pname}"), detail("base+1 was submitted and nobody was accepted"));
        }
        // ladders: every task walks base+1.. in order, so every number must land and nothing but valid/replay can be answered
        if matches!(pat, 0 | 1 | 2 | 4) {
            mon.eval();
            if k != *top {
                mon.violation(&format!("race/ladder-incomplete/{pname}"), detail("an in-order walker was refused a number that nobody had taken"));
            }
            if classes.keys().any(|c| *c != "valid" && *c != "replay") {
                mon.violation(&format!("race/unexpected-class/{pname}"), detail("in-order walkers can only see valid or replay"));
            }
        }
        if let Some(g) = bad_gap {
            mon.eval();
            mon.violation(&format!("race/gap-fields/{pname}"), detail(&format!("gap answer inconsistent with any instant of the race: {g}")));
        }
        let width_class = match t {
            2 => "2",
            3..=4 => "3-4",
            5..=8 => "5-8",
            9..=16 => "9-16",
            _ => "17-32",
        };
        if t >= 2 && contested >= 1 {
            mon.case(("race", pname, width_class, gen_tag(w.gen), classes.keys().copied().collect::<Vec<_>>(), b > 0));
        }
        if mon.want_sample() && pat >= 2 && t >= 4 && w.subs > 200 {
            mon.sample(json!({"kind": "race", "pattern": pname, "tasks": t, "base_last": b, "numbers_submitted": subs_per_n.len(), "submissions": subs_per_n.values().sum::<u64>(),
                              "accepted": acc.len(), "classes": classes, "final_last_valid": lv}));
        }
        // adopt
        let p = &mut w.peers[*pi];
        for n in &acc {
            if (*n - 1) as usize == p.salts.len() && p.salts.len() < 1 << 20 {
                p.salts.push(valid_per_n[n][0]);
            }
        }
        p.last = lv;
        p.salts.truncate(p.last.min(1 << 20) as usize);
    }
    if let (Some(bi), Some(pre)) = (bystander, pre_b) {
        mon.eval();
        let post = fp(&w.sys.get_peer_counter(&w.peers[bi].uid).await);
        if post != pre {
            mon.violation("cross-peer/race", json!({"pattern": pname, "bystander": hex8(&w.peers[bi].id), "before": format!("{pre:?}"), "after": format!("{post:?}")}));
        }
    }
    w.note(format!("race {pname} x{t} on p{p0}"));
}

/// stop, reload from the same path, check the reloaded state, continue on the new store
async fn op_reload(mon: &Monitor, rng: &mut Rng, w: &mut World, mid_ops: usize, age_out: bool) {
    // checkpoint: everything accepted up to here is covered by any sync that STARTS from now on
    let cp: Vec<u64> = w.peers.iter().map(|p| p.last).collect();
    let p1 = w.sys.get_stats().await.persistence_ops;
    // keep submitting while the sync task runs (these may or may not reach the file)
    for _ in 0..mid_ops {
        if rng.chance(0.7) {
            op_single(mon, rng, w, false).await;
        } else {
            op_batch(mon, rng, w, false).await;
        }
    }
    // the sync that was possibly in flight at the checkpoint is p1+1; p1+2 started after it
    let want_floor = age_out || rng.chance(0.8);
    let mut floor_known = false;
    if want_floor {
        let t0 = std::time::Instant::now();
        loop {
            if w.sys.get_stats().await.persistence_ops >= p1 + 2 {
                floor_known = true;
                break;
            }
            if t0.elapsed() > Duration::from_secs(3) {
                mon.count("skipped.sync-did-not-complete-in-3s", 1);
                break;
            }
            tokio::time::sleep(Duration::from_millis(2)).await;
        }
    }
    if age_out {
        // let the persisted stamps (3597 s old when accepted) cross the one-hour age: a number that
        // was accepted and persisted stays refused however old its peer's last activity is
        tokio::time::sleep(Duration::from_millis(4200)).await;
        mon.count("reloads.after-stamps-aged-past-one-hour", 1);
    }
    // an unsynced tail that may legitimately be lost
    let tail_ops = if age_out { 0 } else { rng.urange(0, 6) };
    for _ in 0..tail_ops {
        op_single(mon, rng, w, false).await;
    }
    let fin: Vec<u64> = w.peers.iter().map(|p| p.last).collect();
    // stop and drop the old store
    match Arc::get_mut(&mut w.sys) {
        Some(s) => s.stop_sync_task().await,
        None => {
            mon.inconclusive("store still shared at reload time (harness bug)");
            return;
        }
    }
    // `stop_sync_task` aborts the task but cannot recall a blocking file write that is already
    // under way, and that write may land arbitrarily late. So that the harness never races a
    // writer of a stopped store, every generation gets its own file: the bytes found at the old
    // path (whatever instant that is: this is what a process death would leave) are copied to a
    // new path and the store is reopened there. A file caught empty/torn between the library's
    // truncate and write does not load; that is counted and the read is repeated.
    let new_path = w._dir.path().join(format!("gen{}", w.gen + 1)).join("counters.bin");
    if let Some(parent) = new_path.parent() {
        let _ = std::fs::create_dir_all(parent);
    }
    let t0 = std::time::Instant::now();
    let sys = loop {
        // no file yet (stopped before the first sync ever ran): nothing was persisted
        let (bytes, wrote) = match std::fs::read(&w.path) {
            Ok(b) => {
                let ok = std::fs::write(&new_path, &b).is_ok();
                (b, ok)
            }
            Err(e) if e.kind() == std::io::ErrorKind::NotFound => {
                mon.count("observed.no-file-at-reload", 1);
                (Vec::new(), true)
            }
            Err(_) => (Vec::new(), false),
        };
        match open(&new_path).await {
            Ok(s) if wrote => break Some(s),
            Ok(mut s) => {
                s.stop_sync_task().await;
                break None;
            }
            Err(e) => {
                mon.count(if bytes.is_empty() { "observed.file-empty-at-reload" } else { "observed.file-torn-at-reload" }, 1);
                if t0.elapsed() > Duration::from_secs(4) {
                    mon.extra("reload_error_example", json!({"error": e, "file_len": bytes.len(), "accepted_before_stop": fin}));
                    break None;
                }
                tokio::time::sleep(Duration::from_millis(10)).await;
            }
        }
    };
    let Some(sys) = sys else {
        mon.count("skipped.file-unreadable-for-4s-after-stop", 1);
        // nothing can be re-accepted from a file that does not load; start over elsewhere
        w.path = w._dir.path().join(format!("fresh{}", w.subs)).join("counters.bin");
        match open(&w.path).await {
            Ok(s) => {
                w.sys = Arc::new(s);
                for p in w.peers.iter_mut() {
                    p.last = 0;
                    p.salts.clear();
                }
            }
            Err(e) => mon.inconclusive(&format!("cannot open a fresh store: {e}")),
        }
        return;
    };
    w.path = new_path;
    w.sys = Arc::new(sys);
    w.gen += 1;
    mon.count("reloads", 1);
    if floor_known {
        mon.count("reloads.with-proven-sync-floor", 1);
    }
    let mut lasts = Vec::new();
    for (i, p) in w.peers.iter().enumerate() {
        let c = w.sys.get_peer_counter(&p.uid).await;
        let l = c.as_ref().map(|c| c.last_valid_sequence).unwrap_or(0);
        lasts.push(l);
        let detail = |what: &str| {
            json!({"what": what, "peer": hex8(&p.id), "accepted_before_proven_sync": cp[i], "accepted_before_stop": fin[i], "reloaded_last_valid": l,
                   "reloaded_history_len": c.as_ref().map(|c| c.sequence_history.len()), "reload_generation": w.gen, "history_tail": w.tail()})
        };
        mon.eval();
        if floor_known && l < cp[i] {
            mon.violation("reload/lost-synced", detail("numbers accepted before a completed sync are below the reloaded mark"));
        }
        mon.eval();
        if l > fin[i] {
            mon.violation("reload/invented", detail("reloaded mark is above anything ever accepted"));
        }
        if cp[i] > 0 {
            mon.case(("reload", gen_tag(w.gen), floor_known, l == fin[i], fin[i] > 1000));
        }
        if fin[i] > l {
            mon.count("observed.unsynced-tail-lost", 1);
        }
    }
    // nothing at or below the reloaded mark may be accepted again
    for i in 0..w.peers.len() {
        let l = lasts[i];
        w.peers[i].last = l;
        w.peers[i].salts.truncate(l.min(1 << 20) as usize);
        if l == 0 {
            continue;
        }
        let mut probes: Vec<u64> = vec![1, l, l.saturating_sub(1).max(1), (l / 2).max(1)];
        if l <= 24 {
            probes.extend(1..=l);
        } else {
            for _ in 0..8 {
                probes.push(rng.range(1, l));
            }
            // the region that has fallen out of the 1000-entry history
            if l > 1001 {
                probes.push(l - 1000);
                probes.push(l - 1001);
            }
        }
        for n in probes {
            for same in [true, false] {
                let known = w.peers[i].salts.get((n - 1) as usize).copied().unwrap_or(0);
                let salt = if same { known } else { (known + 1 + rng.below(3) as u8) % 4 };
                let via_batch = rng.chance(0.3);
                let got = if via_batch {
                    let r = w.sys.batch_update(vec![BatchUpdateRequest { user_id: w.peers[i].uid.clone(), sequence: n, message_hash: mhash(&w.peers[i].id, n, salt), timestamp: now_s() }]).await;
                    r.ok().and_then(|mut v| v.pop()).map(|r| r.result)
                } else {
                    w.sys.validate_sequence(&w.peers[i].uid, n, mhash(&w.peers[i].id, n, salt)).await.ok()
                };
                w.subs += 1;
                mon.count("submissions.after-reload-probe", 1);
                mon.eval();
                match got {
                    Some(Res::Valid) => {
                        mon.violation(
                            &format!("reload/re-accept/{}", if same { "same-hash" } else { "other-hash" }),
                            json!({"peer": hex8(&w.peers[i].id), "n": n, "reloaded_last_valid": l, "api": if via_batch {"batch_update"} else {"validate_sequence"}, "reload_generation": w.gen}),
                        );
                        resync(w).await;
                    }
                    Some(other) => {
                        mon.count(&format!("result.{}", Cls::of(&other).name()), 1);
                        mon.case(("reload-probe", gen_tag(w.gen), same, Cls::of(&other).name(), n == l, l > 1000));
                    }
                    None => mon.violation("api-error/after-reload", json!({"n": n})),
                }
            }
        }
    }
    if mon.want_sample() && floor_known && fin.iter().any(|f| *f > 3) && w.gen >= 1 {
        mon.sample(json!({"kind": "reload", "reload_generation": w.gen, "accepted_before_proven_sync": cp, "accepted_before_stop": fin, "reloaded_last_valid": lasts,
                          "then": "1, last, last-1, last/2 and random numbers <= last re-submitted with the original and with a different hash: none accepted"}));
    }
    w.note(format!("reload -> gen{} lasts={lasts:?}", w.gen));
}

async fn scenario(mon: &Monitor, rng: &mut Rng, idx: u64) {
    let long = idx % 9 == 4;
    let npeers = if long { 2 } else { rng.urange(1, 6) };
    let mut w = match new_world(rng, npeers).await {
        Ok(w) => w,
        Err(e) => {
            mon.inconclusive(&format!("cannot create store: {e}"));
            return;
        }
    };
    let steps = if long { mon.by_tier(1500, 2600) } else { rng.urange(30, mon.by_tier(260, 420)) };
    for step in 0..steps {
        if mon.time_up() {
            break;
        }
        // long scenarios push one peer past the 1000-entry history; full state comparison is sampled there
        let check_state = !long || step % 8 == 0;
        let wts: [u32; 4] = if long { [84, 10, 5, 1] } else { [62, 22, 12, 4] };
        match rng.weighted(&wts) {
            0 => op_single(mon, rng, &mut w, check_state).await,
            1 => op_batch(mon, rng, &mut w, check_state).await,
            2 => op_race(mon, rng, &mut w).await,
            _ => {
                let mid = rng.urange(0, 20);
                op_reload(mon, rng, &mut w, mid, false).await
            }
        }
    }
    // always end with one reload so that long histories are covered too
    if !mon.time_up() {
        op_reload(mon, rng, &mut w, 3, false).await;
        for _ in 0..10 {
            op_single(mon, rng, &mut w, true).await;
        }
    }
    if let Some(s) = Arc::get_mut(&mut w.sys) {
        s.stop_sync_task().await;
    }
    mon.count("stores", 1);
    mon.count("submissions.total", w.subs);
}

/// Peers whose WHOLE accepted history carries stamps just inside the accepted age (3597 s old when
/// accepted). A few seconds later those entries are older than the one-hour limit: they may be
/// trimmed from the history and the peer's last activity is "old" - but every number that was
/// accepted stays refused, in this process (after `cleanup_old_sequences`) and after a reload.
async fn aged_scenario(mon: &Monitor, rng: &mut Rng) {
    let npeers = rng.urange(1, 4);
    let mut w = match new_world(rng, npeers).await {
        Ok(w) => w,
        Err(e) => {
            mon.inconclusive(&format!("cannot create store: {e}"));
            return;
        }
    };
    w.aged_stamp = Some(3597);
    for _ in 0..rng.urange(2, 5) {
        op_batch(mon, rng, &mut w, true).await;
    }
    w.aged_stamp = None;
    mon.count("aged.worlds", 1);
    if rng.chance(0.5) {
        // persisted, aged, reloaded
        op_reload(mon, rng, &mut w, 0, true).await;
    } else {
        tokio::time::sleep(Duration::from_millis(4200)).await;
        if let Err(e) = w.sys.cleanup_old_sequences().await {
            mon.violation("api-error/cleanup_old_sequences", json!({"err": e.to_string()}));
        }
        w.note("aged 4.2 s past the limit; cleanup_old_sequences".into());
        mon.count("aged.cleanup-after-stamps-aged-past-one-hour", 1);
    }
    // replays, gaps and next numbers on the trimmed peers, through both APIs
    for _ in 0..rng.urange(6, 16) {
        if rng.chance(0.6) {
            op_batch(mon, rng, &mut w, true).await;
        } else {
            op_single(mon, rng, &mut w, true).await;
        }
    }
    op_reload(mon, rng, &mut w, 2, false).await;
    if let Some(s) = Arc::get_mut(&mut w.sys) {
        s.stop_sync_task().await;
    }
    mon.count("stores", 1);
}

/// Tightly aligned submitters: OS threads released by a spinning rendezvous all submit the same
/// next-expected number for a peer that already has state. A check-then-act window of a few
/// instructions (no await point inside) only opens under this kind of alignment.
fn spin_races(mon: &Monitor, seed: u64) {
    use std::sync::atomic::{AtomicUsize, Ordering};
    use std::sync::Arc;
    let threads = 8usize;
    let rounds = mon.by_tier(4000u64, 60000);
    let dir = std::env::temp_dir().join(format!("verif-c12-spin-{}-{seed}", std::process::id()));
    let _ = std::fs::create_dir_all(&dir);
    let path = dir.join("counters.bin");
    let rt = tokio::runtime::Builder::new_current_thread().enable_all().build().expect("rt");
    let Ok(sys) = rt.block_on(MonotonicCounterSystem::new(path)) else {
        mon.inconclusive("spin lane: counter store did not open");
        return;
    };
    let sys = Arc::new(sys);
    let peer = UserId::from_bytes([0x5a; 32]);
    // give the peer state first (first-contact races run wholly under the write lock)
    let _ = rt.block_on(sys.validate_sequence(&peer, 1, [1u8; 32]));
    let gen = Arc::new(AtomicUsize::new(0));
    let arrived = Arc::new(AtomicUsize::new(0));
    let wins: Arc<Vec<AtomicUsize>> = Arc::new((0..rounds as usize + 3).map(|_| AtomicUsize::new(0)).collect());
    // the lane is sized in rounds but capped in wall time: on a loaded machine a spinning rendezvous of
    // 8 threads can take minutes. The thread that opens a round shortens the run once the cap is spent.
    let limit = Arc::new(AtomicUsize::new(rounds as usize));
    let cap = Duration::from_secs(mon.by_tier(12u64, 150));
    let t_start = std::time::Instant::now();
    let mut hs = Vec::new();
    for t in 0..threads {
        let (sys, peer, gen, arrived, wins, limit) = (sys.clone(), peer.clone(), gen.clone(), arrived.clone(), wins.clone(), limit.clone());
        hs.push(std::thread::spawn(move || {
            let mut r = 0usize;
            while r < limit.load(Ordering::Acquire) {
                // rendezvous: the last arriver opens the round, everybody else spins
                if arrived.fetch_add(1, Ordering::AcqRel) + 1 == threads * (r + 1) {
                    if t_start.elapsed() > cap {
                        limit.store(r + 1, Ordering::Release);
                    }
                    gen.store(r + 1, Ordering::Release);
                } else {
                    while gen.load(Ordering::Acquire) < r + 1 {
                        std::hint::spin_loop();
                    }
                }
                let n = (r + 2) as u64;
                let mut h = [0u8; 32];
                h[..8].copy_from_slice(&n.to_le_bytes());
                h[8] = t as u8;
                let res = futures::executor::block_on(sys.validate_sequence(&peer, n, h));
                if matches!(res, Ok(Res::Valid)) {
                    wins[r].fetch_add(1, Ordering::Relaxed);
                }
                r += 1;
            }
        }));
    }
    for h in hs {
        let _ = h.join();
    }
    let stop_at = limit.load(Ordering::Acquire);
    if stop_at < rounds as usize {
        mon.count("spin.stopped-by-time-cap", 1);
    }
    let mut multi = 0u64;
    let mut none = 0u64;
    let mut worst = 0usize;
    for r in 0..stop_at {
        mon.eval();
        let w = wins[r].load(Ordering::Relaxed);
        if w > 1 {
            multi += 1;
            worst = worst.max(w);
        }
        if w == 0 {
            none += 1;
        }
    }
    mon.case(("spin-race", threads, multi.min(3), none.min(3)));
    mon.count("spin.rounds", stop_at as u64);
    if multi > 0 {
        mon.violation("race/accepted-more-than-once/spin-aligned-os-threads", json!({"rounds": stop_at, "numbers_accepted_more_than_once": multi, "max_winners": worst, "threads": threads}));
    }
    if none > 0 {
        mon.violation("race/next-expected-number-accepted-by-nobody/spin-aligned-os-threads", json!({"rounds": stop_at, "numbers_without_winner": none}));
    }
    let last = rt.block_on(sys.get_peer_counter(&peer)).map(|c| c.last_valid_sequence);
    mon.eval();
    if last != Some(stop_at as u64 + 1) {
        mon.violation("race/counter-not-at-last-accepted-number/spin-aligned-os-threads", json!({"last_valid_sequence": last, "expected": stop_at + 1}));
    }
    let _ = std::fs::remove_dir_all(&dir);
}

fn main() {
    let mon = Monitor::new("C12", "exploration");
    // supplementary sanitizer lanes (thorough tier): built and run alongside the behavioural workload, joined before the verdict
    let lanes = checks::lanes::start(&mon, &[("miri", "counter", "0..8")]);
    mon.set_rule("case = one submission (validate_sequence or one batch_update entry), one race of T tasks on one peer, or one reload check; non-trivial when the peer already has accepted numbers (submission), when >=1 number is submitted by >=2 racers (race), or when numbers were accepted before the checkpoint (reload); distinct by (api, classification, relation of n to last, hash relation, timestamp class, reload generation) / (race pattern, width class, classes seen, generation) / (generation, proven-sync floor, tail lost, history > 1000)");
    mon.assume("wall-clock seconds read before and after batch_update bracket the library's own reading; entries whose timestamp class depends on which second was read are accepted either way and counted");
    mon.assume("a sync is known complete when persistence_ops advanced by 2 since the checkpoint (the first may have snapshotted earlier); stop_sync_task cannot recall a file write already under way, so the store is reopened from a copy of the file at a new path (one path per generation) and a file caught empty or torn is re-read, not judged");
    let per_shard = mon.by_tier(80u64, 420);
    let workers = 3;
    vkit::run_shards(mon.shards(), mon.seed, |_i, mut rng| {
        let rt = tokio::runtime::Builder::new_multi_thread().worker_threads(workers).enable_all().build().expect("runtime");
        rt.block_on(async {
            for k in 0..per_shard {
                if mon.time_up() {
                    break;
                }
                scenario(&mon, &mut rng, k).await;
                // one aged world per shard in the quick tier, one every 40 scenarios in the thorough tier
                if k == 1 || (!mon.quick() && k % 40 == 1) {
                    aged_scenario(&mon, &mut rng).await;
                }
            }
        });
    });
    spin_races(&mon, mon.seed);
    // supplementary sanitizer lane (thorough): submissions racing on OS threads under Miri (UB + data races)
    checks::lanes::join(&mon, lanes);
    mon.finish();
}
