fn main() { println!("build probe"); }
