//! C02 — routing-table closest-node answers are exact, duplicate-free and capped.
//! Oracle: ordered-set model of the table driven by the same operation history; every
//! table snapshot and every query/reply is compared with the model.

use checks::keys::*;
use saorsa_core::dht::core_engine::{DhtCoreEngine, DhtKey, DhtRequestWrapper, NodeCapacity, NodeId, NodeInfo};
use saorsa_core::dht::network_integration::{DhtMessage, DhtResponse};
use saorsa_core::dht::routing_maintenance::EvictionReason;
use serde_json::json;
use std::collections::{BTreeMap, BTreeSet};
use std::time::SystemTime;
use vkit::{hex8, Monitor, Rng};

fn ninfo(id: [u8; 32], tag: usize) -> NodeInfo {
    NodeInfo {
        id: NodeId::from_bytes(id),
        // not an IP: the admission gates (C13) are skipped, only table logic is exercised
        address: format!("peer-{tag}"),
        last_seen: SystemTime::now(),
        capacity: NodeCapacity::default(),
    }
}

struct World {
    local: [u8; 32],
    eng: DhtCoreEngine,
    /// model: id -> present
    model: BTreeSet<[u8; 32]>,
    /// every id ever generated, for re-adds and targets
    pool: Vec<[u8; 32]>,
    hist: Vec<String>,
}

fn sorted_prefix(ids: &BTreeSet<[u8; 32]>, key: &[u8; 32], n: usize) -> Vec<[u8; 32]> {
    let mut v: Vec<[u8; 32]> = ids.iter().copied().collect();
    v.sort_by_key(|i| xor(i, key));
    v.truncate(n);
    v
}

fn pop_bitmap(local: &[u8; 32], ids: &BTreeSet<[u8; 32]>) -> BTreeMap<usize, usize> {
    let mut m = BTreeMap::new();
    for i in ids {
        if let Some(b) = bucket_of(local, i) {
            *m.entry(b).or_insert(0) += 1;
        }
    }
    m
}

/// compare an answer with the model's exact prefix; classify the first thing wrong
fn judge_answer(
    mon: &Monitor,
    api: &str,
    w: &World,
    table: &BTreeSet<[u8; 32]>,
    key: &[u8; 32],
    n: usize,
    cap: usize,
    got: &[[u8; 32]],
) {
    mon.eval();
    let want_n = n.min(cap);
    let expect = sorted_prefix(table, key, want_n);
    let pop = pop_bitmap(&w.local, table);
    let tb = bucket_of(&w.local, key).unwrap_or(255);
    if table.len() >= 2 && pop.len() >= 2 && n >= 1 {
        let mut h = std::collections::hash_map::DefaultHasher::new();
        use std::hash::{Hash, Hasher};
        pop.hash(&mut h);
        mon.case((api, h.finish(), tb, n));
    }
    if got == expect.as_slice() {
        return;
    }
    let gset: BTreeSet<[u8; 32]> = got.iter().copied().collect();
    let rule = if got.len() > cap {
        "over-cap"
    } else if gset.len() != got.len() {
        "duplicate"
    } else if got.iter().any(|g| *g == w.local) {
        "self"
    } else if got.iter().any(|g| !table.contains(g)) {
        "foreign"
    } else if got.windows(2).any(|p| xor(&p[0], key) > xor(&p[1], key)) {
        "unsorted"
    } else if got.len() > expect.len() {
        "too-many"
    } else if got.len() < expect.len() {
        "too-few"
    } else {
        "not-closest"
    };
    mon.violation(
        &format!("{api}/{rule}"),
        json!({
            "local": hex::encode(w.local), "key": hex::encode(key), "n": n,
            "target_bucket": tb,
            "bucket_population": pop.iter().map(|(b,c)| format!("{b}:{c}")).collect::<Vec<_>>(),
            "got": got.iter().map(|g| format!("{}(b{})", hex8(g), bucket_of(&w.local,g).map(|b| b as i64).unwrap_or(-1))).collect::<Vec<_>>(),
            "expected": expect.iter().map(|g| format!("{}(b{})", hex8(g), bucket_of(&w.local,g).map(|b| b as i64).unwrap_or(-1))).collect::<Vec<_>>(),
            "history_tail": w.hist.iter().rev().take(12).rev().collect::<Vec<_>>(),
        }),
    );
}

async fn check_table(mon: &Monitor, w: &World, after: &str) -> BTreeSet<[u8; 32]> {
    let snap = w.eng.verif_routing_snapshot().await;
    mon.eval();
    let ids: Vec<[u8; 32]> = snap.iter().map(|(i, _)| *i).collect();
    let set: BTreeSet<[u8; 32]> = ids.iter().copied().collect();
    let detail = |what: &str| {
        json!({"after": after, "what": what, "local": hex::encode(w.local),
               "table_len": ids.len(), "distinct": set.len(), "model_len": w.model.len(),
               "history_tail": w.hist.iter().rev().take(12).rev().collect::<Vec<_>>()})
    };
    if set.len() != ids.len() {
        mon.violation("table/duplicate-entry", detail("an id is listed more than once"));
    }
    if set.contains(&w.local) {
        mon.violation("table/lists-local-node", detail("the local id is in the table"));
    }
    let mut no_self = set.clone();
    no_self.remove(&w.local);
    if no_self != w.model {
        let missing = w.model.difference(&no_self).count();
        let extra = no_self.difference(&w.model).count();
        if missing > 0 {
            mon.violation("table/missing-after-ok", detail(&format!("{missing} ids acknowledged but absent")));
        }
        if extra > 0 {
            mon.violation("table/present-after-remove-or-err", detail(&format!("{extra} ids present but removed/refused")));
        }
    }
    set
}

async fn scenario(mon: &Monitor, rng: &mut Rng, idx: u64) {
    let local = rng.arr32();
    let eng = match DhtCoreEngine::verif_new_log_only(NodeId::from_bytes(local)) {
        Ok(e) => e,
        Err(e) => {
            mon.inconclusive(&format!("engine construction failed: {e}"));
            return;
        }
    };
    let mut w = World { local, eng, model: BTreeSet::new(), pool: Vec::new(), hist: Vec::new() };
    // shape: which buckets get populated and how densely
    let shape = rng.below(7);
    let buckets: Vec<usize> = match shape {
        0 => vec![0, 1, 2, 3],
        1 => vec![0],
        2 => vec![255, 254, 253, 250, 0],
        3 => (0..rng.urange(2, 12)).map(|_| rng.urange(0, 255)).collect(),
        4 => vec![rng.urange(100, 140), rng.urange(100, 140), rng.urange(0, 5)],
        5 => vec![rng.urange(200, 255), rng.urange(3, 9), rng.urange(3, 9), 1],
        _ => (0..rng.urange(8, 40)).map(|_| rng.urange(0, 24)).collect(),
    };
    let nops = rng.urange(4, mon.by_tier(90, 220));
    let mut tag = 0usize;
    for step in 0..nops {
        let op = rng.weighted(&[50, 10, 8, 8, 6, 4, 4]);
        match op {
            0 | 1 => {
                // add (0) / join batch (1) of fresh ids in chosen buckets
                let cnt = if op == 0 { 1 } else { rng.urange(1, 12) };
                let mut batch = Vec::new();
                for _ in 0..cnt {
                    let b = *rng.pick(&buckets);
                    let id = id_in_bucket(&w.local, b, rng);
                    w.pool.push(id);
                    // peers are identified by id: now and then a new peer arrives on an address string
                    // that another peer already holds (same NAT / same host)
                    let t = if tag > 0 && rng.chance(0.15) {
                        mon.count("ops.address-shared-with-another-peer", 1);
                        rng.urange(1, tag)
                    } else {
                        tag += 1;
                        tag
                    };
                    batch.push((id, t));
                }
                if op == 0 {
                    let (id, t) = batch[0];
                    let r = w.eng.add_node(ninfo(id, t)).await;
                    w.hist.push(format!("add {} b{} -> {}", hex8(&id), bucket_of(&w.local, &id).unwrap_or(999), if r.is_ok() { "ok" } else { "err" }));
                    if r.is_ok() {
                        w.model.insert(id);
                    }
                } else {
                    // join_network stops at the first error: ids before it are in
                    let before = w.eng.verif_routing_snapshot().await.len();
                    let infos: Vec<NodeInfo> = batch.iter().map(|(i, t)| ninfo(*i, *t)).collect();
                    let r = w.eng.join_network(infos).await;
                    let after: BTreeSet<[u8; 32]> = w.eng.verif_routing_snapshot().await.into_iter().map(|(i, _)| i).collect();
                    w.hist.push(format!("join x{} -> {} ({}→{})", batch.len(), if r.is_ok() { "ok" } else { "err" }, before, after.len()));
                    if r.is_ok() {
                        for (i, _) in &batch {
                            w.model.insert(*i);
                        }
                    } else {
                        // partial application is legitimate on Err; adopt what is there for these ids
                        for (i, _) in &batch {
                            if after.contains(i) {
                                w.model.insert(*i);
                            }
                        }
                    }
                }
            }
            2 => {
                // re-add an id already generated (present or removed)
                if let Some(id) = (!w.pool.is_empty()).then(|| *rng.pick(&w.pool)) {
                    // a known peer comes back: on a fresh address, or on one some other peer holds
                    let t = if tag > 0 && rng.chance(0.4) {
                        mon.count("ops.address-shared-with-another-peer", 1);
                        rng.urange(1, tag)
                    } else {
                        tag += 1;
                        tag
                    };
                    let r = if rng.chance(0.5) {
                        w.eng.add_node(ninfo(id, t)).await
                    } else {
                        w.eng.join_network(vec![ninfo(id, t)]).await
                    };
                    w.hist.push(format!("re-add {} (present={}) -> {}", hex8(&id), w.model.contains(&id), if r.is_ok() { "ok" } else { "err" }));
                    if r.is_ok() {
                        w.model.insert(id);
                    }
                }
            }
            3 => {
                // the local id itself
                tag += 1;
                let r = if rng.chance(0.5) {
                    w.eng.add_node(ninfo(w.local, tag)).await
                } else {
                    w.eng.join_network(vec![ninfo(w.local, tag)]).await
                };
                w.hist.push(format!("add-self -> {}", if r.is_ok() { "ok" } else { "err" }));
            }
            4 => {
                if let Some(id) = (!w.pool.is_empty()).then(|| *rng.pick(&w.pool)) {
                    let _ = w.eng.handle_node_failure(NodeId::from_bytes(id)).await;
                    w.hist.push(format!("fail {}", hex8(&id)));
                    w.model.remove(&id);
                }
            }
            5 => {
                if let Some(id) = (!w.pool.is_empty()).then(|| *rng.pick(&w.pool)) {
                    let reason = match rng.below(4) {
                        0 => EvictionReason::ConsecutiveFailures(3),
                        1 => EvictionReason::LowTrust("0.1".into()),
                        2 => EvictionReason::CloseGroupRejection,
                        _ => EvictionReason::Stale,
                    };
                    let _ = w.eng.evict_node(&NodeId::from_bytes(id), reason).await;
                    w.hist.push(format!("evict {}", hex8(&id)));
                    w.model.remove(&id);
                }
            }
            _ => {
                // remove an id that was never added
                let id = rng.arr32();
                let _ = w.eng.handle_node_failure(NodeId::from_bytes(id)).await;
                w.hist.push("fail unknown".into());
            }
        }
        let table = check_table(mon, &w, w.hist.last().map(|s| s.as_str()).unwrap_or("")).await;
        // table content defects are reported above; answers are judged against the distinct
        // ids actually listed (minus self), so the two kinds of finding stay separate
        let mut tset = table.clone();
        tset.remove(&w.local);

        // queries on this state
        let nq = if step % 3 == 0 || step + 1 == nops { mon.by_tier(6, 10) } else { 1 };
        for _ in 0..nq {
            let key = match rng.below(6) {
                0 => rng.arr32(),
                1 => w.local,
                2 if !w.pool.is_empty() => *rng.pick(&w.pool),
                3 => id_in_bucket(&w.local, rng.urange(0, 255), rng),
                4 => id_in_bucket(&w.local, *rng.pick(&buckets), rng),
                _ => {
                    // neighbour of a stored id
                    if let Some(id) = tset.iter().next().copied() {
                        let mut k = id;
                        flip_bit(&mut k, rng.urange(200, 255));
                        k
                    } else {
                        rng.arr32()
                    }
                }
            };
            let n = match rng.below(5) {
                0 => rng.urange(0, 3),
                1 => 8,
                2 => 20,
                _ => rng.urange(0, 64),
            };
            match rng.below(4) {
                0 | 1 => {
                    let got = w.eng.find_nodes(&DhtKey::from_bytes(key), n).await;
                    match got {
                        Ok(v) => {
                            let ids: Vec<[u8; 32]> = v.iter().map(|x| *x.id.as_bytes()).collect();
                            judge_answer(mon, "find_nodes", &w, &tset, &key, n, usize::MAX, &ids);
                            if idx % 97 == 0 && mon.want_sample() {
                                mon.sample(json!({"api":"find_nodes","table_size":tset.len(),"n":n,"key":hex8(&key),
                                    "answer":ids.iter().map(|i| hex8(i)).collect::<Vec<_>>(),"history_tail": w.hist.iter().rev().take(6).rev().collect::<Vec<_>>()}));
                            }
                        }
                        Err(e) => mon.violation("find_nodes/error", json!({"err": e.to_string()})),
                    }
                }
                2 => {
                    let count = match rng.below(4) {
                        0 => usize::MAX,
                        1 => 21,
                        2 => 20,
                        _ => n,
                    };
                    let resp = w.eng.handle_request(DhtRequestWrapper {
                        id: format!("q{step}"),
                        message: DhtMessage::FindNode { target: DhtKey::from_bytes(key), count },
                    }).await;
                    match resp.response {
                        DhtResponse::FindNodeReply { nodes, .. } => {
                            let ids: Vec<[u8; 32]> = nodes.iter().map(|x| *x.id.as_bytes()).collect();
                            judge_answer(mon, "reply.find_node", &w, &tset, &key, count, 20, &ids);
                        }
                        other => mon.violation("reply.find_node/wrong-variant", json!({"got": format!("{other:?}").chars().take(80).collect::<String>()})),
                    }
                }
                _ => {
                    let resp = w.eng.handle_request(DhtRequestWrapper {
                        id: format!("v{step}"),
                        message: DhtMessage::FindValue { key: DhtKey::from_bytes(key) },
                    }).await;
                    match resp.response {
                        DhtResponse::FindValueReply { value: None, nodes } => {
                            let ids: Vec<[u8; 32]> = nodes.iter().map(|x| *x.id.as_bytes()).collect();
                            judge_answer(mon, "reply.find_value", &w, &tset, &key, 8, 8, &ids);
                        }
                        other => mon.violation("reply.find_value/wrong-variant", json!({"got": format!("{other:?}").chars().take(80).collect::<String>()})),
                    }
                }
            }
        }
    }
}

/// Part (c): the node list in a reply to a remote find-node / find-value / get request, over
/// everything the replying node knows (table plus connected peers), on a MemNet of real nodes.
async fn remote_replies(mon: &Monitor, rng: &mut Rng) {
    use checks::net::*;
    use memnet::*;
    use saorsa_core::dht_network_manager::{DhtNetworkOperation, DhtNetworkResult};
    use std::time::Duration;
    // large full meshes overflow the first buckets (8 entries each), which leaves connected peers
    // outside the routing table: the reply must still be exact over table + connected peers
    let big = rng.chance(0.35);
    let n = if big { rng.urange(18, 30) } else { rng.urange(2, mon.by_tier(10, 16)) };
    let topo = if big { Topo::FullMesh } else { *rng.pick(&TOPOS) };
    let cfg = NodeCfg { request_timeout: Duration::from_secs(2), connection_timeout: Duration::from_secs(1), aligned_ids: rng.chance(0.8), ..Default::default() };
    let Ok(w) = World::build(rng, n, topo, &cfg).await else {
        mon.inconclusive("world build failed");
        return;
    };
    // some lookups first so that tables and connected-peer maps diverge
    for _ in 0..rng.urange(0, 3) {
        let x = rng.usize_below(n);
        let _ = w.nodes[x].mgr.find_closest_nodes(&rng.arr32(), 8).await;
    }
    let ptid = rng.arr32();
    let phex = hex::encode(ptid);
    let paddr = sim_addr(n + 3);
    let mut prx = w.hub.register_puppet(ptid, paddr);
    // the identifier each node has been named under in any reply of this world so far
    let mut spelled: std::collections::HashMap<usize, String> = std::collections::HashMap::new();
    for q in 0..rng.urange(2, 8) {
        let r = rng.usize_below(n);
        let rn = &w.nodes[r];
        let _ = rn.mgr.connect_to_peer(&paddr.to_string()).await;
        // connections come and go: the replier loses some of its connections (both ends see the close);
        // the peers stay in its routing table and must keep their one name
        if rng.chance(0.4) {
            let mut dropped = 0;
            for (pid, _k, conn, _a) in rn.mgr.verif_dht_peers().await {
                if conn && pid != phex && dropped < 3 && rng.chance(0.35) {
                    let _ = rn.transport.disconnect_peer(&pid).await;
                    if let Some(&i) = w.spell.get(&pid) {
                        let _ = w.nodes[i].transport.disconnect_peer(&rn.tid_hex).await;
                    }
                    dropped += 1;
                }
            }
            if dropped > 0 {
                mon.count("reply.manager.asked-after-connection-drops", 1);
            }
        }
        settle(Duration::from_millis(10)).await;
        // what the replier knows
        let rt = rn.mgr.verif_routing_snapshot().await;
        let peers = rn.mgr.verif_dht_peers().await;
        let mut known: BTreeSet<[u8; 32]> = BTreeSet::new(); // by position
        for (id, _) in &rt {
            known.insert(*id);
        }
        for (_pid, k, conn, addrs) in &peers {
            if *conn && !addrs.is_empty() {
                known.insert(*k);
            }
        }
        let ppos = pos_of(&phex);
        known.remove(&ppos);
        known.remove(&rn.pos);
        let key = match rng.below(3) {
            0 => rn.pos,
            1 => w.nodes[rng.usize_below(n)].pos,
            _ => rng.arr32(),
        };
        let op = match rng.below(3) {
            0 => DhtNetworkOperation::FindNode { key },
            1 => DhtNetworkOperation::FindValue { key },
            _ => DhtNetworkOperation::Get { key },
        };
        let opn = op_name(&op).0;
        let id = format!("c02-{q}");
        while prx.try_recv().is_ok() {}
        w.hub.inject(ptid, &rn.tid_hex, dht_request_frame(&phex, &id, &rn.tid_hex, op), Duration::ZERO);
        settle(Duration::from_millis(20)).await;
        let mut reply = None;
        while let Ok((_f, frame)) = prx.try_recv() {
            if let (_, _, Some(m)) = summarize(&frame) {
                if m.message_id == id {
                    reply = m.result.clone();
                }
            }
        }
        mon.eval();
        let ctx = |extra: serde_json::Value| json!({"n": n, "topology": format!("{topo:?}"), "aligned_ids": cfg.aligned_ids, "replier": hex8(&rn.tid), "op": opn, "key": hex8(&key), "known": known.len(), "detail": extra});
        let nodes = match reply {
            Some(DhtNetworkResult::NodesFound { nodes, .. }) => nodes,
            Some(DhtNetworkResult::GetNotFound { .. }) => {
                if !known.is_empty() {
                    mon.violation("reply.manager/empty-although-peers-known", ctx(json!({})));
                }
                continue;
            }
            Some(other) => {
                mon.count(&format!("reply.manager.other.{}", result_name(&other)), 1);
                continue;
            }
            None => {
                mon.count("reply.manager.no-reply", 1);
                continue;
            }
        };
        mon.count("reply.manager.judged", 1);
        if known.len() >= 2 {
            mon.case(("reply.manager", opn, known.len().min(12), nodes.len()));
        }
        if nodes.len() > 20 {
            mon.violation("reply.manager/over-cap", ctx(json!({"len": nodes.len()})));
        }
        // identity of each named entry: transport id, hex(dht key) or app id of a real node
        let mut named: Vec<[u8; 32]> = Vec::new();
        let mut unknown = 0;
        for nd in &nodes {
            match w.spell.get(&nd.peer_id) {
                Some(&i) => named.push(w.nodes[i].pos),
                None if nd.peer_id == phex => named.push(ppos),
                None => unknown += 1,
            }
        }
        if unknown > 0 {
            mon.violation("reply.manager/names-unknown-id", ctx(json!({"unknown": unknown})));
            continue;
        }
        // one identifier per peer, across every reply of this world
        for nd in &nodes {
            if let Some(&i) = w.spell.get(&nd.peer_id) {
                match spelled.get(&i) {
                    Some(prev) if *prev != nd.peer_id => {
                        let kind = |s: &str| if *s == w.nodes[i].tid_hex { "transport-id" } else if *s == hex::encode(w.nodes[i].pos) { "hex-of-dht-key" } else { "other" };
                        mon.violation("reply.manager/peer-named-under-two-identifiers", ctx(json!({"peer": hex8(&w.nodes[i].tid), "earlier": kind(prev), "now": kind(&nd.peer_id)})));
                        break;
                    }
                    Some(_) => {}
                    None => {
                        spelled.insert(i, nd.peer_id.clone());
                    }
                }
            }
        }
        let set: BTreeSet<[u8; 32]> = named.iter().copied().collect();
        if set.len() != named.len() {
            let spellings: BTreeSet<usize> = nodes.iter().map(|n| n.peer_id.len()).collect();
            mon.violation("reply.manager/one-peer-listed-twice", ctx(json!({"entries": named.len(), "distinct": set.len(), "id_lengths": spellings})));
            continue;
        }
        if set.contains(&ppos) {
            mon.violation("reply.manager/names-the-requester", ctx(json!({})));
        }
        if set.contains(&rn.pos) {
            mon.violation("reply.manager/names-the-replier", ctx(json!({})));
        }
        if named.windows(2).any(|p| xor(&p[0], &key) > xor(&p[1], &key)) {
            mon.violation("reply.manager/unsorted", ctx(json!({})));
        }
        if let Some(f) = named.iter().find(|p| !known.contains(*p) && **p != ppos && **p != rn.pos) {
            mon.violation("reply.manager/names-peer-the-replier-does-not-know", ctx(json!({"peer": hex8(f)})));
        }
        // exactness: the answer is a prefix of everything known, sorted
        let expect = sorted_prefix(&known, &key, named.len());
        let got: Vec<[u8; 32]> = named.iter().copied().filter(|p| *p != ppos && *p != rn.pos).collect();
        if got.len() == named.len() && got != expect {
            mon.violation("reply.manager/not-closest", ctx(json!({"got": got.iter().map(|g| hex8(g)).collect::<Vec<_>>(), "expected": expect.iter().map(|g| hex8(g)).collect::<Vec<_>>()})));
        }
        if named.is_empty() && !known.is_empty() {
            mon.violation("reply.manager/empty-although-peers-known", ctx(json!({})));
        }
    }
    w.shutdown().await;
}

fn main() {
    let mon = Monitor::new("C02", "exploration");
    mon.set_rule("case = one query (find_nodes / FindNode reply / FindValue reply) on one table state reached by a seeded add/join/re-add/self-add/fail/evict history; non-trivial when the table holds >=2 peers in >=2 buckets and n>=1; distinct by (api, bucket-population bitmap, target bucket, n)");
    mon.assume("addresses are non-IP strings so the admission gates of C13 do not interfere with table logic");
    let per_shard = mon.by_tier(4000u64, 120000);
    vkit::run_shards(mon.shards(), mon.seed, |_i, mut rng| {
        let rt = checks::rt(false);
        rt.block_on(async {
            for k in 0..per_shard {
                if mon.spent(0.6) {
                    break;
                }
                scenario(&mon, &mut rng, k).await;
                mon.count("tables", 1);
            }
        });
        // part (c): replies of real nodes (paused clock)
        let worlds = mon.by_tier(25u64, 900);
        for _ in 0..worlds {
            if mon.time_up() {
                break;
            }
            let rt = checks::rt(true);
            rt.block_on(remote_replies(&mon, &mut rng));
            mon.count("reply_worlds", 1);
        }
    });
    mon.finish();
}
