//! C06 — acknowledged state survives a crash at any point; recovery is a prefix.
//! Process-death model: the state directory as it is at every instrumented crash point
//! (hook callback) and at every byte-truncation of the last log record is recovered by a
//! fresh manager and compared with the prefixes of the issued operation history.

use checks::pstate::*;
use parking_lot::Mutex;
use saorsa_core::persistent_state::FlushStrategy;
use serde_json::json;
use std::collections::{BTreeMap, HashMap};
use std::path::{Path, PathBuf};
use std::sync::atomic::{AtomicU64, AtomicUsize, Ordering};
use std::sync::Arc;
use vkit::{Monitor, Rng};

/// what the hook callback records for one state directory
struct Recorder {
    /// index of the operation currently executing (= number of acknowledged ops)
    in_op: AtomicUsize,
    /// take a snapshot at every hook (short histories) or at structural hooks + a sample
    every: bool,
    sample_ppm: u64,
    counter: AtomicU64,
    shots: Mutex<Vec<Shot>>,
}
struct Shot {
    hook: String,
    in_op: usize,
    image: DirImage,
}

static REG: Mutex<Option<HashMap<PathBuf, Arc<Recorder>>>> = Mutex::new(None);

fn install_callback() {
    saorsa_core::verif_hooks::set_crash_callback(Some(Arc::new(|name: &str, path: &Path| {
        let dir = if path.is_dir() { path.to_path_buf() } else { path.parent().map(|p| p.to_path_buf()).unwrap_or_default() };
        let rec = REG.lock().as_ref().and_then(|m| m.get(&dir).cloned());
        let Some(rec) = rec else { return };
        let n = rec.counter.fetch_add(1, Ordering::Relaxed);
        let structural = !name.starts_with("wal.write_entry");
        let sampled = (n.wrapping_mul(0x9E37_79B9_7F4A_7C15) >> 44) % 1_000_000 < rec.sample_ppm;
        if rec.every || structural || sampled {
            rec.shots.lock().push(Shot { hook: name.to_string(), in_op: rec.in_op.load(Ordering::Relaxed), image: capture(&dir) });
        }
    })));
}

fn register(dir: &Path, every: bool, sample_ppm: u64) -> Arc<Recorder> {
    let r = Arc::new(Recorder { in_op: AtomicUsize::new(0), every, sample_ppm, counter: AtomicU64::new(0), shots: Mutex::new(Vec::new()) });
    REG.lock().get_or_insert_with(HashMap::new).insert(dir.to_path_buf(), r.clone());
    r
}
fn unregister(dir: &Path) {
    if let Some(m) = REG.lock().as_mut() {
        m.remove(dir);
    }
}

/// recover an image in a fresh directory with a fresh manager; returns recovered state + max txn id on disk
async fn recover(img: &DirImage, tag: &str) -> Result<(BTreeMap<String, Val>, PathBuf, Mgr), String> {
    let dir = scratch(tag);
    materialize(img, &dir);
    let m = Mgr::new(config(&dir, FlushStrategy::Always)).await.map_err(|e| e.to_string())?;
    let st: BTreeMap<String, Val> = m.get_all().map_err(|e| e.to_string())?.into_iter().collect();
    Ok((st, dir, m))
}

fn max_txn(img: &DirImage) -> u64 {
    let mut mx = 0;
    for (n, b) in img {
        if is_wal(n) {
            for (_, _, e) in wal_records(b) {
                if let Some(e) = e {
                    mx = mx.max(e.transaction_id);
                }
            }
        }
    }
    mx
}

fn hist_tail(ops: &[Op], upto: usize) -> Vec<String> {
    ops[..upto.min(ops.len())]
        .iter()
        .enumerate()
        .rev()
        .take(8)
        .rev()
        .map(|(i, o)| match o {
            Op::Upsert(k, v) => format!("#{i} upsert {k}={}", v.0),
            Op::Delete(k) => format!("#{i} delete {k}"),
            Op::Batch(c) => format!("#{i} batch {:?}", c.iter().map(|(k, v)| format!("{k}={}", v.as_ref().map(|v| v.0 as i64).unwrap_or(-1))).collect::<Vec<_>>()),
            Op::Checkpoint => format!("#{i} checkpoint"),
        })
        .collect()
}

/// judge one recovered state against the prefixes allowed at that instant
#[allow(clippy::too_many_arguments)]
fn judge(mon: &Monitor, what: &str, hook: &str, ops: &[Op], pre: &[BTreeMap<String, Val>], base: usize, in_op: usize, acked_floor: usize, got: &BTreeMap<String, Val>, extra: serde_json::Value) -> Option<usize> {
    mon.eval();
    let kinds: Vec<&str> = {
        let mut k: Vec<&str> = ops[..in_op.min(ops.len())].iter().map(|o| o.kind()).collect();
        k.sort();
        k.dedup();
        k
    };
    if in_op >= 1 {
        mon.case((what.to_string(), hook.to_string(), kinds.clone()));
    }
    // exact prefix?
    let hit = (0..pre.len()).rev().find(|j| &pre[*j] == got);
    let cur_kind = ops.get(in_op).map(|o| o.kind()).unwrap_or("none");
    let detail = |why: &str, j: Option<usize>| {
        json!({"what": what, "hook": hook, "why": why, "ops_issued_before_this_session": base, "in_op": in_op, "op_in_progress": cur_kind, "acknowledged": acked_floor,
               "matched_prefix": j, "recovered_keys": got.len(), "expected_keys_at_ack": pre.get(acked_floor).map(|p| p.len()),
               "missing_vs_ack": pre.get(acked_floor).map(|p| p.iter().filter(|(k, v)| got.get(*k) != Some(*v)).take(4).map(|(k, v)| format!("{k}={}", v.0)).collect::<Vec<_>>()),
               "history_tail": hist_tail(ops, in_op + 1), "extra": extra})
    };
    match hit {
        None => {
            // is it a partially applied batch?
            let partial_batch = matches!(ops.get(in_op), Some(Op::Batch(_))) && {
                let (a, b) = (&pre[in_op], &pre[(in_op + 1).min(pre.len() - 1)]);
                got.iter().all(|(k, v)| a.get(k) == Some(v) || b.get(k) == Some(v)) && a.keys().chain(b.keys()).all(|k| got.contains_key(k) || !a.contains_key(k) || !b.contains_key(k))
            };
            let invented = got.iter().any(|(k, v)| v.1 != *k || !ops.iter().any(|o| match o {
                Op::Upsert(kk, vv) => kk == k && vv == v,
                Op::Batch(c) => c.iter().any(|(kk, vv)| kk == k && vv.as_ref() == Some(v)),
                _ => false,
            }));
            let sig = if invented {
                format!("{what}/recovered-value-never-written/{hook}")
            } else if partial_batch {
                format!("{what}/not-a-prefix/batch-partially-applied/{hook}")
            } else if got.is_empty() && acked_floor > 0 {
                format!("{what}/not-a-prefix/nothing-recovered/{hook}")
            } else {
                format!("{what}/not-a-prefix/{hook}")
            };
            mon.violation(&sig, detail("recovered state equals no prefix of the issued operations", None));
            None
        }
        Some(j) => {
            // several prefixes can be equal (no-op deletes, checkpoints): accept if ANY equal prefix index >= floor
            let ok = (acked_floor..pre.len()).any(|jj| &pre[jj] == got);
            if !ok {
                let sig = if got.is_empty() && acked_floor > 0 { format!("{what}/acknowledged-lost/nothing-recovered/{hook}") } else { format!("{what}/acknowledged-lost/{hook}") };
                mon.violation(&sig, detail("prefix does not contain every acknowledged operation (flush-always)", Some(j)));
            }
            // nothing from the future
            let maxj = (in_op + 1).min(pre.len() - 1);
            if !(0..=maxj).any(|jj| &pre[jj] == got) {
                mon.violation(&format!("{what}/recovered-operation-not-yet-issued/{hook}"), detail("state contains effects of operations after the crash instant", Some(j)));
            }
            Some(j)
        }
    }
}

async fn history(mon: &Monitor, rng: &mut Rng, long: bool, depth_left: usize, start_img: Option<DirImage>, inherited: Vec<Op>) {
    let dir = scratch("c06");
    if let Some(img) = &start_img {
        materialize(img, &dir);
    }
    let base = inherited.len();
    let nkeys = if long { rng.urange(8, 40) } else { rng.urange(2, 8) };
    let nops = if long { rng.urange(1050, mon.by_tier(1300, 2300)) } else { rng.urange(10, 60) };
    let flush = match rng.below(4) {
        0 => FlushStrategy::Adaptive,
        1 => FlushStrategy::BufferSize(8),
        _ => FlushStrategy::Always,
    };
    // the process-death model sees every write immediately (std File is unbuffered), so all flush
    // policies are judged like flush-always; the policy only diversifies the code path
    let rec = register(&dir, !long, if long { 50_000 } else { 1_000_000 });
    let txn_before = start_img.as_ref().map(max_txn).unwrap_or(0);
    let m = match Mgr::new(config(&dir, flush)).await {
        Ok(m) => m,
        Err(e) => {
            mon.violation("open/manager-failed-to-open-directory", json!({"err": e.to_string(), "resumed": start_img.is_some()}));
            unregister(&dir);
            let _ = std::fs::remove_dir_all(&dir);
            return;
        }
    };
    let mut ops = inherited;
    let mut model: BTreeMap<String, Val> = {
        let mut s = BTreeMap::new();
        for o in &ops {
            apply(&mut s, o);
        }
        s
    };
    // a resumed session must see the state it recovered (judged by the caller); continue from the manager's view
    if start_img.is_some() {
        model = m.get_all().map(|h| h.into_iter().collect()).unwrap_or_default();
        // re-base: treat the recovered state as one synthetic batch so that prefixes line up
        ops = vec![Op::Batch(model.iter().map(|(k, v)| (k.clone(), Some(v.clone()))).collect())];
        if model.is_empty() {
            ops.clear();
        }
    }
    let synthetic = ops.len();
    rec.in_op.store(ops.len(), Ordering::Relaxed);
    let mut pending: Vec<(Shot, usize)> = Vec::new();
    let mut opid = rng.next_u64() >> 20;
    for _ in 0..nops {
        if mon.time_up() {
            break;
        }
        opid += 1;
        let op = gen_op(rng, opid, nkeys, &model, true);
        ops.push(op.clone());
        rec.in_op.store(ops.len() - 1, Ordering::Relaxed);
        let r = run_op(&m, &op).await;
        mon.count(&format!("ops.{}", op.kind()), 1);
        if let Err(e) = r {
            mon.count("ops.returned_err", 1);
            // an operation that failed is not acknowledged; keep it as "may or may not have happened"
            let _ = e;
        }
        apply(&mut model, &op);
        rec.in_op.store(ops.len(), Ordering::Relaxed);
        // the directory right after the acknowledgement is a crash point too
        if !long || rng.chance(0.02) {
            rec.shots.lock().push(Shot { hook: "after_ack".into(), in_op: ops.len(), image: capture(&dir) });
        }
        for s in rec.shots.lock().drain(..) {
            pending.push((s, ops.len()));
        }
    }
    // clean restart: drop the manager, reopen the same directory
    drop(m);
    unregister(&dir);
    let final_img = capture(&dir);
    let pre = prefixes(&ops);
    {
        match recover(&final_img, "c06r").await {
            Ok((got, d, m2)) => {
                let j = judge(mon, "clean-restart", "close", &ops, &pre, base, ops.len(), ops.len(), &got, json!({"files": final_img.iter().map(|(n, b)| format!("{n}:{}", b.len())).collect::<Vec<_>>()}));
                // transaction ids never move backwards across the restart
                let before = max_txn(&final_img).max(txn_before);
                let _ = m2.upsert("txn-probe".into(), (0, "txn-probe".into())).await;
                let after_img = capture(&d);
                let appended: Vec<u64> = after_img
                    .iter()
                    .filter(|(n, _)| n == "state.wal")
                    .flat_map(|(_, b)| wal_records(b))
                    .filter_map(|(_, _, e)| e)
                    .filter(|e| e.key == "txn-probe")
                    .map(|e| e.transaction_id)
                    .collect();
                mon.eval();
                if let Some(t) = appended.last() {
                    if *t <= before && before > 0 {
                        let f = if j.is_none() || got.is_empty() { "after-recovering-nothing" } else { "after-full-recovery" };
                        mon.violation(&format!("txn/counter-moved-backwards-across-restart/{f}"), json!({"max_on_disk_before": before, "first_new": t}));
                    }
                }
                drop(m2);
                let _ = std::fs::remove_dir_all(&d);
            }
            Err(e) => mon.violation("clean-restart/recovery-failed-to-open", json!({"err": e})),
        }
    }
    // every recorded crash point
    let mut resume_candidates: Vec<(DirImage, Vec<Op>)> = Vec::new();
    let total = pending.len();
    for (idx, (shot, _)) in pending.into_iter().enumerate() {
        if mon.time_up() {
            break;
        }
        let floor = shot.in_op.max(synthetic.min(shot.in_op));
        match recover(&shot.image, "c06s").await {
            Ok((got, d, m2)) => {
                mon.count(&format!("crash_points.{}", shot.hook), 1);
                judge(mon, "crash", &shot.hook, &ops, &pre, base, shot.in_op, floor, &got, json!({"shot": idx, "of": total}));
                drop(m2);
                let _ = std::fs::remove_dir_all(&d);
            }
            Err(e) => mon.violation(&format!("crash/recovery-failed-to-open/{}", shot.hook), json!({"err": e})),
        }
        // byte truncations of the last log record (torn final write)
        if shot.hook == "wal.write_entry.after_body" && ((!long && idx % 5 == 0) || idx % 97 == 0) {
            if let Some((_, wal)) = shot.image.iter().find(|(n, _)| n == "state.wal") {
                let recs = wal_records(wal);
                if let Some((off, len)) = recs.last().map(|(o, l, _)| (*o, *l)) {
                    let cuts: Vec<usize> = if long { vec![off + 1, off + 4, off + len / 2, off + len - 1] } else { (off + 1..off + len).collect() };
                    for cut in cuts {
                        let mut img = shot.image.clone();
                        for (n, b) in img.iter_mut() {
                            if n == "state.wal" {
                                b.truncate(cut);
                            }
                        }
                        if let Ok((got, d, m2)) = recover(&img, "c06t").await {
                            mon.count("crash_points.truncated_last_record", 1);
                            // the record being written belongs to op `in_op`, which is not acknowledged: prefix in_op or in_op+1 partial → must be prefix in_op (record incomplete)
                            let class = if cut < off + 4 { "inside-length-prefix" } else { "inside-body" };
                            judge(mon, "torn-write", class, &ops, &pre, base, shot.in_op, floor, &got, json!({"cut": cut - off, "record_len": len}));
                            drop(m2);
                            // a torn image is also a good starting point for a crash-recover-continue cycle
                            if depth_left > 0 && resume_candidates.len() < 2 && rng.chance(0.05) {
                                resume_candidates.push((img, ops[..shot.in_op.min(ops.len())].to_vec()));
                            }
                            let _ = std::fs::remove_dir_all(&d);
                        }
                    }
                }
            }
        }
        if depth_left > 0 && resume_candidates.len() < 2 && rng.chance(if long { 0.002 } else { 0.02 }) {
            resume_candidates.push((shot.image, ops[..shot.in_op.min(ops.len())].to_vec()));
        }
    }
    let _ = std::fs::remove_dir_all(&dir);
    mon.count(if long { "histories.long" } else { "histories.short" }, 1);
    if mon.want_sample() && !long && ops.len() > 4 {
        mon.sample(json!({"ops": hist_tail(&ops, ops.len()), "crash_points_judged": total, "flush": format!("{flush:?}"), "resumed_from_crash_image": start_img.is_some()}));
    }
    // crash -> recover -> continue -> crash cycles
    for (img, inherited) in resume_candidates {
        mon.count("cycles.resumed_from_crash_image", 1);
        Box::pin(history(mon, rng, false, depth_left - 1, Some(img), inherited)).await;
    }
}

/// Targeted at the rotation threshold (1000 records per log file): the log is filled to just below
/// it with single-record operations, then batches / deletes / upserts straddle the boundary, then
/// the directory is recovered after a clean close and at every crash point around the rotation.
async fn rotation_boundary(mon: &Monitor, rng: &mut Rng) {
    let dir = scratch("c06b");
    let rec = register(&dir, false, 0);
    let Ok(m) = Mgr::new(config(&dir, FlushStrategy::Always)).await else {
        unregister(&dir);
        return;
    };
    let nkeys = rng.urange(3, 12);
    let prefill = 1000 - rng.urange(0, 8);
    let mut ops: Vec<Op> = Vec::new();
    let mut model = BTreeMap::new();
    let mut opid = rng.next_u64() >> 20;
    for _ in 0..prefill {
        opid += 1;
        let k = format!("k{}", rng.usize_below(nkeys));
        let op = Op::Upsert(k.clone(), (opid, k));
        rec.in_op.store(ops.len(), Ordering::Relaxed);
        let _ = run_op(&m, &op).await;
        apply(&mut model, &op);
        ops.push(op);
        rec.in_op.store(ops.len(), Ordering::Relaxed);
    }
    rec.shots.lock().clear();
    // now every hook is recorded: the operations that straddle the threshold
    let rec2 = register(&dir, true, 1_000_000);
    rec2.in_op.store(ops.len(), Ordering::Relaxed);
    let mut pending: Vec<Shot> = Vec::new();
    for _ in 0..rng.urange(2, 6) {
        opid += 1;
        let op = gen_op(rng, opid, nkeys, &model, false);
        let op = if rng.chance(0.6) {
            // force a batch of several records
            let mut ch: Vec<(String, Option<Val>)> = Vec::new();
            for j in 0..rng.urange(3, 6) {
                let k = format!("b{j}");
                ch.push((k.clone(), Some((opid * 100 + j as u64, k))));
            }
            Op::Batch(ch)
        } else {
            op
        };
        ops.push(op.clone());
        rec2.in_op.store(ops.len() - 1, Ordering::Relaxed);
        let _ = run_op(&m, &op).await;
        mon.count(&format!("ops.{}", op.kind()), 1);
        apply(&mut model, &op);
        rec2.in_op.store(ops.len(), Ordering::Relaxed);
        rec2.shots.lock().push(Shot { hook: "after_ack".into(), in_op: ops.len(), image: capture(&dir) });
        pending.extend(rec2.shots.lock().drain(..));
    }
    drop(m);
    unregister(&dir);
    let pre = prefixes(&ops);
    let final_img = capture(&dir);
    let rotated = final_img.iter().filter(|(n, _)| is_wal(n) && n != "state.wal").count();
    mon.count("boundary.histories", 1);
    mon.count("boundary.rotated_files", rotated as u64);
    if let Ok((got, d, m2)) = recover(&final_img, "c06br").await {
        judge(mon, "clean-restart", if rotated > 0 { "close-after-rotation" } else { "close" }, &ops, &pre, 0, ops.len(), ops.len(), &got, json!({"prefill": prefill, "files": final_img.iter().map(|(n, b)| format!("{n}:{}", b.len())).collect::<Vec<_>>()}));
        drop(m2);
        let _ = std::fs::remove_dir_all(&d);
    }
    for shot in pending {
        if mon.time_up() {
            break;
        }
        if let Ok((got, d, m2)) = recover(&shot.image, "c06bs").await {
            mon.count(&format!("crash_points.{}", shot.hook), 1);
            let hook = format!("{}@rotation-boundary", shot.hook);
            judge(mon, "crash", &hook, &ops, &pre, 0, shot.in_op, shot.in_op, &got, json!({"prefill": prefill}));
            drop(m2);
            let _ = std::fs::remove_dir_all(&d);
        }
    }
    let _ = std::fs::remove_dir_all(&dir);
}

/// Targeted at checkpoints taken while SEVERAL rotated logs exist (2-3 full log files since the last
/// checkpoint): every step of that checkpoint - in particular each removal of an obsolete log - is a
/// crash point, and what is left in the directory must still replay to a prefix.
async fn checkpoint_over_rotated_logs(mon: &Monitor, rng: &mut Rng) {
    let dir = scratch("c06c");
    let rec = register(&dir, false, 0);
    let Ok(m) = Mgr::new(config(&dir, FlushStrategy::Always)).await else {
        unregister(&dir);
        return;
    };
    let nkeys = rng.urange(4, 24);
    let files = rng.urange(2, 3);
    let prefill = 1000 * files + rng.urange(1, 60);
    let mut ops: Vec<Op> = Vec::new();
    let mut model = BTreeMap::new();
    let mut opid = rng.next_u64() >> 20;
    let mut records = 0usize;
    while records < prefill {
        opid += 1;
        let op = gen_op(rng, opid, nkeys, &model, false);
        records += match &op {
            Op::Batch(ch) => ch.len() + 1,
            _ => 1,
        };
        rec.in_op.store(ops.len(), Ordering::Relaxed);
        let _ = run_op(&m, &op).await;
        apply(&mut model, &op);
        ops.push(op);
        rec.in_op.store(ops.len(), Ordering::Relaxed);
    }
    rec.shots.lock().clear();
    let rotated_before = capture(&dir).iter().filter(|(n, _)| is_wal(n) && n != "state.wal").count();
    // now every hook is recorded: the checkpoint itself and a few operations after it
    let rec2 = register(&dir, true, 1_000_000);
    rec2.in_op.store(ops.len(), Ordering::Relaxed);
    let mut pending: Vec<Shot> = Vec::new();
    let tail = rng.urange(0, 4);
    for t in 0..=tail {
        opid += 1;
        let op = if t == 0 { Op::Checkpoint } else { gen_op(rng, opid, nkeys, &model, true) };
        ops.push(op.clone());
        rec2.in_op.store(ops.len() - 1, Ordering::Relaxed);
        let _ = run_op(&m, &op).await;
        mon.count(&format!("ops.{}", op.kind()), 1);
        apply(&mut model, &op);
        rec2.in_op.store(ops.len(), Ordering::Relaxed);
        rec2.shots.lock().push(Shot { hook: "after_ack".into(), in_op: ops.len(), image: capture(&dir) });
        pending.extend(rec2.shots.lock().drain(..));
    }
    drop(m);
    unregister(&dir);
    let pre = prefixes(&ops);
    let final_img = capture(&dir);
    mon.count("multilog.histories", 1);
    mon.count(&format!("multilog.rotated_files_at_checkpoint.{rotated_before}"), 1);
    if let Ok((got, d, m2)) = recover(&final_img, "c06cr").await {
        judge(mon, "clean-restart", "close-after-checkpoint-over-rotated-logs", &ops, &pre, 0, ops.len(), ops.len(), &got, json!({"rotated_before": rotated_before, "files": final_img.iter().map(|(n, b)| format!("{n}:{}", b.len())).collect::<Vec<_>>()}));
        drop(m2);
        let _ = std::fs::remove_dir_all(&d);
    }
    let mut nth: std::collections::HashMap<String, usize> = std::collections::HashMap::new();
    for shot in pending {
        if mon.time_up() {
            break;
        }
        let k = nth.entry(shot.hook.clone()).or_insert(0);
        let occurrence = *k;
        *k += 1;
        if let Ok((got, d, m2)) = recover(&shot.image, "c06cs").await {
            mon.count(&format!("crash_points.{}", shot.hook), 1);
            let hook = format!("{}@rotated-logs>=2", shot.hook);
            let left: Vec<String> = shot.image.iter().filter(|(n, _)| is_wal(n)).map(|(n, b)| format!("{n}:{}", b.len())).collect();
            judge(mon, "crash", &hook, &ops, &pre, 0, shot.in_op, shot.in_op, &got, json!({"rotated_before": rotated_before, "occurrence_of_hook": occurrence, "logs_left": left}));
            drop(m2);
            let _ = std::fs::remove_dir_all(&d);
        }
    }
    let _ = std::fs::remove_dir_all(&dir);
}

fn main() {
    let mon = Monitor::new("C06", "fault_enumeration");
    // supplementary sanitizer lanes (thorough tier): built and run alongside the behavioural workload, joined before the verdict
    let lanes = checks::lanes::start(&mon, &[("miri", "pstate", "0..4")]);
    mon.set_rule("case = one (operation history, crash point[, truncation of the last log record]) recovery by a fresh manager; non-trivial when >=1 operation was acknowledged before the point; distinct by (judgement kind, hook name / truncation class, op kinds in the history)");
    mon.assume("process-death model: the directory as it is at an instrumented instant, plus torn last records; no fsync/power-loss ordering is observable here");
    mon.assume("std::fs::File is unbuffered, so every flush policy leaves the same bytes at process death; all are judged as flush-always");
    install_callback();
    let short_per_shard = mon.by_tier(60u64, 4000);
    let long_per_shard = mon.by_tier(0u64, 20);
    vkit::run_shards(mon.shards(), mon.seed, |i, mut rng| {
        let rt = tokio::runtime::Builder::new_current_thread().enable_all().build().expect("rt");
        rt.block_on(async {
            // long histories force rotation (1000 entries per log file); half of the shards
            // start with them so that they are not starved by the short ones
            // targeted: operations straddling the 1000-record rotation threshold
            for _ in 0..mon.by_tier(4, 60) {
                if mon.spent(0.3) {
                    break;
                }
                rotation_boundary(&mon, &mut rng).await;
            }
            // targeted: a checkpoint taken over 2-3 rotated logs, every step a crash point
            for _ in 0..mon.by_tier(1, 12) {
                if mon.spent(0.45) {
                    break;
                }
                checkpoint_over_rotated_logs(&mon, &mut rng).await;
            }
            let longs = if mon.quick() { if i < 2 { 1 } else { 0 } } else { long_per_shard };
            let longs_first = i % 2 == 0;
            if longs_first {
                for _ in 0..longs {
                    if mon.spent(0.6) {
                        break;
                    }
                    history(&mon, &mut rng, true, 1, None, Vec::new()).await;
                }
            }
            for _ in 0..short_per_shard {
                if mon.spent(if longs_first { 0.95 } else { 0.5 }) {
                    break;
                }
                history(&mon, &mut rng, false, 2, None, Vec::new()).await;
            }
            if !longs_first {
                for _ in 0..longs {
                    if mon.time_up() {
                        break;
                    }
                    history(&mon, &mut rng, true, 1, None, Vec::new()).await;
                }
            }
        });
    });
    scratch_cleanup();
    // supplementary sanitizer lane (thorough): open/upsert/batch/checkpoint/reopen under Miri
    checks::lanes::join(&mon, lanes);
    mon.finish();
}
