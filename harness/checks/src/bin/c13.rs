//! C13 — per-subnet and per-ASN admission caps are never exceeded; slots are returned.
//!
//! Oracle: a reference counter per level (IPv6 /64,/48,/32; IPv4 address,/24,/16; ASN)
//! driven only by the admissions/removals the code acknowledged. For every attempt the
//! expected decision is "every level of the candidate is below cap(candidate)"; after every
//! step `get_diversity_stats()` must equal the reference. Three lanes:
//!   (a) `IPDiversityEnforcer` directly (seeded GeoProvider, many configurations),
//!   (b) `DhtCoreEngine::add_node / evict_node / handle_node_failure` (default config),
//!   (c) `BootstrapManager::add_peer` (IPv4 and IPv6 peers).

use checks::keys::*;
use saorsa_core::address::NetworkAddress;
use saorsa_core::bootstrap::{BootstrapConfig, BootstrapManager};
use saorsa_core::dht::core_engine::{DhtCoreEngine, NodeCapacity, NodeId, NodeInfo};
use saorsa_core::dht::geographic_routing::GeographicRegion;
use saorsa_core::dht::routing_maintenance::EvictionReason;
use saorsa_core::rate_limit::JoinRateLimiterConfig;
use saorsa_core::security::{
    DiversityStats, GeoInfo, GeoProvider, IPDiversityConfig, IPDiversityEnforcer, UnifiedIPAnalysis,
};
use serde_json::{json, Value};
use std::collections::HashMap;
use std::net::{IpAddr, Ipv4Addr, Ipv6Addr, SocketAddr};
use std::sync::Arc;
use std::time::SystemTime;
use vkit::{hex8, Monitor, Rng};

// ---------------------------------------------------------------------------------------
// reference model (restates the property, nothing else)
// ---------------------------------------------------------------------------------------

#[derive(Clone, Copy, PartialEq, Eq, Hash, Debug, PartialOrd, Ord)]
enum Level {
    S64,
    S48,
    S32,
    Ip4,
    S24,
    S16,
    Asn,
}

impl Level {
    fn name(self) -> &'static str {
        match self {
            Level::S64 => "v6-64",
            Level::S48 => "v6-48",
            Level::S32 => "v6-32",
            Level::Ip4 => "v4-ip",
            Level::S24 => "v4-24",
            Level::S16 => "v4-16",
            Level::Asn => "asn",
        }
    }
}

/// what the property calls "the candidate": an address with its ASN / hosting attributes
#[derive(Clone, Debug)]
struct Cand {
    ip: IpAddr,
    asn: Option<u32>,
    country: Option<String>,
    hosting: bool,
    vpn: bool,
    /// attributes were written into the analysis by the workload (IPv4 only; the crate's
    /// own IPv4 analysis never fills them in)
    injected: bool,
}

impl Cand {
    fn plain(ip: IpAddr) -> Self {
        Cand { ip, asn: None, country: None, hosting: false, vpn: false, injected: false }
    }
    fn fam(&self) -> &'static str {
        if self.ip.is_ipv4() {
            "ipv4"
        } else {
            "ipv6"
        }
    }
    fn strict(&self) -> bool {
        self.hosting || self.vpn
    }
    fn levels(&self) -> Vec<(Level, u128)> {
        let mut v = Vec::with_capacity(4);
        match self.ip {
            IpAddr::V6(a) => {
                let x = u128::from(a);
                v.push((Level::S64, x & !((1u128 << 64) - 1)));
                v.push((Level::S48, x & !((1u128 << 80) - 1)));
                v.push((Level::S32, x & !((1u128 << 96) - 1)));
            }
            IpAddr::V4(a) => {
                let x = u32::from(a);
                v.push((Level::Ip4, x as u128));
                v.push((Level::S24, (x & 0xffff_ff00) as u128));
                v.push((Level::S16, (x & 0xffff_0000) as u128));
            }
        }
        if let Some(asn) = self.asn {
            v.push((Level::Asn, asn as u128));
        }
        v
    }
    fn brief(&self) -> String {
        format!(
            "{}{}{}{}",
            self.ip,
            self.asn.map(|a| format!(" AS{a}")).unwrap_or_default(),
            if self.hosting { " hosting" } else { "" },
            if self.vpn { " vpn" } else { "" }
        )
    }
}

struct RefModel {
    cfg: IPDiversityConfig,
    size: usize,
    counts: HashMap<(Level, u128), usize>,
    countries: HashMap<String, usize>,
}

impl RefModel {
    fn new(cfg: IPDiversityConfig) -> Self {
        RefModel { cfg, size: 0, counts: HashMap::new(), countries: HashMap::new() }
    }
    /// per-IPv4-address limit = min(cap, max(1, floor(size * fraction))); the flag says the
    /// product is so close to an integer that floating point decides it (undecidable)
    fn per_ip(&self) -> (usize, bool) {
        // exact arithmetic on the configured fraction (an f64 is m * 2^e exactly)
        let fr = self.cfg.max_network_fraction;
        let bits = fr.to_bits();
        let exp = ((bits >> 52) & 0x7ff) as i32;
        let (fl, near): (u128, bool) = if !(fr.is_finite() && fr > 0.0) || exp == 0 {
            (0, false)
        } else {
            let m = (bits & ((1u64 << 52) - 1)) | (1u64 << 52);
            let e = exp - 1075;
            let prod = self.size as u128 * m as u128;
            if e >= 0 {
                (prod.checked_shl(e as u32).unwrap_or(u128::MAX), false)
            } else if -e >= 127 {
                (0, false)
            } else {
                let k = (-e) as u32;
                let r = prod & ((1u128 << k) - 1);
                let frac = r as f64 / (1u128 << k) as f64;
                (prod >> k, r != 0 && frac > 1.0 - 1e-6)
            }
        };
        let f = |x: u128| std::cmp::min(self.cfg.max_per_ip_cap, std::cmp::max(1, usize::try_from(x).unwrap_or(usize::MAX)));
        // just below an integer: one rounding step of the f64 product decides; undecidable
        (f(fl), near && f(fl) != f(fl.saturating_add(1)))
    }
    /// cap of `level` for candidate `c`; None = undecidable (floating point boundary)
    fn cap(&self, level: Level, c: &Cand) -> Option<usize> {
        let base = match level {
            Level::S64 => self.cfg.max_nodes_per_64,
            Level::S48 => self.cfg.max_nodes_per_48,
            Level::S32 => self.cfg.max_nodes_per_32,
            Level::Asn => self.cfg.max_nodes_per_asn,
            Level::Ip4 | Level::S24 | Level::S16 => {
                let (l, amb) = self.per_ip();
                if amb {
                    return None;
                }
                match level {
                    Level::Ip4 => l,
                    Level::S24 => std::cmp::min(self.cfg.max_nodes_per_ipv4_24, l.saturating_mul(3)),
                    _ => std::cmp::min(self.cfg.max_nodes_per_ipv4_16, l.saturating_mul(10)),
                }
            }
        };
        Some(if c.strict() { std::cmp::max(1, base / 2) } else { base })
    }
    fn count(&self, k: &(Level, u128)) -> usize {
        self.counts.get(k).copied().unwrap_or(0)
    }
    /// (level, count, cap) for each level of the candidate; None if a cap is undecidable
    fn view(&self, c: &Cand) -> Option<Vec<(Level, usize, usize)>> {
        let mut out = Vec::new();
        for k in c.levels() {
            out.push((k.0, self.count(&k), self.cap(k.0, c)?));
        }
        Some(out)
    }
    fn add(&mut self, c: &Cand) {
        for k in c.levels() {
            *self.counts.entry(k).or_insert(0) += 1;
        }
        if let Some(cc) = &c.country {
            *self.countries.entry(cc.clone()).or_insert(0) += 1;
        }
    }
    fn remove(&mut self, c: &Cand) {
        for k in c.levels() {
            if let Some(v) = self.counts.get_mut(&k) {
                *v -= 1;
                if *v == 0 {
                    self.counts.remove(&k);
                }
            }
        }
        if let Some(cc) = &c.country {
            if let Some(v) = self.countries.get_mut(cc) {
                *v -= 1;
                if *v == 0 {
                    self.countries.remove(cc);
                }
            }
        }
    }
    fn stats(&self) -> [usize; 14] {
        let mut tot = [0usize; 7];
        let mut max = [0usize; 7];
        for ((l, _), v) in &self.counts {
            let i = *l as usize;
            tot[i] += 1;
            max[i] = max[i].max(*v);
        }
        [
            tot[0], tot[1], tot[2], max[0], max[1], max[2], tot[3], tot[4], tot[5], max[3], max[4], max[5],
            tot[6],
            self.countries.len(),
        ]
    }
}

const STAT_NAMES: [&str; 14] = [
    "total_64_subnets",
    "total_48_subnets",
    "total_32_subnets",
    "max_nodes_per_64",
    "max_nodes_per_48",
    "max_nodes_per_32",
    "total_ipv4_32",
    "total_ipv4_24_subnets",
    "total_ipv4_16_subnets",
    "max_nodes_per_ipv4_32",
    "max_nodes_per_ipv4_24",
    "max_nodes_per_ipv4_16",
    "total_asns",
    "total_countries",
];

fn stats_arr(s: &DiversityStats) -> [usize; 14] {
    [
        s.total_64_subnets,
        s.total_48_subnets,
        s.total_32_subnets,
        s.max_nodes_per_64,
        s.max_nodes_per_48,
        s.max_nodes_per_32,
        s.total_ipv4_32,
        s.total_ipv4_24_subnets,
        s.total_ipv4_16_subnets,
        s.max_nodes_per_ipv4_32,
        s.max_nodes_per_ipv4_24,
        s.max_nodes_per_ipv4_16,
        s.total_asns,
        s.total_countries,
    ]
}

fn first_diff(a: &[usize; 14], b: &[usize; 14]) -> Option<usize> {
    (0..14).find(|i| a[*i] != b[*i])
}

fn cfg_json(c: &IPDiversityConfig) -> Value {
    let f = |x: usize| if x == usize::MAX { json!("MAX") } else { json!(x) };
    json!({"v6_64": f(c.max_nodes_per_64), "v6_48": f(c.max_nodes_per_48), "v6_32": f(c.max_nodes_per_32),
           "v4_24": f(c.max_nodes_per_ipv4_24), "v4_16": f(c.max_nodes_per_ipv4_16),
           "per_ip_cap": f(c.max_per_ip_cap), "fraction": c.max_network_fraction, "asn": f(c.max_nodes_per_asn)})
}

fn view_json(v: &[(Level, usize, usize)]) -> Value {
    json!(v.iter().map(|(l, n, c)| format!("{}:{}/{}", l.name(), n, if *c == usize::MAX { "MAX".to_string() } else { c.to_string() })).collect::<Vec<_>>())
}

/// at most `max` written-out samples per lane/kind (no randomness consumed: the seeded streams must
/// not depend on cross-thread state)
fn take_sample(mon: &Monitor, key: &str, max: u64) -> bool {
    let k = format!("samples.{key}");
    if mon.want_sample() && mon.counter(&k) < max {
        mon.count(&k, 1);
        true
    } else {
        false
    }
}

fn tail(h: &[String], n: usize) -> Vec<String> {
    h.iter().rev().take(n).rev().cloned().collect()
}

/// the one judgement of an admission decision. `observed` = the code admitted.
/// Returns the expected decision (None if undecidable).
#[allow(clippy::too_many_arguments)]
fn judge_decision(
    mon: &Monitor,
    lane: &str,
    api: &str,
    extra: &str,
    m: &RefModel,
    c: &Cand,
    observed: bool,
    hist: &[String],
) -> Option<bool> {
    let Some(view) = m.view(c) else {
        mon.count("skipped.fraction-boundary", 1);
        return None;
    };
    mon.eval();
    let mut mask = 0u32;
    for (i, (_, n, cap)) in view.iter().enumerate() {
        if n >= cap {
            mask |= 1 << i;
        }
    }
    if view.iter().any(|(_, n, _)| *n >= 1) {
        mon.case((lane.to_string(), api.to_string(), c.fam(), mask, c.strict(), observed));
    }
    let expected = mask == 0;
    if observed == expected {
        return Some(expected);
    }
    let kind = if c.strict() { "hosting" } else { "plain" };
    let inj = if c.injected { "/attrs=injected" } else { "" };
    let sig = if observed {
        // admitted although a level is at its cap
        let lvl = view.iter().find(|(_, n, cap)| n >= cap).map(|x| x.0.name()).unwrap_or("?");
        let extra = if extra.starts_with("/address=") { extra } else { "" };
        format!("{lane}/admitted-at-cap/{}/level={lvl}/{kind}{inj}{extra}", c.fam())
    } else {
        // refused although every level is below its cap
        let near = view.iter().min_by_key(|(_, n, cap)| cap - n).map(|x| x.0.name()).unwrap_or("?");
        format!("{lane}/refused-below-caps/{}/nearest={near}/{kind}{inj}{extra}", c.fam())
    };
    mon.violation(
        &sig,
        json!({"api": api, "candidate": c.brief(), "levels(count/cap)": view_json(&view), "network_size": m.size,
               "config": cfg_json(&m.cfg), "observed": if observed {"admitted"} else {"refused"},
               "history_tail": tail(hist, 14)}),
    );
    Some(expected)
}

// ---------------------------------------------------------------------------------------
// seeded geo provider and address universe
// ---------------------------------------------------------------------------------------

#[derive(Debug)]
struct SeededGeo {
    by48: HashMap<u128, GeoInfo>,
    by_addr: HashMap<Ipv6Addr, GeoInfo>,
}

fn none_info() -> GeoInfo {
    GeoInfo { asn: None, country: None, is_hosting_provider: false, is_vpn_provider: false }
}

impl SeededGeo {
    fn info(&self, ip: Ipv6Addr) -> GeoInfo {
        if let Some(i) = self.by_addr.get(&ip) {
            return i.clone();
        }
        let p = u128::from(ip) & !((1u128 << 80) - 1);
        self.by48.get(&p).cloned().unwrap_or_else(none_info)
    }
}

impl GeoProvider for SeededGeo {
    fn lookup(&self, ip: Ipv6Addr) -> GeoInfo {
        self.info(ip)
    }
}

struct Universe {
    v6_64: Vec<u128>,
    v6_special: Vec<Ipv6Addr>,
    v4_hosts: Vec<Ipv4Addr>,
    v4_24: Vec<u32>,
    /// IPv4 attributes by /16 (only used when the scenario injects them)
    v4_attr: HashMap<u32, GeoInfo>,
}

fn rand_info(rng: &mut Rng, asns: &[u32]) -> GeoInfo {
    let countries = ["GB", "DE", "US", "JP"];
    GeoInfo {
        asn: if rng.chance(0.8) { Some(*rng.pick(asns)) } else { None },
        country: if rng.chance(0.6) { Some(rng.pick(&countries).to_string()) } else { None },
        is_hosting_provider: rng.chance(0.3),
        is_vpn_provider: rng.chance(0.12),
    }
}

/// `allow_low_v6` = may generate ::/32 style addresses (::1, v4-mapped)
fn universe(rng: &mut Rng, allow_low_v6: bool, v4_first: &[u8]) -> (Universe, SeededGeo) {
    let asns: Vec<u32> = (0..rng.urange(1, 4)).map(|_| rng.range(64500, 64520) as u32).collect();
    let mut by48 = HashMap::new();
    let mut by_addr = HashMap::new();
    let mut v6_64 = Vec::new();
    for _ in 0..rng.urange(1, 4) {
        let p32 = (0x2000u128 + rng.below(0x1000) as u128) << 112 | (rng.below(0x10000) as u128) << 96;
        for _ in 0..rng.urange(1, 4) {
            let p48 = p32 | (rng.below(0x10000) as u128) << 80;
            by48.insert(p48, rand_info(rng, &asns));
            for _ in 0..rng.urange(1, 5) {
                v6_64.push(p48 | (rng.below(0x10000) as u128) << 64);
            }
        }
    }
    let mut v6_special = Vec::new();
    if allow_low_v6 {
        v6_special.push(Ipv6Addr::LOCALHOST);
        v6_special.push(Ipv4Addr::new(10, 1, 2, rng.below(4) as u8).to_ipv6_mapped());
        v6_special.push(Ipv4Addr::new(200, 9, 9, 9).to_ipv6_mapped());
    }
    v6_special.push(Ipv6Addr::from((0xfe80u128 << 112) | rng.below(3) as u128));
    for _ in 0..3 {
        // concrete addresses whose attributes differ from their /48
        let a = Ipv6Addr::from(*rng.pick(&v6_64) | rng.below(4) as u128);
        by_addr.insert(a, rand_info(rng, &asns));
        v6_special.push(a);
    }
    let mut v4_24 = Vec::new();
    let mut v4_hosts = Vec::new();
    let mut v4_attr = HashMap::new();
    for _ in 0..rng.urange(1, 4) {
        let p16 = (*rng.pick(v4_first) as u32) << 24 | (rng.below(256) as u32) << 16;
        v4_attr.insert(p16, rand_info(rng, &asns));
        for _ in 0..rng.urange(1, 4) {
            let p24 = p16 | (rng.below(256) as u32) << 8;
            v4_24.push(p24);
            for _ in 0..rng.urange(1, 5) {
                v4_hosts.push(Ipv4Addr::from(p24 | rng.below(256) as u32));
            }
        }
    }
    (Universe { v6_64, v6_special, v4_hosts, v4_24, v4_attr }, SeededGeo { by48, by_addr })
}

impl Universe {
    fn v6(&self, rng: &mut Rng) -> Ipv6Addr {
        match rng.weighted(&[80, 12, 8]) {
            0 => {
                let host = if rng.chance(0.5) { rng.below(4) as u128 } else { rng.next_u64() as u128 };
                Ipv6Addr::from(*rng.pick(&self.v6_64) | host)
            }
            1 => *rng.pick(&self.v6_special),
            _ => Ipv6Addr::from(((0x2000u128 + rng.below(0x1000) as u128) << 112) | (rng.next_u64() as u128) << 48 | rng.next_u64() as u128),
        }
    }
    fn v4(&self, rng: &mut Rng) -> Ipv4Addr {
        match rng.weighted(&[55, 35, 10]) {
            0 => *rng.pick(&self.v4_hosts),
            1 => Ipv4Addr::from(*rng.pick(&self.v4_24) | rng.below(256) as u32),
            _ => {
                // same /16 as a pool entry, another /24
                let p = *rng.pick(&self.v4_24) & 0xffff_0000;
                Ipv4Addr::from(p | rng.below(65536) as u32)
            }
        }
    }
}

fn small_cfg(rng: &mut Rng) -> IPDiversityConfig {
    let fr = [0.005, 0.01, 0.1, 0.25, 0.3, 0.29, 0.5, 1.0];
    IPDiversityConfig {
        max_nodes_per_64: rng.urange(1, 6),
        max_nodes_per_48: rng.urange(1, 8),
        max_nodes_per_32: rng.urange(1, 12),
        max_nodes_per_ipv4_32: rng.urange(1, 6),
        max_nodes_per_ipv4_24: rng.urange(1, 9),
        max_nodes_per_ipv4_16: rng.urange(1, 14),
        max_per_ip_cap: rng.urange(1, 7),
        max_network_fraction: *rng.pick(&fr),
        max_nodes_per_asn: rng.urange(1, 9),
        enable_geolocation_check: rng.chance(0.5),
        min_geographic_diversity: rng.urange(0, 3),
    }
}

fn pick_size(rng: &mut Rng) -> usize {
    match rng.below(8) {
        0 => 0,
        1 => rng.urange(1, 12),
        2 => rng.urange(190, 210),
        3 => rng.urange(380, 1300),
        4 => rng.urange(5_000, 20_000),
        5 => 1usize << rng.urange(20, 40),
        _ => rng.urange(0, 60),
    }
}

// ---------------------------------------------------------------------------------------
// lane (a): the enforcer itself
// ---------------------------------------------------------------------------------------

fn lane_enforcer(mon: &Monitor, rng: &mut Rng, idx: u64) {
    let cfg_kind = rng.weighted(&[22, 14, 8, 56]);
    let (cfg, cfg_name) = match cfg_kind {
        0 => (IPDiversityConfig::default(), "default"),
        1 => (IPDiversityConfig::testnet(), "testnet"),
        2 => (IPDiversityConfig::permissive(), "permissive"),
        _ => (small_cfg(rng), "random-small"),
    };
    mon.count(&format!("enforcer.scenarios.{cfg_name}"), 1);
    let (mut uni, geo) = universe(rng, true, &[10, 81, 130, 172, 200]);
    if cfg_name == "testnet" {
        // caps of 100+: concentrate everything so that they are actually reached
        uni.v6_64.truncate(2);
        uni.v4_hosts.truncate(2);
        uni.v4_24.truncate(1);
    }
    let geo = Arc::new(geo);
    let inject_v4 = rng.chance(0.3);
    let mut enf = IPDiversityEnforcer::with_geo_provider(cfg.clone(), geo.clone());
    let mut m = RefModel::new(cfg.clone());
    let mut admitted: Vec<(Cand, UnifiedIPAnalysis)> = Vec::new();
    let mut hist: Vec<String> = Vec::new();
    let nops = if cfg_name == "testnet" { rng.urange(250, 700) } else { rng.urange(30, mon.by_tier(260, 420)) };
    let remove_w = *rng.pick(&[5u32, 20, 35]);
    let lane = "enforcer";

    for step in 0..nops {
        let op = rng.weighted(&[60, 8, remove_w, 5]);
        let mut after = "add";
        match op {
            0 | 1 => {
                // candidate
                let ip: IpAddr = if rng.chance(0.5) { IpAddr::V6(uni.v6(rng)) } else { IpAddr::V4(uni.v4(rng)) };
                let mut analysis = match enf.analyze_unified(ip) {
                    Ok(a) => a,
                    Err(e) => {
                        mon.violation("enforcer/analyze-error", json!({"ip": ip.to_string(), "err": e.to_string()}));
                        continue;
                    }
                };
                let cand = match (&mut analysis, ip) {
                    (UnifiedIPAnalysis::IPv6(a), IpAddr::V6(v6)) => {
                        let gi = geo.info(v6);
                        // the analysis must describe the address it was asked about
                        mon.eval();
                        let x = u128::from(v6);
                        let ok = u128::from(a.subnet_64) == x & !((1u128 << 64) - 1)
                            && u128::from(a.subnet_48) == x & !((1u128 << 80) - 1)
                            && u128::from(a.subnet_32) == x & !((1u128 << 96) - 1)
                            && a.asn == gi.asn
                            && a.country == gi.country
                            && a.is_hosting_provider == gi.is_hosting_provider
                            && a.is_vpn_provider == gi.is_vpn_provider;
                        if !ok {
                            mon.violation("enforcer/analysis-wrong/ipv6", json!({"ip": v6.to_string(), "analysis": format!("{a:?}")}));
                        }
                        Cand { ip, asn: gi.asn, country: gi.country, hosting: gi.is_hosting_provider, vpn: gi.is_vpn_provider, injected: false }
                    }
                    (UnifiedIPAnalysis::IPv4(a), IpAddr::V4(v4)) => {
                        mon.eval();
                        let x = u32::from(v4);
                        if a.ip_addr != v4 || u32::from(a.subnet_24) != x & 0xffff_ff00 || u32::from(a.subnet_16) != x & 0xffff_0000 {
                            mon.violation("enforcer/analysis-wrong/ipv4", json!({"ip": v4.to_string(), "analysis": format!("{a:?}")}));
                        }
                        if inject_v4 {
                            let gi = uni.v4_attr.get(&(x & 0xffff_0000)).cloned().unwrap_or_else(none_info);
                            a.asn = gi.asn;
                            a.country = gi.country.clone();
                            a.is_hosting_provider = gi.is_hosting_provider;
                            a.is_vpn_provider = gi.is_vpn_provider;
                            Cand { ip, asn: gi.asn, country: gi.country, hosting: gi.is_hosting_provider, vpn: gi.is_vpn_provider, injected: true }
                        } else {
                            Cand { ip, asn: a.asn, country: a.country.clone(), hosting: a.is_hosting_provider, vpn: a.is_vpn_provider, injected: false }
                        }
                    }
                    _ => {
                        mon.violation("enforcer/analysis-wrong/family", json!({"ip": ip.to_string()}));
                        continue;
                    }
                };
                let v6_api = matches!(analysis, UnifiedIPAnalysis::IPv6(_)) && rng.chance(0.4);
                if op == 1 || rng.chance(0.5) {
                    // read-only question
                    let got = match (&analysis, v6_api) {
                        (UnifiedIPAnalysis::IPv6(a), true) => enf.can_accept_node(a),
                        _ => enf.can_accept_unified(&analysis),
                    };
                    mon.count("enforcer.ops.probe", 1);
                    judge_decision(mon, lane, if v6_api { "can_accept_node" } else { "can_accept_unified" }, "", &m, &cand, got, &hist);
                    // a question must not change anything
                    if op == 1 {
                        hist.push(format!("probe {} -> {}", cand.brief(), got));
                        after = "probe";
                    }
                }
                if op == 0 {
                    let before = stats_arr(&enf.get_diversity_stats());
                    let r = match (&analysis, v6_api) {
                        (UnifiedIPAnalysis::IPv6(a), true) => enf.add_node(a),
                        _ => enf.add_unified(&analysis),
                    };
                    let ok = r.is_ok();
                    mon.count(if ok { "enforcer.ops.add.ok" } else { "enforcer.ops.add.refused" }, 1);
                    let view = m.view(&cand);
                    judge_decision(mon, lane, if v6_api { "add_node" } else { "add_unified" }, "", &m, &cand, ok, &hist);
                    hist.push(format!("add {} -> {}", cand.brief(), if ok { "ok" } else { "refused" }));
                    if ok {
                        m.add(&cand);
                        if idx % 7 == 0 && step > 12 && view.as_ref().map(|v| v.iter().any(|x| x.1 >= 1)).unwrap_or(false) && take_sample(mon, "enforcer.admitted", 1) {
                            mon.sample(json!({"lane": lane, "config": cfg_json(&cfg), "network_size": m.size, "step": "add -> admitted",
                                "candidate": cand.brief(), "levels(count/cap) before": view.as_ref().map(|v| view_json(v)),
                                "history_tail": tail(&hist, 8)}));
                        }
                        admitted.push((cand, analysis));
                    } else {
                        // a refused admission consumes nothing
                        mon.eval();
                        let now = stats_arr(&enf.get_diversity_stats());
                        if let Some(i) = first_diff(&before, &now) {
                            mon.violation(
                                &format!("enforcer/refused-admission-changed-counters/{}", cand.fam()),
                                json!({"field": STAT_NAMES[i], "before": before[i], "after": now[i], "candidate": cand.brief(), "history_tail": tail(&hist, 12)}),
                            );
                        }
                        after = "refused-add";
                        if idx % 5 == 1 && step > 20 && take_sample(mon, "enforcer.refused", 1) {
                            mon.sample(json!({"lane": lane, "config": cfg_json(&cfg), "network_size": m.size, "step": "add -> refused, counters unchanged",
                                "candidate": cand.brief(), "levels(count/cap) before": view.as_ref().map(|v| view_json(v)),
                                "history_tail": tail(&hist, 8)}));
                        }
                    }
                }
            }
            2 => {
                if admitted.is_empty() {
                    continue;
                }
                let i = rng.usize_below(admitted.len());
                let (cand, analysis) = admitted.swap_remove(i);
                match &analysis {
                    UnifiedIPAnalysis::IPv6(a) if rng.chance(0.4) => enf.remove_node(a),
                    _ => enf.remove_unified(&analysis),
                }
                m.remove(&cand);
                mon.count("enforcer.ops.remove", 1);
                hist.push(format!("remove {}", cand.brief()));
                after = "remove";
                // the slot is given back: asking for the same candidate again is judged like any attempt
                let got = enf.can_accept_unified(&analysis);
                judge_decision(mon, lane, "can_accept_unified", "/after-remove", &m, &cand, got, &hist);
            }
            _ => {
                let s = pick_size(rng);
                enf.set_network_size(s);
                m.size = s;
                mon.count("enforcer.ops.set_network_size", 1);
                hist.push(format!("set_network_size {s}"));
                after = "set-size";
                mon.eval();
                if m.per_ip().1 {
                    mon.count("skipped.fraction-boundary", 1);
                } else if enf.get_per_ip_limit() != m.per_ip().0 {
                    mon.violation("enforcer/per-ip-limit-rule", json!({"size": s, "config": cfg_json(&cfg), "got": enf.get_per_ip_limit(), "expected": m.per_ip().0}));
                }
            }
        }
        // the published statistics equal the reference after every step
        mon.eval();
        let got = stats_arr(&enf.get_diversity_stats());
        let want = m.stats();
        if let Some(i) = first_diff(&got, &want) {
            mon.violation(
                &format!("enforcer/stats-mismatch/after={after}/{}", STAT_NAMES[i]),
                json!({"field": STAT_NAMES[i], "got": got[i], "reference": want[i], "config": cfg_json(&cfg), "history_tail": tail(&hist, 14)}),
            );
            return; // no longer comparable
        }
    }
    mon.count("enforcer.admitted_at_end", admitted.len() as u64);
}

// ---------------------------------------------------------------------------------------
// lane (b): the routing-table admission pipeline
// ---------------------------------------------------------------------------------------

#[derive(Clone, Copy, PartialEq, Debug)]
enum EKind {
    Evict,
    Failure,
    BucketFull,
    RegionV4,
    RegionV6,
    DisplayAddr,
    Mixed,
}

struct ENode {
    id: [u8; 32],
    cand: Cand,
}

struct EWorld {
    local: [u8; 32],
    eng: DhtCoreEngine,
    m: RefModel,
    table: Vec<ENode>,
    removed: Vec<Cand>,
    /// nodes whose admission passed the gates but was refused by a full bucket: (id, ip, bucket)
    refused: Vec<([u8; 32], IpAddr, usize)>,
    hist: Vec<String>,
}

impl EWorld {
    fn occupancy(&self, b: usize) -> usize {
        self.table.iter().filter(|n| bucket_of(&self.local, &n.id) == Some(b)).count()
    }
    fn free_bucket(&self, rng: &mut Rng) -> usize {
        for _ in 0..64 {
            let b = rng.urange(0, 60);
            if self.occupancy(b) < 7 {
                return b;
            }
        }
        rng.urange(61, 120)
    }
    async fn stats(&self) -> [usize; 14] {
        let e = self.eng.verif_ip_diversity_enforcer();
        let g = e.read().await;
        stats_arr(&g.get_diversity_stats())
    }
    async fn probe(&self, ip: IpAddr) -> Option<bool> {
        let e = self.eng.verif_ip_diversity_enforcer();
        let g = e.read().await;
        g.analyze_unified(ip).ok().map(|a| g.can_accept_unified(&a))
    }
    /// give a slot back the way `IPDiversityEnforcer::remove_unified` does (used only after a
    /// leak has been reported, so that the rest of the scenario stays comparable)
    async fn repair(&self, ip: IpAddr) {
        let e = self.eng.verif_ip_diversity_enforcer();
        let mut g = e.write().await;
        if let Ok(a) = g.analyze_unified(ip) {
            g.remove_unified(&a);
        }
    }
    async fn region_count(&self, ip: IpAddr) -> usize {
        let name = format!("{:?}", GeographicRegion::from_ip(ip));
        self.eng.verif_region_counts().await.into_iter().find(|(r, _)| *r == name).map(|x| x.1).unwrap_or(0)
    }
}

enum AddOutcome {
    Continue,
    Abort,
}

/// one `add_node` through the engine, fully judged
async fn engine_add(mon: &Monitor, w: &mut EWorld, rng: &mut Rng, ip: IpAddr, bucket: usize, display_form: bool, kind: EKind) -> AddOutcome {
    engine_add_id(mon, w, rng, ip, bucket, display_form, kind, None).await
}

/// like `engine_add`, optionally for a given node id (a peer that announces itself again)
#[allow(clippy::too_many_arguments)]
async fn engine_add_id(mon: &Monitor, w: &mut EWorld, rng: &mut Rng, ip: IpAddr, bucket: usize, display_form: bool, kind: EKind, fixed: Option<[u8; 32]>) -> AddOutcome {
    let lane = "engine";
    let id = fixed.unwrap_or_else(|| id_in_bucket(&w.local, bucket, rng));
    let port = rng.urange(1024, 65000) as u16;
    let address = if display_form {
        // the exact string the connect path hands over (DhtNetworkManager::handle_peer_connected)
        NetworkAddress::new(SocketAddr::new(ip, port)).to_string()
    } else if rng.chance(0.6) {
        SocketAddr::new(ip, port).to_string()
    } else {
        ip.to_string()
    };
    let cand = Cand::plain(ip);
    let before = w.stats().await;
    let ref_before = w.m.stats();
    let info = NodeInfo { id: NodeId::from_bytes(id), address: address.clone(), last_seen: SystemTime::now(), capacity: NodeCapacity::default() };
    let r = w.eng.add_node(info).await;
    let extra = if display_form { "/address=display-form" } else { "" };
    match r {
        Ok(()) => {
            mon.count("engine.ops.add.ok", 1);
            let view = w.m.view(&cand);
            judge_decision(mon, lane, "add_node", extra, &w.m, &cand, true, &w.hist);
            w.hist.push(format!("add {} '{}' b{} -> ok", hex8(&id), address, bucket));
            w.m.add(&cand);
            if w.table.len() == 9 && take_sample(mon, "engine.add", 1) {
                mon.sample(json!({"lane": lane, "scenario": format!("{kind:?}"), "step": "add_node -> Ok", "address": address,
                    "levels(count/cap) before": view.as_ref().map(|v| view_json(v)), "history_tail": tail(&w.hist, 8)}));
            }
            w.table.push(ENode { id, cand: cand.clone() });
            // an admitted node is counted
            mon.eval();
            let now = w.stats().await;
            let want = w.m.stats();
            if now != want {
                if now == before && want != ref_before {
                    mon.violation(
                        &format!("engine/admitted-uncounted/{}{extra}", cand.fam()),
                        json!({"address": address, "what": "add_node returned Ok but no admission counter moved",
                               "stats_before": before.to_vec(), "stats_after": now.to_vec(), "history_tail": tail(&w.hist, 10)}),
                    );
                } else {
                    let i = first_diff(&now, &want).unwrap_or(0);
                    mon.violation(
                        &format!("engine/stats-mismatch/after=add/{}", STAT_NAMES[i]),
                        json!({"field": STAT_NAMES[i], "got": now[i], "reference": want[i], "history_tail": tail(&w.hist, 12)}),
                    );
                }
                return AddOutcome::Abort;
            }
            AddOutcome::Continue
        }
        Err(e) => {
            let msg = e.to_string();
            if msg.contains("IP diversity limits exceeded") {
                mon.count("engine.ops.add.refused-diversity", 1);
                // which earlier events touched one of this candidate's levels (for the signature only)
                let exp = judge_decision(mon, lane, "add_node", extra, &w.m, &cand, false, &w.hist);
                w.hist.push(format!("add {} '{}' -> refused (diversity)", hex8(&id), address));
                if exp == Some(true) {
                    return AddOutcome::Abort;
                }
                if w.table.len() > 4 && take_sample(mon, "engine.refused", 1) {
                    mon.sample(json!({"lane": lane, "scenario": format!("{kind:?}"), "step": "add_node -> Err(IP diversity limits exceeded)", "address": address,
                        "levels(count/cap)": w.m.view(&cand).as_ref().map(|v| view_json(v)), "history_tail": tail(&w.hist, 8)}));
                }
                AddOutcome::Continue
            } else if msg.contains("Geographic diversity limits exceeded") || msg.contains("K-bucket at capacity") {
                let why = if msg.contains("K-bucket") { "bucket-full" } else { "region-cap" };
                if why == "bucket-full" && fixed.is_none() {
                    w.refused.push((id, ip, bucket));
                }
                mon.count(&format!("engine.ops.add.failed-late.{why}"), 1);
                w.hist.push(format!("add {} '{}' b{} -> Err after the diversity gate ({why})", hex8(&id), address, bucket));
                // the diversity gate was passed: that is an admission decision of the gate
                let exp = judge_decision(mon, lane, "add_node.gate", extra, &w.m, &cand, true, &w.hist);
                if exp == Some(false) {
                    return AddOutcome::Abort;
                }
                // an admission that fails part-way consumes none
                mon.eval();
                mon.case((lane, "failed-late", why, cand.fam()));
                let now = w.stats().await;
                let probe = w.probe(ip).await;
                let leaked = now != before || (exp == Some(true) && probe == Some(false));
                if leaked {
                    let i = first_diff(&now, &before);
                    mon.violation(
                        &format!("engine/failed-admission-keeps-slot/{why}/{}", cand.fam()),
                        json!({"address": address, "error": msg.chars().take(120).collect::<String>(),
                               "changed_field": i.map(|i| STAT_NAMES[i]), "before": i.map(|i| before[i]), "after": i.map(|i| now[i]),
                               "can_accept_same_address_afterwards": probe, "history_tail": tail(&w.hist, 10)}),
                    );
                    w.repair(ip).await;
                    if w.stats().await != w.m.stats() {
                        mon.count("skipped.unsynced-after-repair", 1);
                        return AddOutcome::Abort;
                    }
                }
                AddOutcome::Continue
            } else {
                mon.count("skipped.unknown-add-error", 1);
                w.hist.push(format!("add '{}' -> Err {}", address, msg.chars().take(60).collect::<String>()));
                AddOutcome::Abort
            }
        }
    }
}

/// remove a node through the engine and judge that its slots came back
async fn engine_remove(mon: &Monitor, w: &mut EWorld, rng: &mut Rng, via_evict: bool) -> AddOutcome {
    if w.table.is_empty() {
        return AddOutcome::Continue;
    }
    let i = rng.usize_below(w.table.len());
    let n = w.table.swap_remove(i);
    let before = w.stats().await;
    let api = if via_evict { "evict_node" } else { "handle_node_failure" };
    if via_evict {
        let reason = match rng.below(4) {
            0 => EvictionReason::ConsecutiveFailures(3),
            1 => EvictionReason::LowTrust("0.1".into()),
            2 => EvictionReason::CloseGroupRejection,
            _ => EvictionReason::Stale,
        };
        let _ = w.eng.evict_node(&NodeId::from_bytes(n.id), reason).await;
    } else {
        let _ = w.eng.handle_node_failure(NodeId::from_bytes(n.id)).await;
    }
    mon.count(&format!("engine.ops.{api}"), 1);
    let in_table = w.eng.verif_routing_snapshot().await.iter().any(|(id, _)| *id == n.id);
    if in_table {
        // not removed at all: nothing to judge for C13 (C02 covers the table)
        mon.count("skipped.remove-did-not-remove", 1);
        w.table.push(n);
        return AddOutcome::Continue;
    }
    let ref_before = w.m.stats();
    w.m.remove(&n.cand);
    w.hist.push(format!("{api} {} ({})", hex8(&n.id), n.cand.ip));
    mon.eval();
    let view = w.m.view(&n.cand).unwrap_or_default();
    mon.case(("engine", api, n.cand.fam(), view.iter().filter(|x| x.1 >= 1).count()));
    let now = w.stats().await;
    let want = w.m.stats();
    let expect_free = view.iter().all(|(_, c, cap)| c < cap);
    let probe = w.probe(n.cand.ip).await;
    let leaked = (now == before && want != ref_before) || (expect_free && probe == Some(false));
    if leaked {
        mon.violation(
            &format!("engine/slot-not-released/{api}/{}", n.cand.fam()),
            json!({"removed": n.cand.ip.to_string(), "levels(count/cap) after removal (reference)": view_json(&view),
                   "stats_before": before.to_vec(), "stats_after": now.to_vec(), "reference_after": want.to_vec(),
                   "can_accept_same_address_afterwards": probe, "history_tail": tail(&w.hist, 10)}),
        );
        w.repair(n.cand.ip).await;
        if w.stats().await != w.m.stats() {
            mon.count("skipped.unsynced-after-repair", 1);
            return AddOutcome::Abort;
        }
    } else if now != want {
        let i = first_diff(&now, &want).unwrap_or(0);
        mon.violation(
            &format!("engine/stats-mismatch/after={api}/{}", STAT_NAMES[i]),
            json!({"field": STAT_NAMES[i], "got": now[i], "reference": want[i], "history_tail": tail(&w.hist, 12)}),
        );
        return AddOutcome::Abort;
    } else if take_sample(mon, "engine.remove", 1) {
        mon.sample(json!({"lane": "engine", "step": format!("{api} -> slot released"), "removed": n.cand.ip.to_string(), "history_tail": tail(&w.hist, 6)}));
    }
    w.removed.push(n.cand);
    AddOutcome::Continue
}

async fn lane_engine(mon: &Monitor, rng: &mut Rng, kind: EKind) {
    let local = rng.arr32();
    let eng = match DhtCoreEngine::verif_new_log_only(NodeId::from_bytes(local)) {
        Ok(e) => e,
        Err(e) => {
            mon.inconclusive(&format!("engine construction failed: {e}"));
            return;
        }
    };
    mon.count(&format!("engine.scenarios.{kind:?}"), 1);
    let mut w = EWorld { local, eng, m: RefModel::new(IPDiversityConfig::default()), table: Vec::new(), removed: Vec::new(), refused: Vec::new(), hist: Vec::new() };
    // first octets in four different regions of the engine's region table, so that the region
    // cap (50 per region) is not what refuses unless the scenario wants it
    let (uni, _) = universe(rng, false, &[23, 130, 170, 200, 230]);
    macro_rules! go {
        ($e:expr) => {
            if let AddOutcome::Abort = $e {
                mon.count("engine.scenarios.aborted", 1);
                return;
            }
        };
    }
    match kind {
        EKind::Evict | EKind::Failure | EKind::Mixed => {
            // network size stays 0 (the engine never sets it): with the default caps every admitted
            // node then owns its finest level alone (1 per IPv4 address, 1 per /64), so the published
            // totals reveal every leaked slot and the repair below keeps the reference exact
            let nops = rng.urange(25, mon.by_tier(90, 140));
            for _ in 0..nops {
                let op = rng.weighted(&[55, 28, 17]);
                match op {
                    0 | 2 => {
                        let ip: IpAddr = if op == 2 && !w.removed.is_empty() {
                            // come back into the subnet a removed node left
                            let old = rng.pick(&w.removed).ip;
                            match old {
                                IpAddr::V4(a) if rng.chance(0.5) => IpAddr::V4(Ipv4Addr::from((u32::from(a) & 0xffff_ff00) | rng.below(256) as u32)),
                                IpAddr::V6(a) if rng.chance(0.5) => IpAddr::V6(Ipv6Addr::from((u128::from(a) & !((1u128 << 64) - 1)) | rng.below(16) as u128)),
                                x => x,
                            }
                        } else if rng.chance(0.5) {
                            IpAddr::V4(uni.v4(rng))
                        } else {
                            IpAddr::V6(uni.v6(rng))
                        };
                        if w.region_count(ip).await >= 48 {
                            mon.count("engine.steered-away-from-region-cap", 1);
                            continue;
                        }
                        let b = if kind == EKind::Mixed && rng.chance(0.15) { rng.urange(0, 2) } else { w.free_bucket(rng) };
                        go!(engine_add(mon, &mut w, rng, ip, b, false, kind).await);
                    }
                    _ => {
                        let via_evict = match kind {
                            EKind::Evict => true,
                            EKind::Failure => false,
                            _ => rng.chance(0.5),
                        };
                        go!(engine_remove(mon, &mut w, rng, via_evict).await);
                    }
                }
            }
        }
        EKind::BucketFull => {
            let b = rng.urange(0, 6);
            let n = rng.urange(10, 16);
            for i in 0..n {
                // addresses that share nothing, so only the bucket can refuse
                let ip: IpAddr = if rng.chance(0.5) {
                    IpAddr::V4(Ipv4Addr::new(*rng.pick(&[23u8, 130, 170, 200, 230]), rng.below(256) as u8, i as u8, rng.urange(1, 254) as u8))
                } else {
                    IpAddr::V6(Ipv6Addr::from(((0x2000u128 + rng.below(0x1000) as u128) << 112) | (rng.next_u64() as u128) << 48 | i as u128))
                };
                go!(engine_add(mon, &mut w, rng, ip, b, false, kind).await);
                if i > 9 && rng.chance(0.3) {
                    let ev = rng.chance(0.5);
                    go!(engine_remove(mon, &mut w, rng, ev).await);
                }
            }
            // a peer the full bucket refused announces itself again once there is room: it must be
            // admitted like a new node (gates applied, slots taken), so a second peer on its address
            // is then refused
            let refused: Vec<([u8; 32], IpAddr, usize)> = w.refused.iter().take(2).cloned().collect();
            for (id, ip, bk) in refused {
                while w.occupancy(bk) >= 8 {
                    let ev = rng.chance(0.5);
                    go!(engine_remove(mon, &mut w, rng, ev).await);
                }
                mon.count("engine.ops.readd-after-bucket-refusal", 1);
                go!(engine_add_id(mon, &mut w, rng, ip, bk, false, kind, Some(id)).await);
                if w.occupancy(bk) >= 8 {
                    let ev = rng.chance(0.5);
                    go!(engine_remove(mon, &mut w, rng, ev).await);
                }
                // same address, other node: the per-address level is at its cap now
                go!(engine_add(mon, &mut w, rng, ip, bk, false, kind).await);
            }
        }
        EKind::RegionV4 | EKind::RegionV6 => {
            let n = rng.urange(53, 58);
            let o0 = *rng.pick(&[23u8, 130, 170, 230]);
            for i in 0..n {
                let ip: IpAddr = if kind == EKind::RegionV4 {
                    IpAddr::V4(Ipv4Addr::new(o0 + (i / 10) as u8 % 4, rng.below(256) as u8, i as u8, rng.urange(1, 254) as u8))
                } else {
                    IpAddr::V6(Ipv6Addr::from(((0x2000u128 + rng.below(0x1000) as u128) << 112) | (rng.next_u64() as u128) << 48 | i as u128))
                };
                let b = w.free_bucket(rng);
                go!(engine_add(mon, &mut w, rng, ip, b, false, kind).await);
            }
        }
        EKind::DisplayAddr => {
            let v4 = rng.chance(0.6);
            let n = rng.urange(5, 10);
            let base4 = uni.v4(rng);
            let base6 = uni.v6(rng);
            let same_ip = rng.chance(0.5);
            for i in 0..n {
                let ip: IpAddr = if v4 {
                    IpAddr::V4(if same_ip { base4 } else { Ipv4Addr::from((u32::from(base4) & 0xffff_ff00) | (i as u32 + 1)) })
                } else {
                    IpAddr::V6(Ipv6Addr::from((u128::from(base6) & !((1u128 << 64) - 1)) | (i as u128 + 1)))
                };
                let b = w.free_bucket(rng);
                // judged per add; an uncounted admission desynchronises, so do not abort on it
                let _ = engine_add(mon, &mut w, rng, ip, b, true, kind).await;
            }
        }
    }
}

// ---------------------------------------------------------------------------------------
// lane (c): the bootstrap cache admission
// ---------------------------------------------------------------------------------------

async fn lane_bootstrap(mon: &Monitor, rng: &mut Rng, idx: u64) {
    let dir = match tempfile::tempdir() {
        Ok(d) => d,
        Err(e) => {
            mon.inconclusive(&format!("tempdir: {e}"));
            return;
        }
    };
    let which = rng.weighted(&[40, 30, 30]);
    let (cfg, cfg_name) = match which {
        0 => (IPDiversityConfig::default(), "default"),
        1 => {
            // roomy IPv6 levels, tight IPv4 levels
            let mut c = small_cfg(rng);
            c.max_nodes_per_64 = 100;
            c.max_nodes_per_48 = 100;
            c.max_nodes_per_32 = 100;
            (c, "v6-roomy")
        }
        _ => (small_cfg(rng), "random-small"),
    };
    mon.count(&format!("bootstrap.scenarios.{cfg_name}"), 1);
    let big = 1_000_000u32;
    // the join rate limiter is another property (C14). In half of the scenarios it is out of the
    // way; in the other half it is tight, so that joins are refused by it part-way through
    // add_peer: such a join must consume no diversity slot ("an admission that fails part-way
    // consumes none"), which shows as soon as a later candidate of the same subnet is refused by
    // the diversity gate although the admitted peers leave room
    let tight_limiter = rng.chance(0.5);
    let rate_limit = if tight_limiter {
        JoinRateLimiterConfig {
            max_joins_per_64_per_hour: rng.urange(1, 3) as u32,
            max_joins_per_48_per_hour: rng.urange(1, 6) as u32,
            max_joins_per_24_per_hour: rng.urange(1, 4) as u32,
            max_global_joins_per_minute: big,
            global_burst_size: if rng.chance(0.5) { big } else { rng.urange(4, 40) as u32 },
        }
    } else {
        JoinRateLimiterConfig { max_joins_per_64_per_hour: big, max_joins_per_48_per_hour: big, max_joins_per_24_per_hour: big, max_global_joins_per_minute: big, global_burst_size: big }
    };
    mon.count(if tight_limiter { "bootstrap.scenarios.tight-join-limiter" } else { "bootstrap.scenarios.no-join-limiter" }, 1);
    let bc = BootstrapConfig { cache_dir: dir.path().to_path_buf(), max_peers: 100_000, epsilon: 0.0, rate_limit, diversity: cfg.clone() };
    let mgr = match BootstrapManager::with_config(bc).await {
        Ok(m) => m,
        Err(e) => {
            mon.inconclusive(&format!("bootstrap manager: {e}"));
            return;
        }
    };
    let (uni, _) = universe(rng, false, &[10, 81, 130, 172, 200]);
    let mut m = RefModel::new(cfg.clone());
    let mut hist: Vec<String> = Vec::new();
    let mut admitted: Vec<Cand> = Vec::new();
    let n = rng.urange(12, mon.by_tier(70, 120));
    let p_v4 = *rng.pick(&[0.0, 0.5, 0.5, 1.0]);
    for k in 0..n {
        let ip: IpAddr = if rng.chance(p_v4) { IpAddr::V4(uni.v4(rng)) } else { IpAddr::V6(uni.v6(rng)) };
        let cand = Cand::plain(ip);
        let peer = format!("peer-{idx}-{k}-{}", rng.next_u64());
        let mut addrs = vec![SocketAddr::new(ip, rng.urange(1024, 65000) as u16)];
        if rng.chance(0.2) {
            addrs.push(SocketAddr::new(IpAddr::V4(Ipv4Addr::new(203, 0, 113, 7)), 9000)); // only the first address is gated
        }
        let r = mgr.add_peer(peer.clone(), addrs).await;
        let shares = cand.levels().iter().any(|k| m.count(k) >= 1);
        let extra = if shares { "/shares-a-level-with-admitted" } else { "/shares-no-level-with-admitted" };
        match r {
            Ok(()) => {
                mon.count("bootstrap.ops.add.ok", 1);
                let view = m.view(&cand);
                judge_decision(mon, "bootstrap", "add_peer", "", &m, &cand, true, &hist);
                hist.push(format!("add_peer {ip} -> ok"));
                m.add(&cand);
                admitted.push(cand.clone());
                if k > 8 && take_sample(mon, "bootstrap.add", 1) {
                    mon.sample(json!({"lane": "bootstrap", "config": cfg_json(&cfg), "step": "add_peer -> Ok", "address": ip.to_string(),
                        "levels(count/cap) before": view.as_ref().map(|v| view_json(v)), "history_tail": tail(&hist, 6)}));
                }
            }
            Err(e) => {
                let msg = format!("{e} / {e:?}");
                if msg.contains("IP diversity limits exceeded") {
                    mon.count("bootstrap.ops.add.refused-diversity", 1);
                    judge_decision(mon, "bootstrap", "add_peer", extra, &m, &cand, false, &hist);
                    hist.push(format!("add_peer {ip} -> refused (diversity)"));
                } else if tight_limiter && msg.to_lowercase().contains("rate limit") {
                    // refused by the join limiter: not admitted, the model keeps its counts
                    mon.count("bootstrap.ops.add.refused-join-limiter", 1);
                    mon.eval();
                    hist.push(format!("add_peer {ip} -> refused (join limiter)"));
                } else {
                    mon.count("skipped.bootstrap-other-error", 1);
                    hist.push(format!("add_peer {ip} -> Err {}", msg.chars().take(50).collect::<String>()));
                }
            }
        }
    }
    mon.count("bootstrap.admitted_at_end", admitted.len() as u64);
}

fn main() {
    let mon = Monitor::new("C13", "exploration");
    mon.set_rule("case = one admission / probe / removal step on one enforcer, routing-table engine or bootstrap manager reached by a seeded history; non-trivial when at least one level of the candidate already has count >= 1 (for late-failure and removal steps: the step happened on a non-empty table); distinct by (lane, API, address family, set of levels at cap, hosting flag, outcome); removal steps by (API, family, number of the node's levels still populated); late failures by (reason, family)");
    mon.assume("the IPv4 address level is capped by the network-size rule only (max_nodes_per_ipv4_32 is documented as 'dynamic' and is not treated as a cap)");
    mon.assume("steps whose per-IP limit depends on floating-point rounding of size*fraction (within 1e-9 of an integer) are skipped and counted");
    mon.assume("network sizes up to 2^40; tracking stays far below the 50k-entry bound");
    mon.assume("lane (b): refusal reason is read from the error text; region (50/region) and bucket (8) refusals are legitimate Errs and only their effect on the diversity counters is judged");
    mon.assume("lane (c): in half of the scenarios the join rate limits are out of the way (1e6) so that only the diversity gate can refuse; in the other half they are tight and a join refused by them (read from the error text) must leave the diversity counters untouched");

    let a_n = mon.by_tier(1200u64, 8000);
    let b_n = mon.by_tier(800u64, 6000);
    let c_n = mon.by_tier(100u64, 300);
    vkit::run_shards(mon.shards(), mon.seed, |_i, mut rng| {
        let rt = checks::rt(false);
        let kinds = [EKind::Evict, EKind::Failure, EKind::BucketFull, EKind::RegionV4, EKind::RegionV6, EKind::DisplayAddr, EKind::Mixed];
        let rounds = a_n.max(b_n).max(c_n);
        for k in 0..rounds {
            if mon.time_up() {
                mon.count("stopped-by-budget", 1);
                break;
            }
            // lane wall time is recorded for sizing only; nothing is judged on it
            let t0 = std::time::Instant::now();
            if k < a_n {
                lane_enforcer(&mon, &mut rng, k);
            }
            let t1 = std::time::Instant::now();
            if k < b_n {
                let kind = kinds[(k as usize) % kinds.len()];
                rt.block_on(lane_engine(&mon, &mut rng, kind));
            }
            let t2 = std::time::Instant::now();
            if k < c_n {
                rt.block_on(lane_bootstrap(&mon, &mut rng, k));
            }
            let t3 = std::time::Instant::now();
            mon.count("thread_ms.enforcer", (t1 - t0).as_millis() as u64);
            mon.count("thread_ms.engine", (t2 - t1).as_millis() as u64);
            mon.count("thread_ms.bootstrap", (t3 - t2).as_millis() as u64);
        }
    });
    mon.finish();
}
