//! C07 — damaged log or snapshot data is detected and never replayed as state.
//! Directories produced by real operation histories are damaged (bit flips and overwrites at
//! random and structural offsets, truncation, appended garbage, duplicated and transplanted
//! records, garbage length prefixes) and recovered by a fresh manager in a CHILD process
//! under the counting allocator with a hard cap, so that an abort is an observation.

use checks::pstate::*;
use saorsa_core::persistent_state::FlushStrategy;
use serde_json::{json, Value};
use std::collections::{BTreeMap, BTreeSet, HashMap};
use std::path::Path;
use std::process::Command;
use vkit::{Monitor, Rng};

#[global_allocator]
static A: vkit::CountingAlloc = vkit::CountingAlloc;

// ------------------------------------------------------------------ child: recover and report
fn child_main(dir: &str) -> ! {
    use std::sync::atomic::Ordering;
    vkit::alloc::SINGLE_ALLOC_CAP.store(1 << 30, Ordering::Relaxed);
    let rt = tokio::runtime::Builder::new_current_thread().enable_all().build().expect("rt");
    let base_live = vkit::alloc::G_LIVE.load(Ordering::Relaxed);
    vkit::alloc::G_PEAK.store(base_live, Ordering::Relaxed);
    let dirp = std::path::PathBuf::from(dir);
    let out = vkit::catch(|| {
        rt.block_on(async {
            match Mgr::new(config(&dirp, FlushStrategy::Always)).await {
                Ok(m) => {
                    let st = m.get_all().map(|h| h.into_iter().collect::<BTreeMap<_, _>>()).unwrap_or_default();
                    let stats = m.recovery_stats().ok();
                    let (failed, events, loss, types) = stats
                        .map(|s| (s.entries_failed, s.corruption_events.len(), s.data_loss_detected, s.corruption_events.iter().map(|e| format!("{:?}", e.corruption_type)).collect::<Vec<_>>()))
                        .unwrap_or((0, 0, false, vec![]));
                    // a second restart of what the first recovery left behind must see the same state:
                    // recovery may report and skip damage, it must not turn it into further loss
                    drop(m);
                    let second = match Mgr::new(config(&dirp, FlushStrategy::Always)).await {
                        Ok(m2) => {
                            let st2 = m2.get_all().map(|h| h.into_iter().collect::<BTreeMap<_, _>>()).unwrap_or_default();
                            if st2 == st {
                                json!(null)
                            } else {
                                let k = st.keys().chain(st2.keys()).find(|k| st.get(*k) != st2.get(*k)).cloned().unwrap_or_default();
                                json!(format!("key {k}: first recovery {:?}, second recovery {:?}", st.get(&k).map(|v| v.0), st2.get(&k).map(|v| v.0)))
                            }
                        }
                        Err(e) => json!(format!("second open failed: {e}")),
                    };
                    json!({"ok": true, "state": st.iter().map(|(k, v)| json!([k, v.0, v.1])).collect::<Vec<_>>(), "entries_failed": failed, "corruption_events": events, "data_loss": loss, "types": types, "second": second})
                }
                Err(e) => json!({"ok": false, "err": e.to_string()}),
            }
        })
    });
    let peak = vkit::alloc::G_PEAK.load(Ordering::Relaxed).saturating_sub(base_live);
    let mut v = match out {
        Ok(v) => v,
        Err(p) => json!({"ok": false, "panic": p}),
    };
    v["peak"] = json!(peak);
    println!("{v}");
    std::process::exit(0);
}

struct ChildOut {
    crashed: Option<String>,
    panic: Option<String>,
    open_err: Option<String>,
    state: BTreeMap<String, Val>,
    entries_failed: u64,
    corruption_events: u64,
    data_loss: bool,
    peak: u64,
    /// how the state after a second restart differs from the first recovery's (None: identical)
    second: Option<String>,
}

fn run_child(dir: &Path) -> ChildOut {
    let exe = std::env::current_exe().expect("exe");
    let o = Command::new(exe).arg("--child").arg(dir).output();
    let mut out = ChildOut { crashed: None, panic: None, open_err: None, state: BTreeMap::new(), entries_failed: 0, corruption_events: 0, data_loss: false, peak: 0, second: None };
    match o {
        Err(e) => out.crashed = Some(format!("spawn failed: {e}")),
        Ok(o) => {
            if !o.status.success() {
                out.crashed = Some(format!("{:?}; stderr tail: {}", o.status, String::from_utf8_lossy(&o.stderr).chars().rev().take(200).collect::<String>().chars().rev().collect::<String>()));
                return out;
            }
            let txt = String::from_utf8_lossy(&o.stdout);
            let Some(line) = txt.lines().rev().find(|l| l.starts_with('{')) else {
                out.crashed = Some("no report line".into());
                return out;
            };
            let v: Value = serde_json::from_str(line).unwrap_or(Value::Null);
            out.peak = v["peak"].as_u64().unwrap_or(0);
            if let Some(p) = v["panic"].as_str() {
                out.panic = Some(p.to_string());
            }
            if v["ok"].as_bool() != Some(true) {
                out.open_err = v["err"].as_str().map(|s| s.to_string());
                return out;
            }
            for e in v["state"].as_array().cloned().unwrap_or_default() {
                if let (Some(k), Some(id), Some(vk)) = (e[0].as_str(), e[1].as_u64(), e[2].as_str()) {
                    out.state.insert(k.to_string(), (id, vk.to_string()));
                }
            }
            out.entries_failed = v["entries_failed"].as_u64().unwrap_or(0);
            out.corruption_events = v["corruption_events"].as_u64().unwrap_or(0);
            out.data_loss = v["data_loss"].as_bool().unwrap_or(false);
            out.second = v["second"].as_str().map(|x| x.to_string());
        }
    }
    out
}

// ------------------------------------------------------------------ parent
#[derive(Clone, Copy, Debug, PartialEq, Eq, Hash)]
enum Dmg {
    FlipTxnId,
    FlipRandom,
    FlipLenPrefix,
    FlipTagOrHeader,
    FlipKey,
    FlipValue,
    FlipHmac,
    Overwrite,
    Truncate,
    AppendGarbage,
    DuplicateRecord,
    Transplant,
    LenZero,
    LenHuge,
    LenMax,
    SnapHeaderSize,
    SnapHeader,
    SnapHeaderCounters,
    SnapHeaderReframe,
    SnapData,
}
const WAL_DMG: [Dmg; 15] = [Dmg::FlipTxnId, Dmg::FlipRandom, Dmg::FlipLenPrefix, Dmg::FlipTagOrHeader, Dmg::FlipKey, Dmg::FlipValue, Dmg::FlipHmac, Dmg::Overwrite, Dmg::Truncate, Dmg::AppendGarbage, Dmg::DuplicateRecord, Dmg::Transplant, Dmg::LenZero, Dmg::LenHuge, Dmg::LenMax];
const SNAP_DMG: [Dmg; 10] = [Dmg::FlipRandom, Dmg::SnapHeaderSize, Dmg::SnapHeader, Dmg::SnapHeaderCounters, Dmg::SnapHeaderCounters, Dmg::SnapHeaderReframe, Dmg::SnapHeaderReframe, Dmg::SnapData, Dmg::Truncate, Dmg::AppendGarbage];

struct Built {
    image: DirImage,
    ops: Vec<Op>,
    /// every value genuinely written for each key
    written: HashMap<String, BTreeSet<Val>>,
}

/// `twin_of`: replay the same operation sequence (same keys, kinds and therefore the same transaction
/// numbering) with other values into another store (other integrity key)
async fn build_store(rng: &mut Rng, foreign: bool, twin_of: Option<&[Op]>) -> Option<Built> {
    let dir = scratch("c07b");
    let m = Mgr::new(config(&dir, FlushStrategy::Always)).await.ok()?;
    let nkeys = rng.urange(2, 7);
    let nops = rng.urange(6, 40);
    let with_checkpoints = rng.chance(0.5);
    let mut model = BTreeMap::new();
    let mut ops = Vec::new();
    let mut opid = if foreign { 1u64 << 50 } else { rng.next_u64() >> 24 };
    let revalue = |o: &Op, base: u64| -> Op {
        match o {
            Op::Upsert(k, _) => Op::Upsert(k.clone(), (base, k.clone())),
            Op::Batch(c) => Op::Batch(c.iter().enumerate().map(|(j, (k, v))| (k.clone(), v.as_ref().map(|_| (base * 100 + j as u64, k.clone())))).collect()),
            other => other.clone(),
        }
    };
    for i in 0..twin_of.map(|t| t.len()).unwrap_or(nops) {
        opid += 1;
        let op = match twin_of {
            Some(t) => revalue(&t[i], opid),
            None => gen_op(rng, opid, nkeys, &model, with_checkpoints),
        };
        let _ = run_op(&m, &op).await;
        apply(&mut model, &op);
        ops.push(op);
    }
    drop(m);
    let image = capture(&dir);
    let _ = std::fs::remove_dir_all(&dir);
    let mut written: HashMap<String, BTreeSet<Val>> = HashMap::new();
    for o in &ops {
        match o {
            Op::Upsert(k, v) => {
                written.entry(k.clone()).or_default().insert(v.clone());
            }
            Op::Batch(c) => {
                for (k, v) in c {
                    if let Some(v) = v {
                        written.entry(k.clone()).or_default().insert(v.clone());
                    }
                }
            }
            _ => {}
        }
    }
    Some(Built { image, ops, written })
}

/// apply one damage; returns (class detail, index of the first damaged WAL record if in a WAL, framing_intact)
fn damage(rng: &mut Rng, img: &mut DirImage, d: Dmg, file_idx: usize, foreign: &DirImage) -> (Option<usize>, bool, usize) {
    let (name, bytes) = &mut img[file_idx];
    let recs: Vec<(usize, usize)> = if is_wal(name) { wal_records(bytes).into_iter().map(|(o, l, _)| (o, l)).collect() } else { vec![] };
    let pick_rec = |rng: &mut Rng| if recs.is_empty() { None } else { Some(rng.usize_below(recs.len())) };
    let flip = |b: &mut Vec<u8>, at: usize, rng: &mut Rng| {
        if at < b.len() {
            b[at] ^= 1 << rng.below(8);
        }
    };
    match d {
        Dmg::FlipRandom => {
            if bytes.is_empty() {
                return (None, true, 0);
            }
            let at = rng.usize_below(bytes.len());
            flip(bytes, at, rng);
            let ri = recs.iter().position(|(o, l)| at >= *o && at < o + l);
            let in_prefix = ri.is_some_and(|i| at < recs[i].0 + 4);
            (ri, !in_prefix, at)
        }
        Dmg::FlipTxnId => match pick_rec(rng) {
            // byte 1 of the body starts the transaction-id varint (byte 0 is the version)
            Some(i) => {
                let at = recs[i].0 + 4 + 1;
                if at < bytes.len() {
                    bytes[at] ^= 1 << rng.below(3);
                }
                (Some(i), true, at)
            }
            None => (None, true, 0),
        },
        Dmg::FlipLenPrefix => match pick_rec(rng) {
            Some(i) => {
                let at = recs[i].0 + rng.usize_below(4);
                flip(bytes, at, rng);
                (Some(i), false, at)
            }
            None => (None, true, 0),
        },
        Dmg::FlipTagOrHeader | Dmg::FlipKey | Dmg::FlipValue | Dmg::FlipHmac => match pick_rec(rng) {
            Some(i) => {
                let (o, l) = recs[i];
                let body = l - 4;
                // postcard layout of WalEntry: version(1) txn(varint) ts(varint) type(1) key(len+bytes) value(opt) hmac(32)
                let at = match d {
                    Dmg::FlipTagOrHeader => o + 4 + rng.usize_below(body.min(12)),
                    Dmg::FlipHmac => o + l - 1 - rng.usize_below(32.min(body)),
                    Dmg::FlipKey => o + 4 + 10.min(body - 1) + rng.usize_below(4),
                    _ => o + 4 + body / 2 + rng.usize_below((body / 4).max(1)),
                };
                let at = at.min(o + l - 1);
                flip(bytes, at, rng);
                (Some(i), true, at)
            }
            None => (None, true, 0),
        },
        Dmg::Overwrite => {
            if bytes.len() < 2 {
                return (None, true, 0);
            }
            let at = rng.usize_below(bytes.len());
            let n = rng.urange(2, 24).min(bytes.len() - at);
            let pat = rng.bytes(n);
            let before = bytes[at..at + n].to_vec();
            bytes[at..at + n].copy_from_slice(&pat);
            if before == pat {
                bytes[at] ^= 0xff;
            }
            let ri = recs.iter().position(|(o, l)| at < o + l && at + n > *o);
            let touches_prefix = recs.iter().any(|(o, _)| at < o + 4 && at + n > *o);
            (ri, !touches_prefix, at)
        }
        Dmg::Truncate => {
            if bytes.is_empty() {
                return (None, true, 0);
            }
            let at = rng.usize_below(bytes.len());
            bytes.truncate(at);
            let ri = recs.iter().position(|(o, l)| at < o + l);
            (ri, false, at)
        }
        Dmg::AppendGarbage => {
            let at = bytes.len();
            let n = rng.urange(1, 64);
            bytes.extend(rng.bytes(n));
            (Some(recs.len()), false, at)
        }
        Dmg::DuplicateRecord => match pick_rec(rng) {
            Some(i) => {
                let (o, l) = recs[i];
                let rec = bytes[o..o + l].to_vec();
                let at = bytes.len();
                bytes.extend(rec);
                (Some(recs.len()), true, at)
            }
            None => (None, true, 0),
        },
        Dmg::Transplant => {
            // a whole record of ANOTHER store's log (same keys, other values, other integrity key)
            let f: Vec<&(String, Vec<u8>)> = foreign.iter().filter(|(n, _)| is_wal(n)).collect();
            if let Some((_, fb)) = f.first() {
                let fr = wal_records(fb);
                if !fr.is_empty() {
                    let fi = rng.usize_below(fr.len());
                    let (o, l, _) = &fr[fi];
                    let rec = fb[*o..*o + *l].to_vec();
                    // in front of the record with the same index (a twin store has the same transaction there), at the end, or anywhere
                    let at = match rng.below(3) {
                        0 if fi < recs.len() => recs[fi].0,
                        1 => bytes.len(),
                        _ if !recs.is_empty() => recs[rng.usize_below(recs.len())].0,
                        _ => bytes.len(),
                    };
                    let idx = recs.iter().position(|(ro, _)| *ro == at).unwrap_or(recs.len());
                    bytes.splice(at..at, rec);
                    return (Some(idx), true, at);
                }
            }
            (None, true, 0)
        }
        Dmg::LenZero | Dmg::LenHuge | Dmg::LenMax => match pick_rec(rng) {
            Some(i) => {
                let v: u32 = match d {
                    Dmg::LenZero => 0,
                    Dmg::LenHuge => 1 << 31,
                    _ => u32::MAX,
                };
                let o = recs[i].0;
                bytes[o..o + 4].copy_from_slice(&v.to_le_bytes());
                (Some(i), false, o)
            }
            None => (None, true, 0),
        },
        Dmg::SnapHeaderSize => {
            if bytes.len() >= 4 {
                let v: u32 = *rng.pick(&[0u32, 1, 1 << 31, u32::MAX, 7]);
                bytes[0..4].copy_from_slice(&v.to_le_bytes());
            }
            (None, false, 0)
        }
        Dmg::SnapHeader => {
            if bytes.len() > 8 {
                let hs = u32::from_le_bytes([bytes[0], bytes[1], bytes[2], bytes[3]]) as usize;
                let at = 4 + rng.usize_below(hs.clamp(1, bytes.len() - 4));
                flip(bytes, at, rng);
                return (None, true, at);
            }
            (None, true, 0)
        }
        Dmg::SnapHeaderCounters => {
            // the small counters right after version and creation time (last transaction id, entry
            // count, total size): one flipped bit turns them into other plausible numbers
            if bytes.len() > 16 {
                let at = 4 + rng.urange(5, 11);
                flip(bytes, at, rng);
                return (None, true, at);
            }
            (None, true, 0)
        }
        Dmg::SnapHeaderReframe => {
            // a header that still frames and decodes but lies about sizes (length prefix and field
            // rewritten together - what a multi-byte corruption or a foreign writer leaves behind)
            if bytes.len() > 8 {
                let hs = u32::from_le_bytes([bytes[0], bytes[1], bytes[2], bytes[3]]) as usize;
                if 4 + hs <= bytes.len() {
                    if let Ok(mut h) = postcard::from_bytes::<saorsa_core::persistent_state::SnapshotHeader>(&bytes[4..4 + hs]) {
                        match rng.below(4) {
                            0 => h.total_size = u64::MAX,
                            1 => h.total_size = 512 << 20,
                            2 => h.entry_count = u64::MAX,
                            _ => h.total_size = rng.range(1 << 24, 1 << 40),
                        }
                        if let Ok(nh) = postcard::to_stdvec(&h) {
                            let rest = bytes[4 + hs..].to_vec();
                            let mut out = (nh.len() as u32).to_le_bytes().to_vec();
                            out.extend(nh);
                            out.extend(rest);
                            *bytes = out;
                            return (None, true, 4);
                        }
                    }
                }
            }
            (None, true, 0)
        }
        Dmg::SnapData => {
            if bytes.len() > 8 {
                let hs = u32::from_le_bytes([bytes[0], bytes[1], bytes[2], bytes[3]]) as usize;
                let start = (4 + hs).min(bytes.len() - 1);
                let at = start + rng.usize_below(bytes.len() - start);
                flip(bytes, at, rng);
                return (None, true, at);
            }
            (None, true, 0)
        }
    }
}

/// keys touched by the WAL records from index `from` on (in replay order over all wal files)
fn keys_touched_from(img: &DirImage, file: &str, from: usize) -> BTreeSet<String> {
    let mut out = BTreeSet::new();
    // replay order: rotated files by name, live log last
    let mut files: Vec<&(String, Vec<u8>)> = img.iter().filter(|(n, _)| is_wal(n)).collect();
    files.sort_by_key(|(n, _)| (n == "state.wal", n.clone()));
    let mut after = false;
    // a batch is applied only when its commit marker (type Checkpoint, same transaction id) is
    // seen: batch records BEFORE the damage whose marker lies at or after it are affected too
    let mut open: HashMap<u64, Vec<String>> = HashMap::new();
    for (n, b) in files {
        for (i, (_, _, e)) in wal_records(b).into_iter().enumerate() {
            if n == file && i >= from {
                after = true;
            }
            let Some(e) = e else { continue };
            use saorsa_core::TransactionType as T;
            if after {
                out.insert(e.key.clone());
            }
            match e.transaction_type {
                T::Batch => open.entry(e.transaction_id).or_default().push(e.key),
                T::Checkpoint => {
                    let members = open.remove(&e.transaction_id).unwrap_or_default();
                    if after {
                        out.extend(members);
                    }
                }
                _ => {}
            }
        }
    }
    // batches that never got a marker
    for (_, members) in open {
        out.extend(members);
    }
    out
}

/// keys whose recovered value is decided by the logs alone: touched by at least one record that
/// replay applies (a plain upsert / delete, or a batch member whose commit marker is present)
fn keys_decided_by_logs(img: &DirImage) -> BTreeSet<String> {
    let mut out = BTreeSet::new();
    let mut files: Vec<&(String, Vec<u8>)> = img.iter().filter(|(n, _)| is_wal(n)).collect();
    files.sort_by_key(|(n, _)| (n == "state.wal", n.clone()));
    for (_, b) in files {
        let mut open: HashMap<u64, Vec<String>> = HashMap::new();
        for (_, _, e) in wal_records(b) {
            let Some(e) = e else { continue };
            use saorsa_core::TransactionType as T;
            match e.transaction_type {
                T::Upsert | T::Delete => {
                    out.insert(e.key);
                }
                T::Batch => open.entry(e.transaction_id).or_default().push(e.key),
                T::Checkpoint => out.extend(open.remove(&e.transaction_id).unwrap_or_default()),
            }
        }
    }
    out
}

async fn scenario(mon: &Monitor, rng: &mut Rng, per_store: usize) {
    let Some(b) = build_store(rng, false, None).await else {
        mon.inconclusive("could not build a store");
        return;
    };
    // the other store: half of the time a twin (same keys, kinds and transaction numbers, other values)
    let twin = rng.chance(0.5);
    let Some(f) = build_store(rng, true, if twin { Some(&b.ops) } else { None }).await else { return };
    // reference: recovery of the undamaged image
    let dir0 = scratch("c07r");
    materialize(&b.image, &dir0);
    let clean = run_child(&dir0);
    let _ = std::fs::remove_dir_all(&dir0);
    mon.eval();
    if clean.crashed.is_some() || clean.panic.is_some() || clean.open_err.is_some() {
        mon.violation("undamaged/recovery-did-not-complete", json!({"crashed": clean.crashed, "panic": clean.panic, "err": clean.open_err}));
        return;
    }
    let expect_final: BTreeMap<String, Val> = prefixes(&b.ops).pop().unwrap_or_default();
    if clean.state != expect_final {
        // C06's subject; reported once per store here so that C07's "honoured" sub-claims are interpretable
        mon.violation("undamaged/clean-image-does-not-recover-final-state", json!({"recovered": clean.state.len(), "expected": expect_final.len()}));
        return;
    }
    let total: usize = b.image.iter().map(|(_, v)| v.len()).sum();
    for _ in 0..per_store {
        if mon.time_up() {
            break;
        }
        let mut img = b.image.clone();
        let data_files: Vec<usize> = img.iter().enumerate().filter(|(_, (n, _))| is_wal(n) || is_snap(n)).map(|(i, _)| i).collect();
        if data_files.is_empty() {
            break;
        }
        let fi = *rng.pick(&data_files);
        let fname = img[fi].0.clone();
        let snap = is_snap(&fname);
        let d = if snap { *rng.pick(&SNAP_DMG) } else { *rng.pick(&WAL_DMG) };
        let multi = rng.chance(0.15);
        let (rec_idx, framing_intact, at) = damage(rng, &mut img, d, fi, &f.image);
        if multi {
            let d2 = if snap { *rng.pick(&SNAP_DMG) } else { *rng.pick(&WAL_DMG) };
            let _ = damage(rng, &mut img, d2, fi, &f.image);
        }
        if img == b.image {
            mon.count("skipped.damage-was-a-no-op", 1);
            continue;
        }
        let dir = scratch("c07d");
        materialize(&img, &dir);
        let out = run_child(&dir);
        let _ = std::fs::remove_dir_all(&dir);
        mon.eval();
        let kind = if snap { "snapshot" } else { "wal" };
        if rec_idx.is_some() || snap {
            mon.case((kind, d, multi, framing_intact));
        }
        mon.count(&format!("damage.{kind}.{d:?}"), 1);
        let ctx = |extra: Value| json!({"file": fname, "damage": format!("{d:?}"), "multi": multi, "offset": at, "record_index": rec_idx, "framing_intact": framing_intact, "files": img.iter().map(|(n, v)| format!("{n}:{}", v.len())).collect::<Vec<_>>(), "ops": b.ops.len(), "detail": extra,
            "reported": {"entries_failed": out.entries_failed, "corruption_events": out.corruption_events, "data_loss": out.data_loss},
            "image_hex": img.iter().filter(|(_, v)| v.len() <= 4096).map(|(n, v)| json!([n, hex::encode(v)])).collect::<Vec<_>>()});
        if let Some(c) = &out.crashed {
            mon.violation(&format!("abort/recovery-process-died/{kind}/{d:?}"), ctx(json!({"status": c})));
            continue;
        }
        if let Some(p) = &out.panic {
            let loc = p.rsplit(" @ ").next().unwrap_or("").rsplit('/').next().unwrap_or("").to_string();
            mon.violation(&format!("panic/recovery/{kind}/{loc}"), ctx(json!({"panic": p})));
            continue;
        }
        if let Some(e) = &out.open_err {
            mon.violation(&format!("incomplete/recovery-returned-error/{kind}/{d:?}"), ctx(json!({"err": e})));
            continue;
        }
        // memory proportional to what was read
        let bound = 16 * (total as u64 + 4096) + 8 * 1024 * 1024;
        if out.peak > bound {
            mon.violation(&format!("memory/peak-not-proportional/{kind}/{d:?}"), ctx(json!({"peak": out.peak, "bound": bound, "bytes_on_disk": total})));
        }
        // (b) every recovered value was genuinely written for that key
        for (k, v) in &out.state {
            mon.eval();
            if v.1 != *k || !b.written.get(k).is_some_and(|s| s.contains(v)) {
                let from_foreign = v.0 >= (1u64 << 50);
                let why = if from_foreign { "transplanted-from-another-store" } else if v.1 != *k { "moved-to-another-key" } else { "invented" };
                mon.violation(&format!("value/{why}/{kind}/{d:?}"), ctx(json!({"key": k, "value_id": v.0, "value_key": v.1})));
                break;
            }
        }
        // (c) damage that changed the outcome must be reported
        let reported = out.corruption_events > 0 || out.entries_failed > 0 || out.data_loss;
        if out.state != clean.state && !reported {
            // a log cut exactly at a record boundary is a shorter, well-formed log
            let at_boundary = !snap && {
                let (orig, now) = (&b.image[fi].1, &img[fi].1);
                now.len() < orig.len() && orig.starts_with(now) && (now.is_empty() || wal_records(orig).iter().any(|(o, _, _)| *o == now.len()))
            };
            let sig = if at_boundary { "silent/log-truncated-exactly-at-a-record-boundary".to_string() } else { format!("silent/state-changed-without-report/{kind}/{d:?}") };
            mon.violation(&sig, ctx(json!({"recovered": out.state.len(), "clean": clean.state.len()})));
        }
        if reported {
            mon.count("reported_damage", 1);
        } else {
            mon.count("unreported_but_state_unchanged", 1);
        }
        // (d) records before the damage (and after it, with framing intact) are honoured
        if !snap && !multi {
            if let Some(i) = rec_idx {
                mon.eval();
                // keys whose fate is decided only by records the damage cannot have affected
                let unaffected_keys: BTreeSet<String> = if framing_intact {
                    // only record i itself may be lost
                    let mut files: Vec<&(String, Vec<u8>)> = b.image.iter().filter(|(n, _)| *n == fname).collect();
                    let mut hit = BTreeSet::new();
                    if let Some((_, bytes)) = files.pop() {
                        if let Some((_, _, Some(e))) = wal_records(bytes).into_iter().nth(i) {
                            hit.insert(e.key.clone());
                            // a damaged batch member or marker can take its whole batch with it
                            for (_, _, e2) in wal_records(bytes) {
                                if let Some(e2) = e2 {
                                    if e2.transaction_id == e.transaction_id {
                                        hit.insert(e2.key);
                                    }
                                }
                            }
                        }
                    }
                    clean.state.keys().chain(out.state.keys()).filter(|k| !hit.contains(*k)).cloned().collect()
                } else {
                    let touched = keys_touched_from(&b.image, &fname, i);
                    clean.state.keys().chain(out.state.keys()).filter(|k| !touched.contains(*k)).cloned().collect()
                };
                for k in &unaffected_keys {
                    if out.state.get(k) != clean.state.get(k) {
                        let f = if framing_intact { "later-or-earlier-record-with-intact-framing-not-honoured" } else { "record-before-the-damage-not-honoured" };
                        mon.violation(&format!("honour/{f}/{d:?}"), ctx(json!({"key": k, "recovered": out.state.get(k).map(|v| v.0), "expected": clean.state.get(k).map(|v| v.0)})));
                        break;
                    }
                }
            }
        }
        // (e) what the first recovery left on disk recovers to the same state again
        mon.eval();
        if let Some(diff) = &out.second {
            mon.violation(&format!("second-restart/state-differs-from-the-first-recovery/{kind}/{d:?}"), ctx(json!({"difference": diff})));
        }
        // (d') damage confined to a snapshot leaves every log record intact: whatever recovery makes
        // of the snapshot, each key the logs touch must end up as the logs say
        if snap {
            {
                mon.eval();
                let touched = keys_decided_by_logs(&b.image);
                mon.count("snapshot_damage.log_keys_judged", touched.len() as u64);
                for k in &touched {
                    if out.state.get(k) != clean.state.get(k) {
                        mon.violation(&format!("honour/intact-log-records-not-honoured-after-snapshot-damage/{d:?}"), ctx(json!({"key": k, "recovered": out.state.get(k).map(|v| v.0), "expected": clean.state.get(k).map(|v| v.0)})));
                        break;
                    }
                }
            }
        }
        if mon.want_sample() && rec_idx.is_some() {
            mon.sample(ctx(json!({"recovered_keys": out.state.len(), "clean_keys": clean.state.len(), "entries_failed": out.entries_failed, "corruption_events": out.corruption_events, "peak_bytes": out.peak})));
        }
    }
}

fn main() {
    let args: Vec<String> = std::env::args().collect();
    if args.len() >= 3 && args[1] == "--child" {
        child_main(&args[2]);
    }
    let mon = Monitor::new("C07", "fault_enumeration");
    // supplementary sanitizer lanes (thorough tier): built and run alongside the behavioural workload, joined before the verdict
    let lanes = checks::lanes::start(&mon, &[("asan", "c07", "240"), ("memcheck", "c07", "240")]);
    mon.set_rule("case = one damaged state directory (built by a real operation history) recovered by a fresh manager in a child process; non-trivial when the damage lands inside a record, a length prefix or a snapshot; distinct by (file kind, damage class, single/multi, framing intact)");
    mon.assume("the integrity key file is not damaged (the property speaks of log and snapshot files)");
    mon.assume("'honoured' is judged per key: keys not touched by the damaged record (framing intact) or by any record from the damage on (framing broken) must recover exactly as from the undamaged directory");
    mon.assume("peak memory bound: 16 x bytes on disk + 8 MiB for the runtime of the recovering process");
    let stores = mon.by_tier(14u64, 900);
    let per_store = mon.by_tier(24usize, 60);
    vkit::run_shards(mon.shards(), mon.seed, |_i, mut rng| {
        let rt = tokio::runtime::Builder::new_current_thread().enable_all().build().expect("rt");
        rt.block_on(async {
            for _ in 0..stores {
                if mon.time_up() {
                    break;
                }
                scenario(&mon, &mut rng, per_store).await;
                mon.count("stores", 1);
            }
        });
    });
    scratch_cleanup();
    // supplementary sanitizer lane (thorough): recovery of damaged directories under AddressSanitizer
    checks::lanes::join(&mon, lanes);
    mon.finish();
}
