//! C19 — addresses survive every textual round trip the library itself performs.
//!
//! Oracle: equality of socket addresses. For every generated `SocketAddr` the check drives the
//! library's own renderers (four-word forms of three components, `Display`, the `/ip4|ip6/../tcp/..`
//! form, serde JSON/postcard) and hands the produced text to the library's own readers. A reader must
//! answer *that* socket address. Strings derived from a rendering by a mutation that cannot denote
//! another address must give `Err` or the original address, never a panic or another address.
//! Cross-component: a rendering produced by `NetworkAddress::to_string()` is handed to
//! routing-table admission (`DhtCoreEngine::add_node`, judged against a control engine that gets the
//! plain `ip:port` text), to the transport registry (`verif_accept` → `get_peer_id_by_address`,
//! `connect_peer`), and — in a small in-memory network of real nodes — through
//! `handle_peer_connected` and a FIND_NODE reply to the address the hub sees dialled.

use async_trait::async_trait;
use memnet::{spawn_node, Hub, NodeCfg, SimNode};
use saorsa_core::address::NetworkAddress;
use saorsa_core::bootstrap::{ContactEntry, QuicContactInfo};
use saorsa_core::dht::core_engine::{DhtCoreEngine, NodeCapacity, NodeId, NodeInfo};
use saorsa_core::dht_network_manager::DhtNetworkResult;
use saorsa_core::error::P2pResult;
use saorsa_core::transport_handle::TransportHandle;
use saorsa_core::verif_hooks::VerifLink;
use serde_json::{json, Value};
use std::collections::{BTreeMap, HashMap, HashSet};
use std::hash::{Hash, Hasher};
use std::net::{IpAddr, Ipv4Addr, Ipv6Addr, SocketAddr, SocketAddrV6};
use std::sync::Arc;
use std::time::{Duration, SystemTime};
use vkit::{Monitor, Rng};

const OCT: [u8; 6] = [0, 1, 127, 128, 254, 255];
const PORTS: [u16; 6] = [0, 1, 1023, 1024, 65534, 65535];

// ---------------------------------------------------------------------------------------------
// classification (signature features) and case signatures
// ---------------------------------------------------------------------------------------------

fn fam(a: &SocketAddr) -> &'static str {
    if a.is_ipv4() {
        "ipv4"
    } else {
        "ipv6"
    }
}

fn v6_kind(a: &SocketAddrV6) -> &'static str {
    let ip = a.ip();
    let s0 = ip.segments()[0];
    if a.scope_id() != 0 {
        "scoped"
    } else if ip.is_loopback() {
        "loopback"
    } else if ip.is_unspecified() {
        "unspecified"
    } else if ip.to_ipv4_mapped().is_some() {
        "mapped"
    } else if (s0 & 0xffc0) == 0xfe80 {
        "linklocal"
    } else if (s0 & 0xfe00) == 0xfc00 {
        "ula"
    } else if (s0 & 0xff00) == 0xff00 {
        "multicast"
    } else {
        "global"
    }
}

/// low-cardinality class used in violation signatures of the word-form trips
fn class(a: &SocketAddr) -> String {
    if a.port() == 65535 {
        return format!("{}-port65535", fam(a));
    }
    match a {
        SocketAddr::V4(_) => "ipv4".to_string(),
        SocketAddr::V6(v6) => {
            let k = v6_kind(v6);
            format!("ipv6-{}", if k == "scoped" { "linklocal" } else { k })
        }
    }
}

/// The property speaks of "the same IP and port": scope id / flowinfo are not compared
/// (serde's binary form of a std `SocketAddrV6` and every word form drop them by design).
fn same(x: &SocketAddr, y: &SocketAddr) -> bool {
    x.ip() == y.ip() && x.port() == y.port()
}

fn port_class(p: u16) -> u8 {
    match p {
        0 => 0,
        1 => 1,
        1023 => 2,
        1024 => 3,
        65534 => 4,
        65535 => 5,
        _ => 6,
    }
}

/// (family/class, boundary flags)
fn flags(a: &SocketAddr) -> (String, u16) {
    match a {
        SocketAddr::V4(v4) => {
            let mut m = 0u16;
            for (i, o) in v4.ip().octets().iter().enumerate() {
                if OCT.contains(o) {
                    m |= 1 << i;
                }
            }
            ("ipv4".into(), m | ((port_class(v4.port()) as u16) << 4))
        }
        SocketAddr::V6(v6) => {
            let zeros = v6.ip().segments().iter().filter(|s| **s == 0).count() as u16;
            (format!("ipv6-{}", v6_kind(v6)), (zeros.min(7)) | ((port_class(v6.port()) as u16) << 4))
        }
    }
}

// ---------------------------------------------------------------------------------------------
// per-shard accumulator (keeps the hot loop off the monitor's mutexes)
// ---------------------------------------------------------------------------------------------

struct Local<'a> {
    mon: &'a Monitor,
    counts: HashMap<String, u64>,
    vio_seen: HashMap<String, u32>,
    cases: HashSet<u64>,
    evals: u64,
    sampled: HashSet<&'static str>,
    want_samples: bool,
}

impl<'a> Local<'a> {
    fn new(mon: &'a Monitor, want_samples: bool) -> Self {
        Local { mon, counts: HashMap::new(), vio_seen: HashMap::new(), cases: HashSet::new(), evals: 0, sampled: HashSet::new(), want_samples }
    }
    fn count(&mut self, k: &str) {
        *self.counts.entry(k.to_string()).or_insert(0) += 1;
    }
    fn eval(&mut self) {
        self.evals += 1;
    }
    fn case(&mut self, a: &SocketAddr, trip: &'static str) {
        let (c, f) = flags(a);
        let mut h = std::collections::hash_map::DefaultHasher::new();
        (c.as_str(), trip, f).hash(&mut h);
        let k = h.finish();
        if self.cases.insert(k) {
            self.mon.case((c, trip, f));
        }
    }
    fn vio(&mut self, sig: &str, detail: impl FnOnce() -> Value) {
        let n = self.vio_seen.entry(sig.to_string()).or_insert(0);
        *n += 1;
        // the monitor keeps the first three witnesses of a signature; later ones only count
        let d = if *n <= 3 { detail() } else { Value::Null };
        self.mon.violation(sig, d);
    }
    fn sample(&mut self, trip: &'static str, v: impl FnOnce() -> Value) {
        if self.want_samples && self.sampled.len() < 5 && self.sampled.insert(trip) {
            self.mon.sample(v());
        }
    }
    fn flush(&mut self) {
        self.mon.evals(self.evals);
        self.evals = 0;
        for (k, v) in self.counts.drain() {
            self.mon.count(&k, v);
        }
    }
}

fn short(s: &str) -> String {
    if s.len() > 160 {
        let mut e = 160;
        while !s.is_char_boundary(e) {
            e -= 1;
        }
        format!("{}…(+{} bytes)", &s[..e], s.len() - e)
    } else {
        s.to_string()
    }
}

// ---------------------------------------------------------------------------------------------
// generators
// ---------------------------------------------------------------------------------------------

fn gen_port(rng: &mut Rng) -> u16 {
    match rng.below(10) {
        0 | 1 => *rng.pick(&PORTS),
        2 => rng.range(1, 1024) as u16,
        _ => rng.next_u64() as u16,
    }
}

fn v6_of_kind(rng: &mut Rng, kind: u64) -> (Ipv6Addr, u32) {
    let r = rng.next_u64();
    let r2 = rng.next_u64();
    let seg = |x: u64, i: u32| ((x >> (16 * i)) & 0xffff) as u16;
    match kind {
        0 => (Ipv6Addr::LOCALHOST, 0),
        1 => (Ipv6Addr::UNSPECIFIED, 0),
        2 => (Ipv4Addr::from(r as u32).to_ipv6_mapped(), 0),
        3 => (Ipv6Addr::new(0xfe80, 0, 0, 0, seg(r, 0), seg(r, 1), seg(r, 2), seg(r, 3)), 0),
        4 => (Ipv6Addr::new(0xfe80, 0, 0, 0, seg(r, 0), seg(r, 1), seg(r, 2), seg(r, 3)), 1 + (r2 % 64) as u32),
        5 => (Ipv6Addr::new(0xfd00 | (seg(r2, 0) & 0xff), seg(r2, 1), seg(r2, 2), seg(r2, 3), seg(r, 0), seg(r, 1), seg(r, 2), seg(r, 3)), 0),
        6 => (Ipv6Addr::new(0x2000 | (seg(r2, 0) & 0x1fff), seg(r2, 1), seg(r2, 2), seg(r2, 3), seg(r, 0), seg(r, 1), seg(r, 2), seg(r, 3)), 0),
        7 => (Ipv6Addr::new(0x2001, 0xdb8, 0, 0, 0, 0, 0, 1 + seg(r, 0) % 9), 0),
        8 => (Ipv6Addr::new(0xff02, 0, 0, 0, 0, 0, 0, 1 + seg(r, 0) % 3), 0),
        9 => (Ipv6Addr::new(0x2002, seg(r, 0), seg(r, 1), 0, 0, 0, 0, 1), 0),
        10 => (Ipv6Addr::new(0x2001, 0, seg(r, 0), seg(r, 1), 0, seg(r, 2), seg(r2, 0), seg(r2, 1)), 0),
        // sparse global: few non-zero groups (short textual forms)
        _ => {
            let mut s = [0u16; 8];
            s[0] = 0x2600 | (seg(r, 0) & 0xff);
            s[(1 + r2 % 7) as usize] = seg(r, 1);
            s[7] = seg(r, 2);
            (Ipv6Addr::from(s), 0)
        }
    }
}
const V6_KINDS: u64 = 12;

fn gen_addr(rng: &mut Rng) -> SocketAddr {
    match rng.weighted(&[46, 12, 10, 32]) {
        0 => SocketAddr::new(IpAddr::V4(Ipv4Addr::from(rng.next_u64() as u32)), gen_port(rng)),
        1 => {
            let mut o = [0u8; 4];
            for x in o.iter_mut() {
                *x = if rng.chance(0.6) { *rng.pick(&OCT) } else { rng.next_u64() as u8 };
            }
            SocketAddr::new(IpAddr::V4(Ipv4Addr::from(o)), gen_port(rng))
        }
        2 => {
            let r = rng.next_u64();
            let (b, c, d) = ((r >> 8) as u8, (r >> 16) as u8, (r >> 24) as u8);
            let ip = match rng.below(8) {
                0 => Ipv4Addr::new(10, b, c, d),
                1 => Ipv4Addr::new(192, 168, c, d),
                2 => Ipv4Addr::new(172, 16 + (b & 15), c, d),
                3 => Ipv4Addr::new(100, 64 + (b & 63), c, d),
                4 => Ipv4Addr::new(169, 254, c, d),
                5 => Ipv4Addr::new(224 + (b & 15), b, c, d),
                6 => Ipv4Addr::new(127, b, c, d),
                _ => Ipv4Addr::new(b, 0, 0, d),
            };
            SocketAddr::new(IpAddr::V4(ip), gen_port(rng))
        }
        _ => {
            let k = rng.below(V6_KINDS);
            let (ip, scope) = v6_of_kind(rng, k);
            SocketAddr::V6(SocketAddrV6::new(ip, gen_port(rng), 0, scope))
        }
    }
}

// ---------------------------------------------------------------------------------------------
// the reading an honest observer gives a rendering (used only to judge what *other* components
// report back as strings): text before " (" as a socket address, or /ip4|ip6/<ip>/tcp/<port>
// ---------------------------------------------------------------------------------------------

fn lenient(s: &str) -> Option<SocketAddr> {
    let head = s.split(" (").next().unwrap_or(s).trim();
    if let Ok(a) = head.parse::<SocketAddr>() {
        return Some(a);
    }
    let parts: Vec<&str> = head.split('/').filter(|p| !p.is_empty()).collect();
    if parts.len() >= 4 && (parts[0] == "ip4" || parts[0] == "ip6") {
        let ip: IpAddr = parts[1].parse().ok()?;
        let port: u16 = parts[3].parse().ok()?;
        return Some(SocketAddr::new(ip, port));
    }
    None
}

// ---------------------------------------------------------------------------------------------
// bulk trips for one address
// ---------------------------------------------------------------------------------------------

fn addrs_same(x: &[SocketAddr], y: &[SocketAddr]) -> bool {
    x.len() == y.len() && x.iter().zip(y).all(|(p, q)| same(p, q))
}

fn contact_same(b: &ContactEntry, ce: &ContactEntry) -> bool {
    let q = |c: &ContactEntry| c.quic_contact.as_ref().map(|q| q.direct_addresses.clone());
    b.peer_id == ce.peer_id
        && addrs_same(&b.addresses, &ce.addresses)
        && match (q(b), q(ce)) {
            (None, None) => true,
            (Some(x), Some(y)) => addrs_same(&x, &y),
            _ => false,
        }
}

enum Got {
    Same,
    Other(SocketAddr),
    Rejected(String),
    Panicked(String),
}

fn read_na(f: impl FnOnce() -> anyhow::Result<NetworkAddress>, want: &SocketAddr) -> Got {
    match vkit::catch(f) {
        Err(p) => Got::Panicked(p),
        Ok(Err(e)) => Got::Rejected(short(&e.to_string())),
        Ok(Ok(b)) => {
            if same(&b.socket_addr, want) {
                Got::Same
            } else {
                Got::Other(b.socket_addr)
            }
        }
    }
}

/// judge a reader that was handed the library's own rendering of `a`
fn judge_own(l: &mut Local, rule: &str, cls: &str, trip: &'static str, a: &SocketAddr, text: &str, got: Got) {
    l.eval();
    l.case(a, trip);
    match got {
        Got::Same => l.count(&format!("trip.{trip}.same")),
        Got::Rejected(e) => {
            l.count(&format!("trip.{trip}.rejected"));
            l.vio(&format!("{rule}/{cls}"), || json!({"address": a.to_string(), "library_rendering": short(text), "reader_result": format!("Err({e})")}));
        }
        Got::Other(b) => {
            l.count(&format!("trip.{trip}.different"));
            l.vio(&format!("{rule}-different/{cls}"), || json!({"address": a.to_string(), "library_rendering": short(text), "reader_result": b.to_string()}));
        }
        Got::Panicked(p) => {
            l.count(&format!("trip.{trip}.panic"));
            l.vio(&format!("{rule}-panic/{cls}"), || json!({"address": a.to_string(), "library_rendering": short(text), "panic": short(&p)}));
        }
    }
}

/// judge a reader that was handed a string which denotes `a` or nothing
fn judge_malformed(l: &mut Local, mutation: &str, a: &SocketAddr, text: &str, reader: &str, got: Got) {
    l.eval();
    match got {
        Got::Same => l.count(&format!("malformed.{mutation}.read-as-original")),
        Got::Rejected(_) => l.count(&format!("malformed.{mutation}.rejected")),
        Got::Other(b) => {
            l.count(&format!("malformed.{mutation}.different"));
            l.vio(&format!("malformed/{mutation}/different-address"), || json!({"derived_from": a.to_string(), "input": short(text), "reader": reader, "result": b.to_string()}));
        }
        Got::Panicked(p) => {
            l.count(&format!("malformed.{mutation}.panic"));
            l.vio(&format!("malformed/{mutation}/panic"), || json!({"derived_from": a.to_string(), "input": short(text), "reader": reader, "panic": short(&p)}));
        }
    }
}

fn bulk_one(l: &mut Local, rng: &mut Rng, a: SocketAddr, heavy: bool) {
    let cls = class(&a);
    let family = fam(&a);
    l.count(&format!("addresses.{}", flags(&a).0));

    let na = match vkit::catch(|| NetworkAddress::new(a)) {
        Ok(n) => n,
        Err(p) => {
            l.eval();
            l.vio(&format!("construct-panic/{cls}"), || json!({"address": a.to_string(), "panic": short(&p)}));
            return;
        }
    };
    l.eval();
    if !same(&na.socket_addr, &a) {
        l.vio(&format!("construct-different/{cls}"), || json!({"address": a.to_string(), "stored": na.socket_addr.to_string()}));
    }

    // --- 1. four-word form produced by NetworkAddress -> from_four_words / FromStr
    let words = na.four_words().map(|s| s.to_string());
    match &words {
        None => l.count(&format!("fourwords.none.{}", flags(&a).0)),
        Some(w) => {
            let got = read_na(|| NetworkAddress::from_four_words(w), &a);
            let canonical_ok = matches!(got, Got::Same);
            if matches!(got, Got::Same) {
                l.sample("four-words", || json!({"trip": "NetworkAddress::new -> four_words -> from_four_words", "address": a.to_string(), "words": w, "result": "same"}));
            }
            judge_own(l, "four-words/roundtrip-fails", &cls, "four-words", &a, w, got);
            // FromStr falls through to the same decoder: reported only when it answers differently
            let got2 = read_na(|| w.parse::<NetworkAddress>(), &a);
            if matches!(got2, Got::Same) == canonical_ok {
                l.eval();
                l.case(&a, "four-words-fromstr");
                l.count("trip.four-words-fromstr.agrees-with-from_four_words");
            } else {
                judge_own(l, "four-words-fromstr/roundtrip-fails", &cls, "four-words-fromstr", &a, w, got2);
            }

            // separator / case variants: the same address or an error, never another address
            if heavy && canonical_ok {
                let toks: Vec<&str> = w.split('-').collect();
                let variants: [(&str, String); 9] = [
                    ("spaces", toks.join(" ")),
                    ("dots", toks.join(".")),
                    ("upper", w.to_uppercase()),
                    ("title", toks.iter().map(|t| { let mut c = t.chars(); c.next().map(|f| f.to_uppercase().collect::<String>() + c.as_str()).unwrap_or_default() }).collect::<Vec<_>>().join("-")),
                    ("mixed-sep", toks.iter().enumerate().map(|(i, t)| if i == 0 { t.to_string() } else if i % 2 == 1 { format!("-{t}") } else { format!(" {t}") }).collect::<String>()),
                    ("double-hyphen", w.replacen('-', "--", 1)),
                    ("pad-space", format!(" {w} ")),
                    ("trailing-newline", format!("{w}\n")),
                    ("trailing-hyphen", format!("{w}-")),
                ];
                for (name, v) in variants.iter() {
                    let got = read_na(|| NetworkAddress::from_four_words(v), &a);
                    judge_malformed(l, &format!("words-{name}"), &a, v, "from_four_words", got);
                    let got = read_na(|| v.parse::<NetworkAddress>(), &a);
                    judge_malformed(l, &format!("words-{name}"), &a, v, "from_str", got);
                }
            }
        }
    }

    // --- 2. Display -> FromStr
    let shown = na.to_string();
    let got = read_na(|| shown.parse::<NetworkAddress>(), &a);
    if l.want_samples {
        let r = match &got {
            Got::Same => "same".to_string(),
            Got::Other(b) => b.to_string(),
            Got::Rejected(e) => format!("Err({e})"),
            Got::Panicked(p) => format!("panic {p}"),
        };
        l.sample("display", || json!({"trip": "Display -> FromStr", "address": a.to_string(), "rendering": shown, "result": r}));
    }
    judge_own(l, "display-parse", family, "display", &a, &shown, got);

    // --- 3. the plain socket text the library also emits (local_dht_node, connect_peer registry)
    let plain = a.to_string();
    let got = read_na(|| plain.parse::<NetworkAddress>(), &a);
    judge_own(l, "plain-parse", family, "plain", &a, &plain, got);

    // --- 4. /ip4|ip6/<ip>/tcp/<port> (what the DHT manager renders before parsing it back)
    let scoped = matches!(a, SocketAddr::V6(v6) if v6.scope_id() != 0);
    if scoped {
        l.count("skipped.multiaddr-scoped");
    } else {
        let ma = format!("/{}/{}/tcp/{}", if a.is_ipv4() { "ip4" } else { "ip6" }, a.ip(), a.port());
        let got = read_na(|| ma.parse::<NetworkAddress>(), &a);
        judge_own(l, "multiaddr-parse", family, "multiaddr", &a, &ma, got);
    }

    // --- 5. serde
    {
        l.eval();
        l.case(&a, "serde-json");
        let r = vkit::catch(|| serde_json::to_string(&na).ok().and_then(|s| serde_json::from_str::<NetworkAddress>(&s).ok().map(|b| (s, b))));
        match r {
            Ok(Some((s, b))) if same(&b.socket_addr, &a) && b.four_words == na.four_words => {
                l.count("trip.serde-json.same");
                l.sample("serde-json", || json!({"trip": "serde_json", "address": a.to_string(), "encoded": short(&s), "result": "same"}));
            }
            Ok(Some((s, b))) => l.vio(&format!("serde-json-different/{cls}"), || json!({"address": a.to_string(), "encoded": short(&s), "decoded": format!("{b:?}")})),
            Ok(None) => l.vio(&format!("serde-json/{cls}"), || json!({"address": a.to_string(), "what": "encode or decode failed"})),
            Err(p) => l.vio(&format!("serde-json-panic/{cls}"), || json!({"address": a.to_string(), "panic": short(&p)})),
        }
        l.eval();
        l.case(&a, "serde-postcard");
        let r = vkit::catch(|| postcard::to_stdvec(&na).ok().and_then(|v| postcard::from_bytes::<NetworkAddress>(&v).ok().map(|b| (v, b))));
        match r {
            Ok(Some((_, b))) if same(&b.socket_addr, &a) && b.four_words == na.four_words => l.count("trip.serde-postcard.same"),
            Ok(Some((v, b))) => l.vio(&format!("serde-postcard-different/{cls}"), || json!({"address": a.to_string(), "encoded_hex": vkit::hex(&v[..v.len().min(48)]), "decoded": format!("{b:?}")})),
            Ok(None) => l.vio(&format!("serde-postcard/{cls}"), || json!({"address": a.to_string(), "what": "encode or decode failed"})),
            Err(p) => l.vio(&format!("serde-postcard-panic/{cls}"), || json!({"address": a.to_string(), "panic": short(&p)})),
        }
    }

    // --- 6. bootstrap::WordEncoder (third four-word component)
    {
        let enc = saorsa_core::bootstrap::WordEncoder::new();
        match vkit::catch(|| enc.encode_socket_addr(&a)) {
            Err(p) => {
                l.eval();
                l.vio(&format!("bootstrap-words/encode-panic/{cls}"), || json!({"address": a.to_string(), "panic": short(&p)}));
            }
            Ok(Err(_)) => l.count(&format!("bootstrap-words.none.{}", flags(&a).0)),
            Ok(Ok(fw)) => {
                let text = fw.0.clone();
                let got = match vkit::catch(|| enc.decode_to_socket_addr(&fw)) {
                    Err(p) => Got::Panicked(p),
                    Ok(Err(e)) => Got::Rejected(short(&e.to_string())),
                    Ok(Ok(b)) if same(&b, &a) => Got::Same,
                    Ok(Ok(b)) => Got::Other(b),
                };
                judge_own(l, "bootstrap-words/roundtrip-fails", &cls, "bootstrap-words", &a, &text, got);
                // same words handed to the other component's decoder (only when the texts differ;
                // identical texts make this the trip judged above)
                if let Some(w) = &words {
                    if *w != text {
                        l.count("cross-words.bootstrap-text-differs-from-networkaddress");
                        let own_ok = matches!(read_na(|| NetworkAddress::from_four_words(w), &a), Got::Same);
                        if own_ok {
                            let got = read_na(|| NetworkAddress::from_four_words(&text), &a);
                            judge_own(l, "cross-words/bootstrap-to-networkaddress", family, "cross-words", &a, &text, got);
                        }
                    }
                }
            }
        }
    }

    // --- 7. identity::four_words (IPv4 + port as six bytes)
    if let SocketAddr::V4(v4) = a {
        use saorsa_core::identity::four_words::{FourWordAddress, WordEncoder};
        let mut six = [0u8; 6];
        six[..4].copy_from_slice(&v4.ip().octets());
        six[4..].copy_from_slice(&v4.port().to_be_bytes());
        l.eval();
        l.case(&a, "identity-words");
        match vkit::catch(|| WordEncoder::encode(&six)) {
            Err(p) => l.vio(&format!("identity-words/encode-panic/{cls}"), || json!({"address": a.to_string(), "panic": short(&p)})),
            Ok(Err(_)) => l.count("identity-words.none"),
            Ok(Ok(fwa)) => {
                let text = fwa.as_str().to_string();
                match vkit::catch(|| WordEncoder::decode(&fwa)) {
                    Err(p) => l.vio(&format!("identity-words/decode-panic/{cls}"), || json!({"address": a.to_string(), "words": text, "panic": short(&p)})),
                    Ok(Err(e)) => l.vio(&format!("identity-words/roundtrip-fails/{cls}"), || json!({"address": a.to_string(), "words": text, "err": short(&e.to_string())})),
                    Ok(Ok(b)) if b.as_slice() == six => l.count("trip.identity-words.same"),
                    Ok(Ok(b)) => l.vio(&format!("identity-words/roundtrip-fails-different/{cls}"), || json!({"address": a.to_string(), "words": text, "decoded_bytes": vkit::hex(&b)})),
                }
                l.eval();
                match vkit::catch(|| fwa.to_hash_prefix()) {
                    Ok(Ok(b)) if b == six => {}
                    Ok(Ok(b)) => l.vio(&format!("identity-words/hash-prefix-different/{cls}"), || json!({"address": a.to_string(), "words": text, "prefix": vkit::hex(&b)})),
                    Ok(Err(e)) => l.vio(&format!("identity-words/hash-prefix-fails/{cls}"), || json!({"address": a.to_string(), "words": text, "err": short(&e.to_string())})),
                    Err(p) => l.vio(&format!("identity-words/hash-prefix-panic/{cls}"), || json!({"address": a.to_string(), "words": text, "panic": short(&p)})),
                }
                l.eval();
                match vkit::catch(|| FourWordAddress::parse_str(&text)) {
                    Ok(Ok(p)) if p == fwa => {}
                    Ok(Ok(p)) => l.vio(&format!("identity-words/parse-str-different/{cls}"), || json!({"words": text, "parsed": p.as_str()})),
                    Ok(Err(e)) => l.vio(&format!("identity-words/parse-str-rejects-own/{cls}"), || json!({"address": a.to_string(), "words": text, "err": short(&e.to_string())})),
                    Err(p) => l.vio(&format!("identity-words/parse-str-panic/{cls}"), || json!({"words": text, "panic": short(&p)})),
                }
                l.eval();
                let ws = fwa.words();
                if ws.len() == 4 {
                    let arr = [ws[0].clone(), ws[1].clone(), ws[2].clone(), ws[3].clone()];
                    match vkit::catch(|| saorsa_core::fwid::fw_check(arr.clone())) {
                        Ok(true) => {}
                        Ok(false) => l.vio(&format!("fwid/fw_check-rejects-own-words/{cls}"), || json!({"address": a.to_string(), "words": text})),
                        Err(p) => l.vio(&format!("fwid/fw_check-panic/{cls}"), || json!({"words": text, "panic": short(&p)})),
                    }
                } else {
                    l.vio(&format!("identity-words/not-four-words/{cls}"), || json!({"address": a.to_string(), "words": text}));
                }
                // words of this component read by NetworkAddress (only when the texts differ)
                if let Some(w) = &words {
                    if *w != text {
                        l.count("cross-words.identity-text-differs-from-networkaddress");
                        let own_ok = matches!(read_na(|| NetworkAddress::from_four_words(w), &a), Got::Same);
                        if own_ok {
                            let got = read_na(|| NetworkAddress::from_four_words(&text), &a);
                            judge_own(l, "cross-words/identity-to-networkaddress", family, "cross-words", &a, &text, got);
                        }
                    }
                }
            }
        }
    }

    // --- 8. bootstrap contact records carry typed addresses: serde only
    if heavy {
        let other = gen_addr(rng);
        let mut ce = ContactEntry::new(format!("peer-{:016x}", rng.next_u64()), vec![a, other]);
        if rng.chance(0.5) {
            ce.quic_contact = Some(QuicContactInfo::new(vec![other, a]));
        }
        l.eval();
        l.case(&a, "contact-json");
        let r = vkit::catch(|| serde_json::to_string(&ce).ok().and_then(|s| serde_json::from_str::<ContactEntry>(&s).ok()));
        match r {
            Ok(Some(b)) if contact_same(&b, &ce) => l.count("trip.contact-json.same"),
            Ok(Some(b)) => l.vio(&format!("contact-serde-json-different/{cls}"), || json!({"addresses": ce.addresses.iter().map(|x| x.to_string()).collect::<Vec<_>>(), "decoded": b.addresses.iter().map(|x| x.to_string()).collect::<Vec<_>>()})),
            Ok(None) => l.vio(&format!("contact-serde-json/{cls}"), || json!({"addresses": ce.addresses.iter().map(|x| x.to_string()).collect::<Vec<_>>(), "what": "encode or decode failed"})),
            Err(p) => l.vio(&format!("contact-serde-json-panic/{cls}"), || json!({"panic": short(&p)})),
        }
        l.eval();
        l.case(&a, "contact-postcard");
        let r = vkit::catch(|| postcard::to_stdvec(&ce).ok().and_then(|v| postcard::from_bytes::<ContactEntry>(&v).ok()));
        match r {
            Ok(Some(b)) if contact_same(&b, &ce) => l.count("trip.contact-postcard.same"),
            Ok(Some(b)) => l.vio(&format!("contact-serde-postcard-different/{cls}"), || json!({"addresses": ce.addresses.iter().map(|x| x.to_string()).collect::<Vec<_>>(), "decoded": b.addresses.iter().map(|x| x.to_string()).collect::<Vec<_>>()})),
            Ok(None) => l.vio(&format!("contact-serde-postcard/{cls}"), || json!({"addresses": ce.addresses.iter().map(|x| x.to_string()).collect::<Vec<_>>(), "what": "encode or decode failed"})),
            Err(p) => l.vio(&format!("contact-serde-postcard-panic/{cls}"), || json!({"panic": short(&p)})),
        }
    }

    // --- 9. strings derived from the renderings that denote `a` or nothing
    if heavy {
        let ip = a.ip();
        let ipt = match a {
            SocketAddr::V4(v) => v.ip().to_string(),
            SocketAddr::V6(v) => format!("[{}]", v.ip()),
        };
        let tag = if a.is_ipv4() { "ip4" } else { "ip6" };
        let wrong_tag = if a.is_ipv4() { "ip6" } else { "ip4" };
        let garbage = [" x", "x", " (", " ()", "/", "#frag", "\n", "\0", " (not-a-real-suffix) z", " )", "\t(", "%"];
        let g = *rng.pick(&garbage);
        let mut muts: Vec<(&'static str, String)> = vec![
            ("trailing-garbage", format!("{plain}{g}")),
            ("rendering-trailing-garbage", format!("{shown}{g}")),
            ("leading-garbage", format!("{}{plain}", rng.pick(&["x", "(", "/", " /", "ip:", "@"]))),
            ("port-overflow", format!("{ipt}:{}", rng.pick(&["65536", "99999", "4294967296", "-1", "", "+80x", "0x50", "８０"]))),
            ("no-port", ipt.clone()),
            ("multiaddr-port-overflow", format!("/{tag}/{ip}/tcp/{}", rng.pick(&["65536", "70000", "-1", "", "1e3"]))),
            ("multiaddr-truncated", format!("/{tag}/{ip}/tcp")),
            ("multiaddr-empty-ip", format!("/{tag}//tcp/{}", a.port())),
            ("multiaddr-wrong-tag", format!("/{wrong_tag}/{ip}/tcp/{}", a.port())),
            ("multiaddr-udp", format!("/{tag}/{ip}/udp/{}", a.port())),
            ("multiaddr-trailing", format!("/{tag}/{ip}/tcp/{}/p2p/abcdef", a.port())),
        ];
        if let Some(cut) = shown.find(" (") {
            // keep the whole socket text, cut inside the suffix
            let end = rng.urange(cut + 1, shown.len().saturating_sub(1).max(cut + 1));
            if shown.is_char_boundary(end) {
                muts.push(("rendering-truncated-suffix", shown[..end].to_string()));
            }
        }
        if let SocketAddr::V4(v4) = a {
            let o = v4.ip().octets();
            muts.push(("octet-overflow", format!("{}.{}.{}.{}:{}", 256 + o[0] as u32, o[1], o[2], o[3], a.port())));
            muts.push(("five-octets", format!("{}.{}.{}.{}.{}:{}", o[0], o[1], o[2], o[3], o[0], a.port())));
            if let Some(w) = &words {
                let toks: Vec<&str> = w.split('-').collect();
                if toks.len() == 4 {
                    muts.push(("words-three", toks[..3].join("-")));
                    muts.push(("words-five", format!("{w}-{}", toks[rng.usize_below(4)])));
                    muts.push(("words-empty-slot", format!("{}--{}-{}", toks[0], toks[2], toks[3])));
                    let mut t: Vec<String> = toks.iter().map(|s| s.to_string()).collect();
                    t[rng.usize_below(4)] = rng.pick(&["zzzzqq", "0", "127", "ünï", "a b", ""]).to_string();
                    muts.push(("words-foreign-token", t.join("-")));
                }
            }
        }
        for (name, s) in muts.iter() {
            let got = read_na(|| s.parse::<NetworkAddress>(), &a);
            judge_malformed(l, name, &a, s, "from_str", got);
            if name.starts_with("words-") {
                let got = read_na(|| NetworkAddress::from_four_words(s), &a);
                judge_malformed(l, name, &a, s, "from_four_words", got);
            }
        }
    }
}

/// strings with no address behind them: only "no panic", and anything accepted must be explainable
fn random_strings(l: &mut Local, rng: &mut Rng, dict: &[String]) {
    let kind = rng.below(7);
    let s: String = match kind {
        0 => String::new(),
        1 => {
            let n = rng.urange(1, 40);
            (0..n).map(|_| (0x20 + rng.below(0x5f) as u8) as char).collect()
        }
        2 => {
            let n = rng.urange(1, 64);
            String::from_utf8_lossy(&rng.bytes(n)).into_owned()
        }
        3 => {
            let n = *rng.pick(&[1usize, 2, 3, 5, 7, 8, 10, 11, 13, 40]);
            (0..n).map(|_| rng.pick(dict).as_str()).collect::<Vec<_>>().join(*rng.pick(&["-", " ", "."]))
        }
        4 => std::iter::repeat(*rng.pick(&["-", "a", " ", "a-", "/ip4/", ":", "[", "("])).take(rng.urange(100, 20000)).collect(),
        5 => {
            let n = *rng.pick(&[4usize, 6, 9, 12]);
            (0..n).map(|_| rng.pick(dict).as_str()).collect::<Vec<_>>().join("-")
        }
        _ => format!("{}:{}", rng.pick(&["localhost", "example.com", "[::1", "::1]", "1.2.3", "1..2.3", "01.02.03.004", "0x7f.0.0.1", "2130706433"]), rng.below(70000)),
    };
    for reader in ["from_str", "from_four_words"] {
        l.eval();
        let r = if reader == "from_str" { vkit::catch(|| s.parse::<NetworkAddress>()) } else { vkit::catch(|| NetworkAddress::from_four_words(&s)) };
        match r {
            Err(p) => {
                l.count("random.panic");
                let kname = ["empty", "printable", "bytes", "dictionary-words-other-count", "long-repeat", "dictionary-words-4-6-9-12", "hostlike"][kind as usize];
                let (msg, loc) = p.rsplit_once(" @ ").unwrap_or((p.as_str(), ""));
                let loc = loc.rsplit_once("/src/").map(|(c, f)| format!("{}/src/{f}", c.rsplit('/').next().unwrap_or(""))).unwrap_or_else(|| loc.to_string());
                l.vio(&format!("malformed/random-{kname}/panic"), || json!({"input": short(&s), "reader": reader, "panic": short(msg), "at": loc}));
            }
            Ok(Err(_)) => l.count(&format!("random.kind{kind}.rejected")),
            Ok(Ok(b)) => {
                // explainable = the text is a socket address, or the words the library itself
                // would produce for the address it answered
                let toks: Vec<String> = s.split(|c: char| c == '-' || c == ' ' || c == '.').filter(|t| !t.is_empty()).map(|t| t.to_lowercase()).collect();
                let canon: Vec<String> = b.four_words().map(|w| w.split('-').map(|t| t.to_string()).collect()).unwrap_or_default();
                let explained = s.trim().parse::<SocketAddr>().map(|x| x == b.socket_addr).unwrap_or(false) || (!canon.is_empty() && canon == toks);
                if explained {
                    l.count(&format!("random.kind{kind}.accepted-canonical"));
                } else {
                    // a word sequence that is not the encoding of what it decodes to: the IPv6
                    // word codec is many-to-one, which the property does not speak about
                    l.count(&format!("random.kind{kind}.accepted-noncanonical"));
                }
            }
        }
    }
}

// ---------------------------------------------------------------------------------------------
// cross-component: routing-table admission
// ---------------------------------------------------------------------------------------------

fn ninfo(id: [u8; 32], address: String) -> NodeInfo {
    NodeInfo { id: NodeId::from_bytes(id), address, last_seen: SystemTime::now(), capacity: NodeCapacity::default() }
}

struct GateObs {
    first_ok: bool,
    second_ok: bool,
    ip_slots: usize,
    region_slots: usize,
    first_err: String,
}

async fn admit_twice(rng: &mut Rng, address: &str, v4: bool) -> Option<GateObs> {
    let mut eng = DhtCoreEngine::verif_new_log_only(NodeId::from_bytes(rng.arr32())).ok()?;
    let r1 = eng.add_node(ninfo(rng.arr32(), address.to_string())).await;
    let st = eng.verif_ip_diversity_enforcer().read().await.get_diversity_stats();
    let ip_slots = if v4 { st.total_ipv4_32 } else { st.total_64_subnets };
    let region_slots: usize = eng.verif_region_counts().await.iter().map(|(_, c)| *c).sum();
    let r2 = eng.add_node(ninfo(rng.arr32(), address.to_string())).await;
    Some(GateObs { first_ok: r1.is_ok(), second_ok: r2.is_ok(), ip_slots, region_slots, first_err: r1.err().map(|e| short(&e.to_string())).unwrap_or_default() })
}

async fn cross_add_node(l: &mut Local<'_>, rng: &mut Rng, a: SocketAddr) {
    let family = fam(&a);
    let plain = a.to_string();
    let rendered = NetworkAddress::from(a).to_string();
    if rendered == plain {
        l.count("skipped.add_node.rendering-has-no-suffix");
        return;
    }
    let (Some(ctl), Some(tst)) = (admit_twice(rng, &plain, a.is_ipv4()).await, admit_twice(rng, &rendered, a.is_ipv4()).await) else {
        l.count("skipped.add_node.engine-construction-failed");
        return;
    };
    if !ctl.first_ok || ctl.ip_slots == 0 || ctl.region_slots == 0 {
        // the plain text itself is not gated (or refused): nothing to compare against
        l.count("skipped.add_node.control-not-gated");
        return;
    }
    l.eval();
    l.case(&a, "x-add_node");
    l.count("cross.add_node.judged");
    if !tst.first_ok {
        l.vio(&format!("cross/add_node-rejects-rendering/{family}"), || json!({"address": plain, "rendering": rendered, "err": tst.first_err}));
        return;
    }
    let counters_skipped = tst.ip_slots == 0 || tst.region_slots == 0;
    let cap_skipped = !ctl.second_ok && tst.second_ok;
    if counters_skipped || cap_skipped {
        l.count("cross.add_node.gates-skipped");
        l.vio(&format!("cross/add_node-gates-skipped/{family}"), || {
            json!({
                "address": plain, "NodeInfo.address handed to add_node": rendered,
                "control (plain ip:port)": {"ip_slots_after_first": ctl.ip_slots, "region_slots_after_first": ctl.region_slots, "second_node_same_ip_admitted": ctl.second_ok},
                "rendering": {"ip_slots_after_first": tst.ip_slots, "region_slots_after_first": tst.region_slots, "second_node_same_ip_admitted": tst.second_ok},
            })
        });
    } else {
        l.count("cross.add_node.gates-applied");
    }
    l.sample("x-add_node", || json!({"trip": "NetworkAddress::to_string -> DhtCoreEngine::add_node", "address": plain, "rendering": rendered,
        "control_ip_slots": ctl.ip_slots, "rendering_ip_slots": tst.ip_slots, "control_second_admitted": ctl.second_ok, "rendering_second_admitted": tst.second_ok}));
}

// ---------------------------------------------------------------------------------------------
// cross-component: transport registry (accept path stores the rendering)
// ---------------------------------------------------------------------------------------------

struct RecLink {
    dialled: parking_lot::Mutex<Vec<SocketAddr>>,
}

#[async_trait]
impl VerifLink for RecLink {
    async fn connect(&self, _from: &str, addr: SocketAddr) -> P2pResult<String> {
        self.dialled.lock().push(addr);
        Ok(hex::encode(blake3::hash(addr.to_string().as_bytes()).as_bytes()))
    }
    async fn send(&self, _from: &str, _to: &str, _frame: Vec<u8>) -> P2pResult<()> {
        Ok(())
    }
}

async fn cross_transport(l: &mut Local<'_>, rng: &mut Rng, n: usize) {
    let link = Arc::new(RecLink { dialled: parking_lot::Mutex::new(Vec::new()) });
    let dynlink: Arc<dyn VerifLink> = link.clone();
    let listen: SocketAddr = "10.250.0.1:9000".parse().unwrap_or_else(|_| SocketAddr::from(([10, 250, 0, 1], 9000)));
    let t = TransportHandle::new_for_verif("local-node".to_string(), rng.arr32(), listen, dynlink, Duration::from_secs(1), 64);
    let mut seen: HashSet<SocketAddr> = HashSet::new();
    let mut inbound: Vec<(String, SocketAddr)> = Vec::new();
    for i in 0..n {
        let a = gen_addr(rng);
        if a.ip().is_unspecified() || !seen.insert(a) {
            continue;
        }
        let pid = format!("inbound-{i}");
        t.verif_accept(&pid, a).await;
        inbound.push((pid, a));
    }
    for (pid, a) in inbound.iter() {
        let family = fam(a);
        let Some(info) = t.peer_info(pid).await else {
            l.count("skipped.transport.inbound-not-registered");
            continue;
        };
        let stored = info.addresses.first().cloned().unwrap_or_default();
        // (a) registry lookup by the peer's socket address
        l.eval();
        l.case(a, "x-get_peer_id");
        let got = t.get_peer_id_by_address(&a.to_string()).await;
        match &got {
            Some(p) if p == pid => l.count("cross.get_peer_id_by_address.found"),
            Some(p) => {
                let p = p.clone();
                l.vio(&format!("cross/get_peer_id_by_address/wrong-peer/{family}"), || json!({"address": a.to_string(), "registered_as": stored, "expected": pid, "got": p}));
            }
            None => {
                l.count("cross.get_peer_id_by_address.not-found");
                l.vio(&format!("cross/get_peer_id_by_address/inbound-not-found/{family}"), || json!({"inbound_peer": pid, "remote_socket": a.to_string(), "registry_text (register_new_peer)": stored, "get_peer_id_by_address(remote_socket)": "None"}));
            }
        }
        l.sample("x-get_peer_id", || json!({"trip": "accept loop -> register_new_peer -> get_peer_id_by_address", "remote_socket": a.to_string(), "registry_text": stored, "lookup": format!("{got:?}")}));
        // (b) the registry's text handed to the dialler
        l.eval();
        l.case(a, "x-connect_peer");
        let before = link.dialled.lock().len();
        let r = t.connect_peer(&stored).await;
        let dialled: Vec<SocketAddr> = link.dialled.lock()[before..].to_vec();
        match r {
            Ok(_) if dialled.len() == 1 && same(&dialled[0], a) => l.count("cross.connect_peer.dialled-same"),
            Ok(_) => l.vio(&format!("cross/connect_peer-dials-different/{family}"), || json!({"registry_text": stored, "meant": a.to_string(), "dialled": dialled.iter().map(|d| d.to_string()).collect::<Vec<_>>()})),
            Err(e) => {
                l.count("cross.connect_peer.rejected");
                l.vio(&format!("cross/connect_peer-rejects-registry-text/{family}"), || json!({"registry_text (PeerInfo.addresses[0] of an inbound peer)": stored, "meant": a.to_string(), "connect_peer": format!("Err({})", short(&e.to_string()))}));
            }
        }
    }
}

// ---------------------------------------------------------------------------------------------
// cross-component: small in-memory network of real nodes
// ---------------------------------------------------------------------------------------------

async fn memnet_scenario(mon: &Monitor, l: &mut Local<'_>, rng: &mut Rng, round: u64) {
    let hub = Hub::new(rng.next_u64());
    let cfg = NodeCfg::default();
    let oct = |rng: &mut Rng| rng.range(1, 250) as u8;
    let b_addr = SocketAddr::from(([10, oct(rng), oct(rng), oct(rng)], rng.range(1024, 65000) as u16));
    let c_addr = SocketAddr::from(([11, oct(rng), oct(rng), oct(rng)], rng.range(1024, 65000) as u16));
    // the dialling peers' address class varies by round: IPv4, IPv4-mapped IPv6, global / ULA IPv6
    let v4 = [12, oct(rng), oct(rng), oct(rng)];
    let (a_ip, fam): (std::net::IpAddr, &'static str) = match round % 4 {
        0 | 2 => (std::net::IpAddr::from(v4), "ipv4"),
        1 => (std::net::IpAddr::V6(std::net::Ipv4Addr::from(v4).to_ipv6_mapped()), "ipv6-mapped"),
        _ => {
            if rng.chance(0.5) {
                (std::net::IpAddr::V6(std::net::Ipv6Addr::new(0x2001, 0xdb8, rng.range(0, 0xffff) as u16, 0, 0, 0, 0, rng.range(1, 0xffff) as u16)), "ipv6-global")
            } else {
                (std::net::IpAddr::V6(std::net::Ipv6Addr::new(0xfd00, rng.range(0, 0xffff) as u16, 0, 0, 0, 0, 0, rng.range(1, 0xffff) as u16)), "ipv6-ula")
            }
        }
    };
    let p0 = rng.range(1024, 60000) as u16;
    let a_addrs: Vec<SocketAddr> = (0..3).map(|i| SocketAddr::new(a_ip, p0 + i)).collect();
    l.count(&format!("memnet.rounds.{fam}"));

    let mut spawn = Vec::new();
    for addr in [b_addr, c_addr].iter().chain(a_addrs.iter()) {
        match tokio::time::timeout(Duration::from_secs(20), spawn_node(&hub, rng.arr32(), *addr, &cfg)).await {
            Ok(Ok(n)) => spawn.push(n),
            Ok(Err(e)) => {
                l.count("memnet.skipped.spawn-failed");
                mon.extra("memnet_problem", json!(format!("spawn_node failed: {e}")));
                return;
            }
            Err(_) => {
                l.count("memnet.skipped.spawn-timeout");
                mon.extra("memnet_problem", json!("spawn_node timed out"));
                return;
            }
        }
    }
    let b = &spawn[0];
    let c = &spawn[1];
    let a_nodes: Vec<&SimNode> = spawn[2..].iter().collect();

    // A_i dial B: B's accept path stores A_i's address rendering
    for a in a_nodes.iter() {
        match tokio::time::timeout(Duration::from_secs(10), a.mgr.connect_to_peer(&b.addr.to_string())).await {
            Ok(Ok(_)) => {}
            other => {
                l.count("memnet.skipped.connect-failed");
                mon.extra("memnet_problem", json!(format!("A->B connect failed: {:?}", other.map(|r| r.map_err(|e| e.to_string())))));
                return;
            }
        }
    }
    memnet::settle(Duration::from_millis(200)).await;
    l.count("memnet.rounds");

    let mut in_table = 0usize;
    let routing = b.mgr.verif_routing_snapshot().await;
    let dht_peers = b.mgr.verif_dht_peers().await;
    for a in a_nodes.iter() {
        let Some(info) = b.transport.peer_info(&a.tid_hex).await else {
            l.count("memnet.skipped.inbound-not-registered");
            continue;
        };
        let stored = info.addresses.first().cloned().unwrap_or_default();
        // registry lookup
        l.eval();
        l.case(&a.addr, "net-get_peer_id");
        match b.transport.get_peer_id_by_address(&a.addr.to_string()).await {
            Some(p) if p == a.tid_hex => l.count("memnet.get_peer_id_by_address.found"),
            Some(p) => l.vio(&format!("cross/get_peer_id_by_address/wrong-peer/{fam}"), || json!({"via": "memnet", "address": a.addr.to_string(), "registered_as": stored, "expected": a.tid_hex, "got": p})),
            None => {
                l.count("memnet.get_peer_id_by_address.not-found");
                l.vio(&format!("cross/get_peer_id_by_address/inbound-not-found/{fam}"), || json!({"via": "memnet: A dialled B, lookup on B", "remote_socket": a.addr.to_string(), "registry_text (register_new_peer)": stored, "get_peer_id_by_address(remote_socket)": "None"}));
            }
        }
        // what the DHT manager understood
        l.eval();
        l.case(&a.addr, "net-dht-peer");
        match dht_peers.iter().find(|p| p.0 == a.tid_hex) {
            None => l.count("memnet.skipped.dht-peer-untracked"),
            Some((_, _, _, addrs)) => {
                let read: Vec<Option<SocketAddr>> = addrs.iter().map(|s| lenient(s)).collect();
                if read.iter().any(|x| *x == Some(a.addr)) {
                    l.count("memnet.dht-peer.address-same");
                } else if addrs.is_empty() {
                    l.vio(&format!("cross/dht-peer-address-lost/{fam}"), || json!({"peer_socket": a.addr.to_string(), "registry_text": stored, "dht_peer_addresses": addrs}));
                } else {
                    l.vio(&format!("cross/dht-peer-address-different/{fam}"), || json!({"peer_socket": a.addr.to_string(), "registry_text": stored, "dht_peer_addresses": addrs}));
                }
            }
        }
        // routing table entry
        if let Some((_, text)) = routing.iter().find(|(id, _)| *id == a.pos) {
            in_table += 1;
            l.eval();
            l.case(&a.addr, "net-routing-entry");
            if lenient(text) == Some(a.addr) {
                l.count("memnet.routing-entry.address-same");
            } else {
                l.vio(&format!("cross/routing-entry-address-different/{fam}"), || json!({"peer_socket": a.addr.to_string(), "routing_table_text": text}));
            }
        }
    }
    // were the admission gates applied to the three same-IP peers? control: the same three
    // socket texts handed to a bare engine
    let mut ctl_ok = 0usize;
    if fam != "ipv4" {
        // (the same-IP admission comparison below is built for the IPv4 per-address cap)
    } else if let Ok(mut eng) = DhtCoreEngine::verif_new_log_only(NodeId::from_bytes(rng.arr32())) {
        for a in a_addrs.iter() {
            if eng.add_node(ninfo(rng.arr32(), a.to_string())).await.is_ok() {
                ctl_ok += 1;
            }
        }
        l.eval();
        l.case(&a_addrs[0], "net-admission");
        l.count(&format!("memnet.same-ip-peers-in-table.{in_table}-control-{ctl_ok}"));
        if in_table > ctl_ok {
            let entries: Vec<String> = routing.iter().filter(|(id, _)| a_nodes.iter().any(|a| a.pos == *id)).map(|(_, t)| t.clone()).collect();
            l.vio(&format!("cross/peer-connected-gates-skipped/{fam}"), || json!({"three inbound peers from one IP": a_addrs.iter().map(|x| x.to_string()).collect::<Vec<_>>(),
                "admitted_by_node_B": in_table, "admitted_by_bare_engine_given_plain_text": ctl_ok, "routing_table_texts": entries}));
        }
    }

    // C knows only B; a lookup for A_0's position makes B name A_* in a reply, C must dial what was named
    match tokio::time::timeout(Duration::from_secs(10), c.mgr.connect_to_peer(&b.addr.to_string())).await {
        Ok(Ok(_)) => {}
        _ => {
            l.count("memnet.skipped.c-connect-failed");
            return;
        }
    }
    memnet::settle(Duration::from_millis(200)).await;
    let t0 = hub.trace_len();
    let c0 = hub.connects().len();
    let target = a_nodes[0];
    let looked = tokio::time::timeout(Duration::from_secs(120), c.mgr.find_closest_nodes_network(&target.pos, 8)).await;
    if looked.is_err() {
        l.count("memnet.skipped.lookup-timeout");
        return;
    }
    memnet::settle(Duration::from_millis(200)).await;
    let known: HashMap<SocketAddr, &SimNode> = spawn.iter().map(|n| (n.addr, n)).collect();
    let mut named: BTreeMap<String, Option<SocketAddr>> = BTreeMap::new();
    let mut target_named = false;
    for f in hub.trace_since(t0).iter().filter(|f| f.src == b.tid_hex && f.dst == c.tid_hex) {
        if let Some(m) = &f.msg {
            if let Some(DhtNetworkResult::NodesFound { nodes, .. }) = &m.result {
                for n in nodes {
                    if n.address.is_empty() {
                        continue;
                    }
                    let x = lenient(&n.address);
                    named.insert(n.address.clone(), x);
                    // who is named? (transport id, or the hex of its position)
                    let who = spawn.iter().find(|s| s.tid_hex == n.peer_id || hex::encode(s.pos) == n.peer_id);
                    if let Some(w) = who {
                        l.eval();
                        l.case(&w.addr, "net-reply-names");
                        if x == Some(w.addr) {
                            l.count("memnet.reply.names-same-address");
                            if w.tid_hex == target.tid_hex {
                                target_named = true;
                            }
                        } else {
                            l.vio(&format!("cross/reply-names-different-address/{fam}"), || json!({"peer_socket": w.addr.to_string(), "reply_text": n.address}));
                        }
                    }
                }
            }
        }
    }
    if named.is_empty() || !target_named {
        l.count("memnet.skipped.no-reply-naming-target");
        return;
    }
    let dials: Vec<(SocketAddr, &'static str)> = hub.connects()[c0..].iter().filter(|(_, from, _, _)| *from == c.tid_hex).map(|(_, _, addr, tag)| (*addr, *tag)).collect();
    l.eval();
    l.case(&target.addr, "net-reply-dial");
    let named_addrs: HashSet<SocketAddr> = named.values().flatten().copied().collect();
    if let Some((bad, tag)) = dials.iter().find(|(d, _)| !named_addrs.contains(d) && !known.contains_key(d)) {
        l.vio(&format!("cross/reply-dial/wrong-address/{fam}"), || json!({"reply_texts": named.keys().collect::<Vec<_>>(), "dialled": bad.to_string(), "hub_says": tag}));
    } else if !dials.iter().any(|(d, _)| *d == target.addr) {
        l.vio(&format!("cross/reply-dial/not-dialled/{fam}"), || json!({"lookup_target_peer": target.addr.to_string(), "reply_texts": named.keys().collect::<Vec<_>>(),
            "addresses_dialled_by_C": dials.iter().map(|(d, t)| format!("{d} {t}")).collect::<Vec<_>>()}));
    } else {
        l.count("memnet.reply-dial.target-dialled");
        if round == 0 {
            mon.extra("memnet_reply_dial_example", json!({"reply_texts": named.keys().collect::<Vec<_>>(), "dialled_by_C": dials.iter().map(|(d, t)| format!("{d} {t}")).collect::<Vec<_>>()}));
        }
    }
}

// ---------------------------------------------------------------------------------------------

/// `C19_PROBE="1.2.3.4:5,[::1]:80" c19` prints what each hop produces for the given addresses
/// (diagnosis aid for a witness from a replay file; makes no judgement).
fn probe(list: &str) {
    use saorsa_core::bootstrap::fourwords::FourWordAdaptiveEncoder;
    for s in list.split(',') {
        let Ok(a) = s.trim().parse::<SocketAddr>() else {
            println!("{s}: not a socket address");
            continue;
        };
        let na = NetworkAddress::new(a);
        println!("{a}\n  Display            = {na}");
        println!("  Display.parse()    = {:?}", na.to_string().parse::<NetworkAddress>().map(|b| b.socket_addr).map_err(|e| e.to_string()));
        if let Some(w) = na.four_words() {
            let raw = FourWordAdaptiveEncoder::new().and_then(|e| e.decode(&w.replace('-', " ")));
            println!("  words              = {w}\n  crate decode(words) = {raw:?}");
            println!("  from_four_words    = {:?}", vkit::catch(|| NetworkAddress::from_four_words(w).map(|b| b.socket_addr).map_err(|e| e.to_string())));
        }
        let enc = saorsa_core::bootstrap::WordEncoder::new();
        if let Ok(fw) = enc.encode_socket_addr(&a) {
            println!("  bootstrap words    = {}\n  bootstrap decode   = {:?}", fw.0, enc.decode_to_socket_addr(&fw).map_err(|e| e.to_string()));
        }
    }
}

fn main() {
    if let Ok(list) = std::env::var("C19_PROBE") {
        probe(&list);
        return;
    }
    let mon = Monitor::new("C19", "exploration");
    mon.set_rule("case = one socket address through one round trip (four-word forms of NetworkAddress / bootstrap::WordEncoder / identity::four_words, Display->FromStr, plain, /ip4|ip6/ form, serde JSON/postcard, ContactEntry serde, add_node admission, transport registry lookup and dial, memnet peer-connected and reply->dial); every case counts; distinct by (family/class, trip, boundary flags = which IPv4 octets are boundary values or how many IPv6 groups are zero, port class)");
    mon.assume("a control run with the plain ip:port text decides what 'gates applied' looks like for add_node (counters of the IP-diversity and region gates, admission of a second node with the same IP)");
    mon.assume("strings that other components report back (dht peer list, routing entries, FIND_NODE replies) are read by the harness as 'text before \" (\" is the socket address'");
    mon.assume("IPv6 flowinfo is always 0 (std does not render it); scope ids are exercised as their own class 'ipv6-scoped'");

    // dictionary words for the random-string generator, harvested from the library's own output
    let dict: Vec<String> = {
        let mut r = Rng::new(mon.seed ^ 0xd1c7);
        let mut set = std::collections::BTreeSet::new();
        for _ in 0..300 {
            let a = SocketAddr::new(IpAddr::V4(Ipv4Addr::from(r.next_u64() as u32)), r.next_u64() as u16);
            if let Some(w) = NetworkAddress::new(a).four_words() {
                for t in w.split('-') {
                    set.insert(t.to_string());
                }
            }
        }
        let mut v: Vec<String> = set.into_iter().collect();
        if v.is_empty() {
            v.push("word".into());
        }
        v
    };

    // phase 1: cross-component checks (engines, transport registry), sharded
    let engines_per_shard = mon.by_tier(120usize, 1500);
    let registry_peers = mon.by_tier(120usize, 600);
    vkit::run_shards(mon.shards(), mon.seed ^ 0xc405, |i, mut rng| {
        let rt = checks::rt(false);
        rt.block_on(async {
            let mut l = Local::new(&mon, i == 0);
            // the probed witnesses first, then seeded addresses
            if i == 0 {
                for s in ["127.0.0.1:8080", "192.168.1.1:9000", "8.8.8.8:53", "[2001:db8::1]:9000", "[::1]:8080", "255.255.255.255:65535"] {
                    if let Ok(a) = s.parse::<SocketAddr>() {
                        cross_add_node(&mut l, &mut rng, a).await;
                    }
                }
            }
            for _ in 0..engines_per_shard {
                if mon.spent(0.25) {
                    break;
                }
                let a = gen_addr(&mut rng);
                cross_add_node(&mut l, &mut rng, a).await;
            }
            cross_transport(&mut l, &mut rng, registry_peers).await;
            l.flush();
        });
    });

    // phase 2: a few rounds of the in-memory network (virtual time)
    {
        let rounds = mon.by_tier(8u64, 24);
        let mut rng = Rng::new(vkit::splitmix(mon.seed, 0x3e3));
        let rt = checks::rt(true);
        rt.block_on(async {
            let mut l = Local::new(&mon, false);
            for r in 0..rounds {
                if mon.spent(0.45) {
                    l.count("memnet.skipped.budget");
                    break;
                }
                memnet_scenario(&mon, &mut l, &mut rng, r).await;
            }
            l.flush();
        });
        if mon.counter("memnet.rounds") == 0 {
            mon.extra("memnet_status", json!("no memnet round completed; cross-component evidence comes from the engine and transport-registry experiments only"));
        }
    }

    // phase 3: bulk round trips
    let shards = mon.shards();
    let per_shard = mon.by_tier(25_000u64, 10_000_000);
    vkit::run_shards(shards, mon.seed, |i, mut rng| {
        let mut l = Local::new(&mon, i == 0);
        // exhaustive boundary grid, dealt round-robin to the shards
        let mut idx = 0usize;
        for o0 in OCT {
            for o1 in OCT {
                for o2 in OCT {
                    for o3 in OCT {
                        for p in PORTS {
                            idx += 1;
                            if idx % shards != i {
                                continue;
                            }
                            let a = SocketAddr::new(IpAddr::V4(Ipv4Addr::new(o0, o1, o2, o3)), p);
                            bulk_one(&mut l, &mut rng, a, idx % 7 == 0);
                            l.count("grid.ipv4-boundary");
                        }
                    }
                }
            }
        }
        // addresses that earlier (longer) runs found to be rare failure classes: kept so that the
        // quick tier reports the same signature set as the thorough tier
        if i == 0 {
            for w in ["255.255.255.255:65535", "[fe80::fbf6:381:67da:0]:50172", "[fd00::1]:80", "[2002:e3d7:7f42::1]:65534", "[::ffff:170.158.188.136]:1023", "[ff02::1]:0", "[::1]:65535", "127.0.0.1:8080", "[2001:db8::1]:9000"] {
                if let Ok(a) = w.parse::<SocketAddr>() {
                    bulk_one(&mut l, &mut rng, a, true);
                    l.count("grid.witness-corpus");
                }
            }
        }
        for k in 0..V6_KINDS {
            for p in PORTS {
                idx += 1;
                if idx % shards != i {
                    continue;
                }
                let (ip, scope) = v6_of_kind(&mut rng, k);
                bulk_one(&mut l, &mut rng, SocketAddr::V6(SocketAddrV6::new(ip, p, 0, scope)), true);
                l.count("grid.ipv6-kind-x-port");
            }
        }
        l.flush();
        for n in 0..per_shard {
            if n % 256 == 0 {
                if mon.time_up() {
                    break;
                }
                l.flush();
            }
            let a = gen_addr(&mut rng);
            bulk_one(&mut l, &mut rng, a, n % 4 == 0);
            if n % 16 == 0 {
                random_strings(&mut l, &mut rng, &dict);
            }
        }
        l.flush();
    });
    mon.finish();
}
