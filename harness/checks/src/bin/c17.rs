//! C17 — placement returns exactly k distinct diverse candidates or an error.
//!
//! Four observation lanes, all on the real code:
//!  A. `WeightedPlacementStrategy::select_nodes` and `PlacementEngine::select_nodes` on seeded
//!     hostile candidate sets (clusters around the 50 km line, poles, date line, antipodes,
//!     chains, identical points, ASN/region collisions, metadata gaps, foreign metadata,
//!     junk coordinates, degenerate optimisation weights, k in 0..=20 and k > n).
//!     Oracle: `Ok` => exactly k ids, distinct, all from the candidate set, <=2 per region,
//!     <=3 per ASN, every pair >= 50 km by an independent great-circle formula. `Err` is always
//!     acceptable. A panic never is.
//!  B. `WeightedSampler::sample_nodes` on 1..200 weighted candidates including 0 / negative /
//!     NaN / infinite / subnormal weights. Oracle: no panic; `Ok` => exactly k ids forming a
//!     sub-multiset of the input (draws without replacement).
//!  C. `WeightedSampler::calculate_weight` on degenerate floats: no panic; `Ok(w)` => w finite > 0.
//!  D. frequency: a candidate 4x heavier than another must be chosen significantly more often
//!     over 2*10^4 seeded draws (discordant-draw binomial test, false alarm < 1e-15 per test).
//!     Plus `ReplicationFactor::new` bounds.

use saorsa_core::adaptive::{performance::PerformanceMonitor, trust::EigenTrustEngine, NodeId};
use saorsa_core::placement::{
    ByzantineTolerance, GeographicLocation, NetworkRegion, OptimizationWeights, PlacementConfig,
    PlacementDecision, PlacementEngine, PlacementError, PlacementResult, PlacementStrategy,
    ReplicationFactor, WeightedPlacementStrategy, WeightedSampler, DiversityEnforcer,
};
use serde_json::{json, Value};
use std::collections::{BTreeMap, HashMap, HashSet};
use std::time::Duration;
use vkit::{hex8, Monitor, Rng};

// ---------------------------------------------------------------------------------------------
// independent geometry (3-D unit vectors + atan2(|a x b|, a.b); no haversine half-angle terms)
// ---------------------------------------------------------------------------------------------

const R_KM: f64 = 6371.0;
const MIN_KM: f64 = 50.0;
/// numeric + earth-radius-convention slack (10 m); pairs inside the band are not judged
const TOL_KM: f64 = 0.01;

fn unit(lat: f64, lon: f64) -> [f64; 3] {
    let (la, lo) = (lat.to_radians(), lon.to_radians());
    [la.cos() * lo.cos(), la.cos() * lo.sin(), la.sin()]
}

fn gc_km(a: (f64, f64), b: (f64, f64)) -> f64 {
    let (u, v) = (unit(a.0, a.1), unit(b.0, b.1));
    let c = [u[1] * v[2] - u[2] * v[1], u[2] * v[0] - u[0] * v[2], u[0] * v[1] - u[1] * v[0]];
    let cn = (c[0] * c[0] + c[1] * c[1] + c[2] * c[2]).sqrt();
    let d = u[0] * v[0] + u[1] * v[1] + u[2] * v[2];
    R_KM * cn.atan2(d)
}

fn norm_lon(mut lon: f64) -> f64 {
    while lon > 180.0 {
        lon -= 360.0;
    }
    while lon < -180.0 {
        lon += 360.0;
    }
    lon
}

/// point `dist_km` away from (lat,lon) along initial bearing `brg` (degrees)
fn dest(lat: f64, lon: f64, dist_km: f64, brg: f64) -> (f64, f64) {
    let (p1, l1, t, d) = (lat.to_radians(), lon.to_radians(), brg.to_radians(), dist_km / R_KM);
    let sp2 = (p1.sin() * d.cos() + p1.cos() * d.sin() * t.cos()).clamp(-1.0, 1.0);
    let p2 = sp2.asin();
    let l2 = l1 + (t.sin() * d.sin() * p1.cos()).atan2(d.cos() - p1.sin() * sp2);
    (p2.to_degrees().clamp(-90.0, 90.0), norm_lon(l2.to_degrees()))
}

fn uniform_sphere(rng: &mut Rng) -> (f64, f64) {
    let z = 2.0 * rng.f64() - 1.0;
    (z.asin().to_degrees().clamp(-90.0, 90.0), rng.f64() * 360.0 - 180.0)
}

// ---------------------------------------------------------------------------------------------
// candidate sets
// ---------------------------------------------------------------------------------------------

const REGIONS: [NetworkRegion; 8] = [
    NetworkRegion::NorthAmerica,
    NetworkRegion::SouthAmerica,
    NetworkRegion::Europe,
    NetworkRegion::AsiaPacific,
    NetworkRegion::Africa,
    NetworkRegion::MiddleEast,
    NetworkRegion::Oceania,
    NetworkRegion::Unknown,
];

#[derive(Clone)]
struct Cand {
    id: [u8; 32],
    lat: f64,
    lon: f64,
    asn: u32,
    region: NetworkRegion,
    /// coordinates accepted by GeographicLocation::new
    valid_loc: bool,
    has_meta: bool,
}

struct Case {
    seed: u64,
    geo: &'static str,
    region_mode: &'static str,
    asn_mode: &'static str,
    cands: Vec<Cand>,
    foreign: Vec<Cand>,
    k: u8,
    alpha: f64,
    beta: f64,
    gamma: f64,
    wclass: String,
    // computed collision pattern
    close_pair: bool,
    region_crowded: bool,
    asn_crowded: bool,
    gaps: bool,
    junk: bool,
}

const GEO_MODES: [&str; 9] = ["uniform", "clusters", "poles", "dateline", "antipodes", "chain", "identical", "grid", "mixed"];

fn gen_point(mode: &str, i: usize, rng: &mut Rng, centres: &[(f64, f64)], chain: &(f64, f64, f64, f64)) -> (f64, f64) {
    match mode {
        "uniform" => uniform_sphere(rng),
        "clusters" => {
            let c = *rng.pick(centres);
            let d = match rng.below(6) {
                0 => 0.0,
                1 => rng.f64() * 25.0,
                2 => 40.0 + rng.f64() * 20.0,
                3 => 49.9 + rng.f64() * 0.2,
                4 => 95.0 + rng.f64() * 10.0,
                _ => rng.f64() * 300.0,
            };
            dest(c.0, c.1, d, rng.f64() * 360.0)
        }
        "poles" => {
            let s = if rng.chance(0.5) { 1.0 } else { -1.0 };
            let lat = match rng.below(4) {
                0 => 90.0,
                1 => 90.0 - rng.f64() * 0.3,
                2 => 90.0 - rng.f64() * 1.2,
                _ => 90.0 - rng.f64() * 10.0,
            };
            (s * lat, rng.f64() * 360.0 - 180.0)
        }
        "dateline" => {
            let s = if rng.chance(0.5) { 1.0 } else { -1.0 };
            let off = match rng.below(3) {
                0 => 0.0,
                1 => rng.f64() * 0.4,
                _ => rng.f64() * 3.0,
            };
            (rng.f64() * 160.0 - 80.0, s * (180.0 - off))
        }
        "antipodes" => {
            // even index: fresh point; odd index: (near-)antipode of a centre
            if i % 2 == 0 {
                *rng.pick(centres)
            } else {
                let c = *rng.pick(centres);
                let (la, lo) = (-c.0, norm_lon(c.1 + 180.0));
                if rng.chance(0.5) {
                    (la, lo)
                } else {
                    dest(la, lo, rng.f64() * 80.0, rng.f64() * 360.0)
                }
            }
        }
        "chain" => {
            // points along one great circle with fixed spacing around the 50 km line
            let (lat0, lon0, brg, step) = *chain;
            dest(lat0, lon0, step * i as f64, brg)
        }
        "identical" => *rng.pick(&centres[..centres.len().min(3)]),
        "grid" => {
            let lat = -60.0 + 30.0 * (i % 5) as f64 + rng.f64() * 4.0;
            let lon = -180.0 + 30.0 * ((i / 5) % 12) as f64 + rng.f64() * 4.0 + 7.0 * (i % 5) as f64;
            (lat, norm_lon(lon))
        }
        _ => unreachable!(),
    }
}

fn make_id(rng: &mut Rng, used: &mut HashSet<[u8; 32]>) -> [u8; 32] {
    loop {
        let mut id = rng.arr32();
        // a few ids share long prefixes (hash/eq must still separate them)
        if rng.chance(0.1) {
            for b in id.iter_mut().take(31) {
                *b = 0xAB;
            }
        }
        if used.insert(id) {
            return id;
        }
    }
}

const DEGENERATE: [(f64, &str); 13] = [
    (0.0, "zero"),
    (5e-324, "tiny"),
    (1e-300, "tiny"),
    (1e-9, "tiny"),
    (0.5, "normal"),
    (1.0, "normal"),
    (3.0, "normal"),
    (40.0, "big"),
    (1e3, "big"),
    (f64::INFINITY, "inf"),
    (f64::NAN, "nan"),
    (-1.0, "neg"),
    (-1e3, "neg"),
];

fn gen_case(rng: &mut Rng) -> Case {
    let seed = rng.next_u64();
    let n = match rng.below(10) {
        0 => rng.urange(0, 2),
        1 | 2 => rng.urange(1, 6),
        3 | 4 | 5 => rng.urange(4, 20),
        _ => rng.urange(10, 60),
    };
    let geo = *rng.pick(&GEO_MODES);
    let centres: Vec<(f64, f64)> = (0..rng.urange(1, 6)).map(|_| uniform_sphere(rng)).collect();
    let steps = [10.0, 49.0, 49.98, 50.02, 51.0, 60.0, 100.0, 400.0];
    let c0 = uniform_sphere(rng);
    let chain = (c0.0 * 0.8, c0.1, rng.f64() * 360.0, *rng.pick(&steps));
    let region_mode = *rng.pick(&["coords", "same", "few", "cycle", "cycle", "random"]);
    let asn_mode = *rng.pick(&["distinct", "distinct", "single", "few", "balanced"]);
    let few_regions = rng.urange(2, 4);
    let few_asns = rng.urange(2, 5) as u32;
    let junk = rng.chance(0.05);
    let mut used = HashSet::new();
    let mut cands = Vec::with_capacity(n);
    for i in 0..n {
        let m = if geo == "mixed" { *rng.pick(&GEO_MODES[..8]) } else { geo };
        let (mut lat, mut lon) = gen_point(m, i, rng, &centres, &chain);
        let mut valid_loc = true;
        if junk && rng.chance(0.6) {
            valid_loc = false;
            match rng.below(6) {
                0 => lat = f64::NAN,
                1 => lon = f64::NAN,
                2 => {
                    lat = f64::NAN;
                    lon = f64::NAN
                }
                3 => lat = f64::INFINITY,
                4 => lon = 1e308,
                _ => {
                    lat = 100.0 + rng.f64() * 50.0;
                    lon = 200.0
                }
            }
        }
        let region = match region_mode {
            "coords" if valid_loc => match GeographicLocation::new(lat, lon) {
                Ok(l) => NetworkRegion::from_coordinates(&l),
                Err(_) => NetworkRegion::Unknown,
            },
            "coords" => NetworkRegion::Unknown,
            "same" => REGIONS[(seed % 8) as usize],
            "few" => REGIONS[(seed as usize + rng.usize_below(few_regions)) % 8],
            "cycle" => REGIONS[i % 8],
            _ => *rng.pick(&REGIONS),
        };
        let asn = match asn_mode {
            "distinct" => 64_000 + i as u32,
            "single" => 13_335,
            "few" => 100 + rng.below(few_asns as u64) as u32,
            _ => 7_000 + (i as u32 / 3),
        };
        cands.push(Cand { id: make_id(rng, &mut used), lat, lon, asn, region, valid_loc, has_meta: true });
    }
    rng.shuffle(&mut cands);
    let gaps = n > 0 && rng.chance(0.12);
    if gaps {
        for _ in 0..rng.urange(1, 3) {
            let i = rng.usize_below(n);
            cands[i].has_meta = false;
        }
    }
    // metadata for nodes that are NOT candidates (attractive: unique region slot / ASN, far away)
    let mut foreign = Vec::new();
    for _ in 0..rng.urange(0, 3) {
        let (lat, lon) = uniform_sphere(rng);
        foreign.push(Cand { id: make_id(rng, &mut used), lat, lon, asn: 4_000_000 + rng.below(1000) as u32, region: *rng.pick(&REGIONS), valid_loc: true, has_meta: true });
    }
    let k = match rng.below(100) {
        0..=2 => 0,
        3..=37 => rng.urange(1, 3),
        38..=72 => rng.urange(4, 8),
        73..=89 => rng.urange(9, 16),
        90..=94 => rng.urange(17, 20),
        _ => (n + rng.urange(1, 2)).min(20),
    } as u8;
    let (alpha, beta, gamma, wclass) = if rng.chance(0.65) {
        (1.0, 1.0, 1.0, "default".to_string())
    } else {
        let a = *rng.pick(&DEGENERATE);
        let b = *rng.pick(&DEGENERATE);
        let c = *rng.pick(&DEGENERATE);
        let mut cl = vec![a.1, b.1, c.1];
        cl.sort();
        cl.dedup();
        (a.0, b.0, c.0, cl.join("+"))
    };
    // collision pattern of the whole candidate set (what makes Ok hard)
    let mut close_pair = false;
    'o: for i in 0..cands.len() {
        for j in (i + 1)..cands.len() {
            if cands[i].valid_loc && cands[j].valid_loc && gc_km((cands[i].lat, cands[i].lon), (cands[j].lat, cands[j].lon)) < MIN_KM {
                close_pair = true;
                break 'o;
            }
        }
    }
    let mut rc: HashMap<NetworkRegion, usize> = HashMap::new();
    let mut ac: HashMap<u32, usize> = HashMap::new();
    for c in &cands {
        *rc.entry(c.region).or_insert(0) += 1;
        *ac.entry(c.asn).or_insert(0) += 1;
    }
    let region_crowded = rc.values().any(|v| *v > 2);
    let asn_crowded = ac.values().any(|v| *v > 3);
    Case { seed, geo, region_mode, asn_mode, cands, foreign, k, alpha, beta, gamma, wclass, close_pair, region_crowded, asn_crowded, gaps, junk }
}

fn loc_of(c: &Cand) -> GeographicLocation {
    if c.valid_loc {
        if let Ok(l) = GeographicLocation::new(c.lat, c.lon) {
            return l;
        }
    }
    // bypasses validation on purpose (public fields): junk coordinates
    GeographicLocation { latitude: c.lat, longitude: c.lon }
}

fn cand_json(c: &Cand) -> Value {
    json!({"id": hex8(&c.id), "lat": fnum(c.lat), "lon": fnum(c.lon), "asn": c.asn, "region": format!("{:?}", c.region), "meta": c.has_meta})
}

fn fnum(x: f64) -> Value {
    if x.is_finite() {
        json!(x)
    } else {
        json!(format!("{x}"))
    }
}

fn err_kind(e: &PlacementError) -> String {
    match e {
        PlacementError::InsufficientNodes { .. } => "InsufficientNodes".into(),
        PlacementError::InvalidReplicationFactor(_) => "InvalidReplicationFactor".into(),
        PlacementError::InvalidWeight { .. } => "InvalidWeight".into(),
        PlacementError::NodeMetadataNotFound(_) => "NodeMetadataNotFound".into(),
        PlacementError::PlacementTimeout => "PlacementTimeout".into(),
        PlacementError::DiversityViolation { constraint, .. } => format!("Diversity:{constraint}"),
        PlacementError::ByzantineToleranceViolation { .. } => "ByzantineTolerance".into(),
        PlacementError::ReliabilityTooLow { .. } => "ReliabilityTooLow".into(),
        other => format!("{other:?}").split(|c: char| !c.is_alphanumeric()).next().unwrap_or("other").to_string(),
    }
}

/// source file of a panic reported by vkit::catch ("msg @ file:line"), path shortened and the
/// line number dropped (it moves with toolchain / edits; the full location stays in the detail)
fn panic_site(msg: &str) -> String {
    let loc = msg.rsplit(" @ ").next().unwrap_or("");
    let loc = loc.rsplit("/src/").next().unwrap_or(loc);
    let file = loc.split(':').next().unwrap_or(loc);
    file.chars().take(60).collect()
}

/// evidence samples are spread over the lanes (the monitor keeps 5 in total)
static SAMPLES: [std::sync::atomic::AtomicUsize; 4] = [const { std::sync::atomic::AtomicUsize::new(0) }; 4];
fn take_sample_slot(lane: usize, max: usize) -> bool {
    SAMPLES[lane].fetch_add(1, std::sync::atomic::Ordering::Relaxed) < max
}

/// smallest candidate list on which sample_nodes panicked (n, witness)
static SMALLEST_PANIC: parking_lot::Mutex<Option<(usize, Value)>> = parking_lot::Mutex::new(None);

#[derive(Default)]
struct Local {
    counters: BTreeMap<String, u64>,
}
impl Local {
    fn add(&mut self, k: &str, n: u64) {
        if let Some(v) = self.counters.get_mut(k) {
            *v += n;
        } else {
            self.counters.insert(k.to_string(), n);
        }
    }
    fn flush(&mut self, mon: &Monitor) {
        for (k, v) in std::mem::take(&mut self.counters) {
            mon.count(&k, v);
        }
    }
}

// ---------------------------------------------------------------------------------------------
// lane A: selections
// ---------------------------------------------------------------------------------------------

struct EngineCfg {
    rf_min: u8,
    byz: ByzantineTolerance,
}

fn run_selection(mon: &Monitor, lc: &mut Local, rt: &tokio::runtime::Runtime, trust: &EigenTrustEngine, perf: &PerformanceMonitor, rng: &mut Rng, idx: u64) {
    let case = gen_case(rng);
    let cand_set: HashSet<NodeId> = case.cands.iter().map(|c| NodeId::from_bytes(c.id)).collect();
    let mut meta: HashMap<NodeId, (GeographicLocation, u32, NetworkRegion)> = HashMap::new();
    for c in case.cands.iter().chain(case.foreign.iter()) {
        if c.has_meta {
            meta.insert(NodeId::from_bytes(c.id), (loc_of(c), c.asn, c.region));
        }
    }
    let use_engine = rng.chance(0.4);
    let ecfg = EngineCfg {
        rf_min: *rng.pick(&[0u8, 1, 1, 1, 2, 3]),
        byz: match rng.below(5) {
            0 | 1 => ByzantineTolerance::None,
            2 => ByzantineTolerance::Classic { f: 1 },
            3 => ByzantineTolerance::Custom { total_nodes: rng.urange(0, 6), max_faults: rng.urange(0, 3) },
            _ => ByzantineTolerance::Classic { f: 0 },
        },
    };
    let config = PlacementConfig {
        replication_factor: ReplicationFactor { min: ecfg.rf_min, default: 8, max: 20 },
        placement_timeout: Duration::from_secs(30),
        byzantine_tolerance: ecfg.byz,
        optimization_weights: OptimizationWeights { trust_weight: case.alpha, performance_weight: case.beta, capacity_weight: case.gamma, diversity_weight: 1.0 },
    };
    let api: &'static str = if use_engine { "engine" } else { "strategy" };
    let k = case.k;
    let seed = case.seed;
    // the sampler draws from fastrand's thread-local generator: seed it on this very thread
    let result: Result<PlacementResult<PlacementDecision>, String> = vkit::catch(|| {
        fastrand::seed(seed);
        if use_engine {
            let mut eng = PlacementEngine::new(config.clone());
            rt.block_on(eng.select_nodes(&cand_set, k, trust, perf, &meta))
        } else {
            let mut st = WeightedPlacementStrategy::new(config.clone());
            rt.block_on(st.select_nodes(&cand_set, k, trust, perf, &meta))
        }
    });
    mon.eval();
    lc.add(&format!("select.calls.{api}"), 1);
    let n = case.cands.len();
    let byid: HashMap<[u8; 32], &Cand> = case.cands.iter().map(|c| (c.id, c)).collect();
    let detail = |extra: Value| -> Value {
        json!({
            "api": api, "case_seed": seed, "k": k, "n": n, "geo": case.geo, "region_mode": case.region_mode, "asn_mode": case.asn_mode,
            "alpha": fnum(case.alpha), "beta": fnum(case.beta), "gamma": fnum(case.gamma),
            "engine": if use_engine { json!({"rf_min": ecfg.rf_min, "byzantine": format!("{:?}", ecfg.byz)}) } else { Value::Null },
            "metadata_gaps": case.gaps, "junk_coordinates": case.junk,
            "candidates_first_24": case.cands.iter().take(24).map(cand_json).collect::<Vec<_>>(),
            "foreign_metadata": case.foreign.iter().map(cand_json).collect::<Vec<_>>(),
            "note": "candidate iteration order comes from a std HashSet (RandomState), so the same fastrand seed need not reproduce the same pick; the selection below is what was returned",
            "observed": extra,
        })
    };
    let outcome: String = match &result {
        Err(p) => {
            lc.add("select.panic", 1);
            mon.violation(&format!("select/panic/{api},{}", panic_site(p)), detail(json!({"panic": p})));
            "Panic".into()
        }
        Ok(Err(e)) => {
            let kind = err_kind(e);
            lc.add(&format!("select.err.{kind}"), 1);
            format!("Err:{kind}")
        }
        Ok(Ok(dec)) => {
            lc.add("select.ok", 1);
            lc.add(&format!("select.ok.k{:02}", k), 1);
            let sel = &dec.selected_nodes;
            let min_d = judge_ok(&case, api, k, sel, &meta, lc, &mut |sig, extra| mon.violation(&sig, detail(extra)));
            let sel_json = |sel: &Vec<NodeId>| selection_json(&byid, sel);
            // engine bounds: observed, not judged (the property text is silent on them)
            if use_engine {
                if k < ecfg.rf_min {
                    lc.add("observed.engine-ok-below-configured-min", 1);
                }
                if sel.len() < ecfg.byz.required_nodes() {
                    lc.add("observed.engine-ok-below-byzantine-requirement", 1);
                }
            }
            if k >= 3 && (case.close_pair || case.region_crowded || case.asn_crowded) && idx % 257 == 3 && take_sample_slot(0, 2) {
                mon.sample(json!({"lane": "selection", "api": api, "case_seed": seed, "k": k, "n": n, "geo": case.geo, "region_mode": case.region_mode, "asn_mode": case.asn_mode,
                    "candidate_set": {"pair_under_50km": case.close_pair, "region_with_more_than_2": case.region_crowded, "asn_with_more_than_3": case.asn_crowded},
                    "result": "Ok", "selected": sel_json(sel), "min_pairwise_km": fnum(min_d)}));
            }
            "Ok".into()
        }
    };
    if let Ok(Err(e)) = &result {
        if idx % 1021 == 7 && matches!(e, PlacementError::DiversityViolation { .. }) && take_sample_slot(1, 1) {
            mon.sample(json!({"lane": "selection", "api": api, "case_seed": seed, "k": k, "n": n, "geo": case.geo, "region_mode": case.region_mode, "asn_mode": case.asn_mode,
                "result": format!("Err: {e}").chars().take(200).collect::<String>()}));
        }
    }
    if k >= 1 && n >= k as usize {
        let nb = match n {
            0..=3 => 0,
            4..=8 => 1,
            9..=20 => 2,
            21..=40 => 3,
            _ => 4,
        };
        mon.case((api, k, nb, case.geo, case.close_pair, case.region_crowded, case.asn_crowded, case.gaps, case.junk, case.wclass.as_str(), outcome.as_str()));
    } else {
        lc.add("select.trivial(k=0 or k>n)", 1);
    }
}

fn selection_json(byid: &HashMap<[u8; 32], &Cand>, sel: &[NodeId]) -> Value {
    sel.iter()
        .take(24)
        .map(|s| match byid.get(s.as_bytes()) {
            Some(c) => cand_json(c),
            None => json!({"id": hex8(s.as_bytes()), "foreign": true}),
        })
        .collect::<Vec<_>>()
        .into()
}

/// The oracle for an `Ok` selection: restates the property on the returned ids only.
/// `emit(signature, observed)` is called per broken rule; returns the smallest judged distance.
fn judge_ok(
    case: &Case,
    api: &str,
    k: u8,
    sel: &[NodeId],
    meta: &HashMap<NodeId, (GeographicLocation, u32, NetworkRegion)>,
    lc: &mut Local,
    emit: &mut dyn FnMut(String, Value),
) -> f64 {
    let byid: HashMap<[u8; 32], &Cand> = case.cands.iter().map(|c| (c.id, c)).collect();
    let wfeat = if case.wclass == "default" { "default-weights" } else { "degenerate-weights" };
    let sel_json = |sel: &[NodeId]| selection_json(&byid, sel);
    // 1. exactly k
    if sel.len() != k as usize {
        let f = if sel.len() < k as usize { "short" } else { "long" };
        emit(format!("select/len-mismatch/{api},{f}"), json!({"returned": sel.len(), "selected": sel_json(sel)}));
    }
    // 2. distinct
    let mut seen: HashSet<[u8; 32]> = HashSet::new();
    let mut repeat = None;
    for s in sel {
        if !seen.insert(*s.as_bytes()) {
            repeat = Some(*s.as_bytes());
        }
    }
    if let Some(r) = repeat {
        emit(format!("select/repeat/{api},{wfeat}"), json!({"repeated": hex8(&r), "selected": sel_json(sel)}));
    }
    // 3. drawn from the candidates
    let foreign: Vec<&NodeId> = sel.iter().filter(|s| !byid.contains_key(s.as_bytes())).collect();
    if !foreign.is_empty() {
        let has_meta = foreign.iter().any(|f| meta.contains_key(*f));
        emit(
            format!("select/foreign/{api},{}", if has_meta { "metadata-only-node" } else { "unknown-node" }),
            json!({"foreign": foreign.iter().map(|f| hex8(f.as_bytes())).collect::<Vec<_>>(), "selected": sel_json(sel)}),
        );
    }
    // 4./5. caps, judged on the supplied metadata of the distinct selected candidates
    let chosen: Vec<&Cand> = seen.iter().filter_map(|s| byid.get(s).copied()).collect();
    if chosen.iter().any(|c| !c.has_meta) {
        // nothing was supplied to judge diversity on; the property is silent
        lc.add("skipped.selected-node-without-metadata", 1);
    }
    let judged: Vec<&Cand> = chosen.iter().copied().filter(|c| c.has_meta).collect();
    let mut rc: BTreeMap<String, usize> = BTreeMap::new();
    let mut ac: BTreeMap<u32, usize> = BTreeMap::new();
    for c in &judged {
        *rc.entry(format!("{:?}", c.region)).or_insert(0) += 1;
        *ac.entry(c.asn).or_insert(0) += 1;
    }
    if let Some((r, cnt)) = rc.iter().find(|(_, v)| **v > 2) {
        emit(format!("select/region-cap/{api},{wfeat}"), json!({"region": r, "count": cnt, "selected": sel_json(sel)}));
    }
    if let Some((a, cnt)) = ac.iter().find(|(_, v)| **v > 3) {
        emit(format!("select/asn-cap/{api},{wfeat}"), json!({"asn": a, "count": cnt, "selected": sel_json(sel)}));
    }
    // 6. pairwise distance by the independent formula
    let mut min_d = f64::INFINITY;
    let mut worst: Option<(&Cand, &Cand, f64)> = None;
    for i in 0..judged.len() {
        for j in (i + 1)..judged.len() {
            let (a, b) = (judged[i], judged[j]);
            if !(a.valid_loc && b.valid_loc) {
                lc.add("skipped.distance-undefined-junk-coordinates", 1);
                continue;
            }
            let d = gc_km((a.lat, a.lon), (b.lat, b.lon));
            if d < min_d {
                min_d = d;
            }
            if d < MIN_KM - TOL_KM {
                if worst.map(|w| d < w.2).unwrap_or(true) {
                    worst = Some((a, b, d));
                }
            } else if d < MIN_KM + TOL_KM {
                lc.add("skipped.distance-within-10m-of-50km", 1);
            }
        }
    }
    if let Some((a, b, d)) = worst {
        let f = if d < 1.0 {
            "coincident"
        } else if d < 45.0 {
            "well-inside"
        } else {
            "near-line"
        };
        let kf = if k <= 2 { "k<=2" } else { "k>2" };
        emit(format!("select/too-close/{api},{f},{kf},geo={}", case.geo), json!({"pair": [cand_json(a), cand_json(b)], "km": d, "selected": sel_json(sel)}));
    }
    if min_d.is_finite() {
        let b = if min_d < 55.0 {
            "min-dist.50-55km"
        } else if min_d < 100.0 {
            "min-dist.55-100km"
        } else {
            "min-dist.>=100km"
        };
        lc.add(&format!("select.ok.{b}"), 1);
    }
    min_d
}

// ---------------------------------------------------------------------------------------------
// oracle self-test: the same oracle judged against deliberately broken selection loops that are
// assembled here from the real public parts (WeightedSampler, DiversityEnforcer). Nothing in
// /repo is touched and nothing here counts as an evaluation or a violation; the result is
// written to evidence as `oracle_selftest` to show which realistic breaks the oracle can see.
// ---------------------------------------------------------------------------------------------

#[derive(Clone, Copy, PartialEq, Debug)]
enum Mutant {
    Faithful,
    NoRemove,
    SkipValidationSmallK,
    NoLenCheck,
    NoValidation,
}

fn mutant_select(
    m: Mutant,
    case: &Case,
    cands: &HashSet<NodeId>,
    meta: &HashMap<NodeId, (GeographicLocation, u32, NetworkRegion)>,
) -> PlacementResult<Vec<NodeId>> {
    let enforcer = DiversityEnforcer::new();
    let mut sampler = WeightedSampler::new();
    let k = case.k as usize;
    if cands.is_empty() {
        return Err(PlacementError::InsufficientNodes { required: k, available: 0 });
    }
    if m != Mutant::NoLenCheck && k > cands.len() {
        return Err(PlacementError::InsufficientNodes { required: k, available: cands.len() });
    }
    let mut selected: Vec<(NodeId, GeographicLocation, u32, NetworkRegion)> = Vec::new();
    let mut remaining = cands.clone();
    for round in 0..k {
        if remaining.is_empty() {
            return Err(PlacementError::InsufficientNodes { required: k - round, available: 0 });
        }
        let mut weights = Vec::new();
        for id in &remaining {
            let (loc, asn, region) = meta.get(id).ok_or_else(|| PlacementError::NodeMetadataNotFound(id.clone()))?;
            let d = enforcer.calculate_diversity_factor(id, loc, *asn, region, &selected);
            weights.push((id.clone(), sampler.calculate_weight(id, 0.8, 0.9, 1.0, d, case.alpha, case.beta, case.gamma)?));
        }
        weights.sort_by(|a, b| b.1.partial_cmp(&a.1).unwrap_or(std::cmp::Ordering::Equal));
        let pick = sampler.sample_nodes(&weights, 1)?.remove(0);
        let (loc, asn, region) = meta.get(&pick).ok_or_else(|| PlacementError::NodeMetadataNotFound(pick.clone()))?;
        selected.push((pick.clone(), *loc, *asn, *region));
        if m != Mutant::NoRemove {
            remaining.remove(&pick);
        }
    }
    let skip = m == Mutant::NoValidation || (m == Mutant::SkipValidationSmallK && k <= 2);
    if !skip {
        enforcer.validate_selection(&selected)?;
    }
    Ok(selected.into_iter().map(|s| s.0).collect())
}

fn oracle_selftest(mon: &Monitor, cases: u64) {
    let mut out = serde_json::Map::new();
    for m in [Mutant::Faithful, Mutant::NoRemove, Mutant::SkipValidationSmallK, Mutant::NoLenCheck, Mutant::NoValidation] {
        let mut rng = Rng::new(vkit::splitmix(mon.seed, 0xC17));
        let mut fired: BTreeMap<String, u64> = BTreeMap::new();
        let (mut oks, mut panics) = (0u64, 0u64);
        let mut lc = Local::default();
        for _ in 0..cases {
            let case = gen_case(&mut rng);
            let cand_set: HashSet<NodeId> = case.cands.iter().map(|c| NodeId::from_bytes(c.id)).collect();
            let mut meta = HashMap::new();
            for c in case.cands.iter().chain(case.foreign.iter()) {
                if c.has_meta {
                    meta.insert(NodeId::from_bytes(c.id), (loc_of(c), c.asn, c.region));
                }
            }
            let r = vkit::catch(|| {
                fastrand::seed(case.seed);
                mutant_select(m, &case, &cand_set, &meta)
            });
            match r {
                Err(_) => panics += 1,
                Ok(Err(_)) => {}
                Ok(Ok(sel)) => {
                    oks += 1;
                    judge_ok(&case, "selftest", case.k, &sel, &meta, &mut lc, &mut |sig, _| {
                        // rule id only
                        let rule = sig.split('/').take(2).collect::<Vec<_>>().join("/");
                        *fired.entry(rule).or_insert(0) += 1;
                    });
                }
            }
        }
        out.insert(format!("{m:?}"), json!({"cases": cases, "ok_results_judged": oks, "panics": panics, "rules_fired": fired}));
    }
    mon.extra("oracle_selftest", Value::Object(out));
}

// ---------------------------------------------------------------------------------------------
// lane B: sampler structure
// ---------------------------------------------------------------------------------------------

const W_CLASSES: [&str; 12] = ["unit", "small", "large", "eps", "subnormal", "max", "zero", "negzero", "neg", "neginf", "inf", "nan"];

fn gen_weight(class: &str, rng: &mut Rng) -> f64 {
    match class {
        "unit" => 0.05 + rng.f64() * 2.0,
        "small" => 1e-6 * (1.0 + rng.f64()),
        "large" => 1e3 * (1.0 + 9.0 * rng.f64()),
        "eps" => 1e-300,
        "subnormal" => 5e-324 * (1 + rng.below(1000)) as f64,
        "max" => f64::MAX,
        "zero" => 0.0,
        "negzero" => -0.0,
        "neg" => -(rng.f64() * 10.0) - 1e-12,
        "neginf" => f64::NEG_INFINITY,
        "inf" => f64::INFINITY,
        _ => f64::NAN,
    }
}

fn run_sampler(mon: &Monitor, lc: &mut Local, sampler: &mut WeightedSampler, rng: &mut Rng, idx: u64) {
    let seed = rng.next_u64();
    let n = match rng.below(4) {
        0 => rng.urange(1, 4),
        1 => rng.urange(5, 25),
        _ => rng.urange(21, 200),
    };
    // which weight classes are mixed into this list
    let hostile = rng.chance(0.7);
    let mut classes: Vec<&str> = vec!["unit"];
    if rng.chance(0.4) {
        classes.push(*rng.pick(&["small", "large", "eps", "subnormal", "max"]));
    }
    if hostile {
        for _ in 0..rng.urange(1, 3) {
            classes.push(*rng.pick(&W_CLASSES[3..]));
        }
    }
    classes.sort();
    classes.dedup();
    let dup_ids = rng.chance(0.1);
    let mut used = HashSet::new();
    let mut list: Vec<(NodeId, f64)> = Vec::with_capacity(n);
    let mut wl: Vec<&str> = Vec::with_capacity(n);
    for i in 0..n {
        // hostile weights are rare within a list so that they sit among many ordinary keys
        let cl = if i > 0 && rng.chance(0.75) { "unit" } else { *rng.pick(&classes) };
        let id = if dup_ids && i > 0 && rng.chance(0.3) { list[rng.usize_below(i)].0.clone() } else { NodeId::from_bytes(make_id(rng, &mut used)) };
        list.push((id, gen_weight(cl, rng)));
        wl.push(cl);
    }
    let k = match rng.below(10) {
        0 => 0,
        1 => n,
        2 => n + rng.urange(1, 2),
        3 | 4 => 1,
        _ => rng.urange(1, n),
    };
    let res = vkit::catch(|| {
        fastrand::seed(seed);
        sampler.sample_nodes(&list, k)
    });
    mon.eval();
    lc.add("sampler.calls", 1);
    let present: Vec<&str> = {
        let mut p = wl.clone();
        p.sort();
        p.dedup();
        p
    };
    let detail = |extra: Value| -> Value {
        json!({"case_seed": seed, "n": n, "k": k, "weight_classes": present, "duplicate_input_ids": dup_ids,
            "weights_first_24": list.iter().take(24).map(|(i, w)| json!([hex8(i.as_bytes()), fnum(*w)])).collect::<Vec<_>>(),
            "replay": "fastrand::seed(case_seed); WeightedSampler::new().sample_nodes(&list, k)", "observed": extra})
    };
    let has = |c: &str| present.iter().any(|p| *p == c);
    let feat = if has("nan") {
        "nan-weight"
    } else if has("inf") || has("max") {
        "inf-or-max-weight"
    } else if has("zero") || has("negzero") || has("neg") || has("neginf") {
        "nonpositive-weight"
    } else if has("eps") || has("subnormal") {
        "tiny-weight"
    } else {
        "ordinary-weights"
    };
    let outcome = match &res {
        Err(p) => {
            lc.add("sampler.panic", 1);
            mon.violation(&format!("sampler/panic/{feat},{}", panic_site(p)), detail(json!({"panic": p})));
            let mut g = SMALLEST_PANIC.lock();
            if g.as_ref().map(|(m, _)| n < *m).unwrap_or(true) {
                *g = Some((n, json!({"case_seed": seed, "n": n, "k": k, "panic": p,
                    "weights": list.iter().map(|(_, w)| fnum(*w)).collect::<Vec<_>>()})));
            }
            "Panic".to_string()
        }
        Ok(Err(e)) => {
            let kind = err_kind(e);
            lc.add(&format!("sampler.err.{kind}"), 1);
            format!("Err:{kind}")
        }
        Ok(Ok(v)) => {
            lc.add("sampler.ok", 1);
            if v.len() != k {
                mon.violation(&format!("sampler/len-mismatch/{feat}"), detail(json!({"returned": v.len()})));
            }
            // without replacement: the output is a sub-multiset of the input ids
            let mut avail: HashMap<[u8; 32], i64> = HashMap::new();
            for (i, _) in &list {
                *avail.entry(*i.as_bytes()).or_insert(0) += 1;
            }
            let (mut dup, mut foreign) = (None, None);
            for s in v {
                match avail.get_mut(s.as_bytes()) {
                    None => foreign = Some(*s.as_bytes()),
                    Some(c) => {
                        *c -= 1;
                        if *c < 0 {
                            dup = Some(*s.as_bytes());
                        }
                    }
                }
            }
            if let Some(d) = dup {
                mon.violation(&format!("sampler/duplicate/{feat}"), detail(json!({"id_returned_more_often_than_supplied": hex8(&d), "returned": v.iter().take(24).map(|x| hex8(x.as_bytes())).collect::<Vec<_>>()})));
            }
            if let Some(f) = foreign {
                mon.violation(&format!("sampler/foreign/{feat}"), detail(json!({"id": hex8(&f)})));
            }
            // observations the property text does not decide
            if has("nan") {
                lc.add("observed.sampler-ok-with-nan-weight-in-list", 1);
                let nan_ids: HashSet<[u8; 32]> = list.iter().filter(|(_, w)| w.is_nan()).map(|(i, _)| *i.as_bytes()).collect();
                if v.iter().any(|s| nan_ids.contains(s.as_bytes())) {
                    lc.add("observed.sampler-selected-a-nan-weight-candidate", 1);
                }
            }
            if idx % 101 == 5 && hostile && k >= 2 && take_sample_slot(2, 1) {
                mon.sample(json!({"lane": "sampler", "case_seed": seed, "n": n, "k": k, "weight_classes": present, "result": "Ok",
                    "returned_first_8": v.iter().take(8).map(|x| hex8(x.as_bytes())).collect::<Vec<_>>(), "returned_len": v.len()}));
            }
            "Ok".to_string()
        }
    };
    if k >= 1 && n >= k {
        let nb = match n {
            0..=4 => 0,
            5..=20 => 1,
            21..=64 => 2,
            _ => 3,
        };
        let kb = if k == 1 {
            0
        } else if k == n {
            3
        } else if k * 2 <= n {
            1
        } else {
            2
        };
        mon.case(("sampler", kb, nb, present.join("+"), dup_ids, outcome));
    }
}

// ---------------------------------------------------------------------------------------------
// lane C: calculate_weight on degenerate floats; ReplicationFactor::new bounds
// ---------------------------------------------------------------------------------------------

const SCORES: [f64; 16] = [0.0, -0.0, 5e-324, 1e-300, 1e-9, 0.5, 0.8, 1.0, 1.0000000000000002, 2.0, 1e300, f64::INFINITY, f64::NEG_INFINITY, f64::NAN, -1e-9, -3.0];

fn score_class(x: f64) -> &'static str {
    if x.is_nan() {
        "nan"
    } else if x.is_infinite() {
        "inf"
    } else if x < 0.0 {
        "neg"
    } else if x == 0.0 {
        "zero"
    } else if x < 1e-6 {
        "tiny"
    } else if x <= 1.0 {
        "unit"
    } else {
        "big"
    }
}

fn run_weight(mon: &Monitor, lc: &mut Local, sampler: &WeightedSampler, rng: &mut Rng) {
    let id = NodeId::from_bytes(rng.arr32());
    let pick = |rng: &mut Rng| if rng.chance(0.5) { *rng.pick(&SCORES) } else { rng.f64() };
    let (t, s, c, d) = (pick(rng), pick(rng), pick(rng) * 3.0, pick(rng) * 2.0);
    let (a, b, g) = (*rng.pick(&SCORES), *rng.pick(&SCORES), *rng.pick(&SCORES));
    let res = vkit::catch(|| sampler.calculate_weight(&id, t, s, c, d, a, b, g));
    mon.eval();
    lc.add("weight.calls", 1);
    let detail = |extra: Value| json!({"trust": fnum(t), "stability": fnum(s), "capacity": fnum(c), "diversity": fnum(d), "alpha": fnum(a), "beta": fnum(b), "gamma": fnum(g), "observed": extra});
    let worst = [t, s, c, d, a, b, g].iter().map(|x| score_class(*x)).filter(|c| *c != "unit").min().unwrap_or("unit");
    let outcome = match res {
        Err(p) => {
            mon.violation(&format!("weight/panic/{worst},{}", panic_site(&p)), detail(json!({"panic": p})));
            "Panic"
        }
        Ok(Err(_)) => {
            lc.add("weight.err", 1);
            "Err"
        }
        Ok(Ok(w)) => {
            lc.add("weight.ok", 1);
            // the sampler's precondition: a weight handed on is a finite positive number
            if !(w.is_finite() && w > 0.0) {
                mon.violation(&format!("weight/ok-not-finite-positive/{}", score_class(w)), detail(json!({"weight": fnum(w)})));
            }
            "Ok"
        }
    };
    mon.case(("weight", score_class(t), score_class(s), score_class(c), score_class(d), score_class(a), score_class(b), score_class(g), outcome));
}

fn run_rf(mon: &Monitor, lc: &mut Local, rng: &mut Rng) {
    let v = |rng: &mut Rng| match rng.below(8) {
        0 => 0u8,
        1 => 255,
        _ => rng.below(21) as u8,
    };
    let (mi, de, ma) = (v(rng), v(rng), v(rng));
    let res = vkit::catch(|| ReplicationFactor::new(mi, de, ma));
    mon.eval();
    lc.add("rf.calls", 1);
    match res {
        Err(p) => mon.violation(&format!("replication-factor/panic/{}", panic_site(&p)), json!({"min": mi, "default": de, "max": ma, "panic": p})),
        Ok(Ok(rf)) => {
            lc.add("rf.ok", 1);
            if !(rf.min >= 1 && rf.min <= rf.default && rf.default <= rf.max) || (rf.min, rf.default, rf.max) != (mi, de, ma) {
                let f = if mi == 0 { "zero-min" } else { "unordered" };
                mon.violation(&format!("replication-factor/ok-out-of-bounds/{f}"), json!({"min": mi, "default": de, "max": ma}));
            }
        }
        Ok(Err(_)) => lc.add("rf.err", 1),
    }
}

// ---------------------------------------------------------------------------------------------
// lane D: frequency
// ---------------------------------------------------------------------------------------------

const SCALES: [(f64, &str); 10] = [(1e-9, "1e-9"), (1e-6, "1e-6"), (1e-4, "1e-4"), (1e-3, "1e-3"), (1e-2, "1e-2"), (1.0, "1"), (1e3, "1e3"), (1e9, "1e9"), (1e15, "1e15"), (1e18, "1e18")];
const BYSTANDERS: [&str; 5] = ["none", "valid", "nan", "inf", "crowd"];

/// Hoeffding bound on the probability that a sampler whose discordant draws favour the heavy
/// candidate with p >= 0.8 (proved for Efraimidis-Spirakis / successive sampling with a 4x
/// weight ratio, any k) still lands below `thr` out of `m` discordant draws.
fn false_alarm_bound(m: f64, thr: f64) -> f64 {
    let gap = 0.8 * m - thr;
    if gap <= 0.0 {
        return 1.0;
    }
    (-2.0 * gap * gap / m).exp()
}

fn run_frequency(mon: &Monitor, lc: &mut Local, sampler: &mut WeightedSampler, rng: &mut Rng, combo: usize) {
    let (scale, slabel) = SCALES[combo % SCALES.len()];
    let heavy_first = (combo / SCALES.len()) % 2 == 0;
    let by = BYSTANDERS[(combo / (SCALES.len() * 2)) % BYSTANDERS.len()];
    let seed = rng.next_u64();
    let mut used = HashSet::new();
    let light = NodeId::from_bytes(make_id(rng, &mut used));
    let heavy = NodeId::from_bytes(make_id(rng, &mut used));
    let (wl, wh) = (scale, 4.0 * scale);
    // list layout: [bystanders…] pair-member [bystanders…] pair-member [bystanders…]
    let mut list: Vec<(NodeId, f64)> = Vec::new();
    let nby = match by {
        "none" => 0,
        "valid" => rng.urange(1, 8),
        // lists of 33..60 candidates: the preference must hold whatever the size of the list
        "crowd" => rng.urange(31, 58),
        _ => 1,
    };
    let (first, second) = if heavy_first { ((heavy.clone(), wh), (light.clone(), wl)) } else { ((light.clone(), wl), (heavy.clone(), wh)) };
    let mut bys: Vec<(NodeId, f64)> = (0..nby)
        .map(|_| {
            let w = match by {
                "valid" | "crowd" => scale * (0.25 + 4.0 * rng.f64()),
                "nan" => f64::NAN,
                _ => f64::INFINITY,
            };
            (NodeId::from_bytes(make_id(rng, &mut used)), w)
        })
        .collect();
    // hostile bystanders go between / after the pair (listed first they simply win every draw)
    let slots = if by == "valid" || by == "crowd" { 3 } else { 2 };
    let mut parts: Vec<Vec<(NodeId, f64)>> = vec![Vec::new(); 3];
    while let Some(b) = bys.pop() {
        let s = if slots == 3 { rng.usize_below(3) } else { 1 + rng.usize_below(2) };
        parts[s].push(b);
    }
    list.extend(parts[0].drain(..));
    list.push(first);
    list.extend(parts[1].drain(..));
    list.push(second);
    list.extend(parts[2].drain(..));
    let m = list.len();
    let k = if by == "inf" { 2 } else { rng.urange(1, (m - 1).min(3)) };
    let draws = 20_000u64;
    let (mut only_h, mut only_l, mut both, mut neither, mut errs) = (0u64, 0u64, 0u64, 0u64, 0u64);
    let mut structural = 0u64;
    let mut first_err = None;
    let r = vkit::catch(|| {
        fastrand::seed(seed);
        for _ in 0..draws {
            match sampler.sample_nodes(&list, k) {
                Err(e) => {
                    errs += 1;
                    if first_err.is_none() {
                        first_err = Some(e.to_string());
                    }
                }
                Ok(v) => {
                    let h = v.iter().filter(|x| **x == heavy).count();
                    let l = v.iter().filter(|x| **x == light).count();
                    let distinct = v.iter().map(|x| x.as_bytes()).collect::<HashSet<_>>().len();
                    if v.len() != k || distinct != v.len() {
                        structural += 1;
                    }
                    match (h > 0, l > 0) {
                        (true, false) => only_h += 1,
                        (false, true) => only_l += 1,
                        (true, true) => both += 1,
                        _ => neither += 1,
                    }
                }
            }
        }
    });
    mon.eval();
    lc.add("freq.tests", 1);
    lc.add("freq.draws", draws);
    let disc = (only_h + only_l) as f64;
    let thr = disc / 2.0 + 3.2 * disc.sqrt();
    let bound = false_alarm_bound(disc, thr);
    let detail = json!({
        "fastrand_seed": seed, "draws": draws, "k": k,
        "list": list.iter().map(|(i, w)| json!([if *i == heavy { "HEAVY".to_string() } else if *i == light { "LIGHT".to_string() } else { hex8(i.as_bytes()) }, fnum(*w)])).collect::<Vec<_>>(),
        "draws_with_only_heavy": only_h, "draws_with_only_light": only_l, "both": both, "neither": neither, "errors": errs, "first_error": first_err,
        "threshold_heavy_must_reach": thr, "false_alarm_bound_for_a_correct_sampler": bound,
        "replay": "fastrand::seed(fastrand_seed); repeat draws x WeightedSampler::new().sample_nodes(&list, k)",
    });
    let hpos = if heavy_first { "heavy-listed-first" } else { "heavy-listed-last" };
    lc.add(&format!("freq.scale.{slabel}"), 1);
    if let Err(p) = r {
        mon.violation(&format!("sampler/panic/frequency,bystander={by},{}", panic_site(&p)), json!({"panic": p, "case": detail}));
        return;
    }
    if structural > 0 {
        mon.violation(&format!("sampler/duplicate-or-len/frequency,bystander={by}"), json!({"bad_draws": structural, "case": detail}));
    }
    let verdict = if errs == draws {
        lc.add("freq.all-draws-err", 1);
        "all-err"
    } else if bound >= 1e-15 {
        // too few discordant draws to decide with the required confidence
        lc.add("skipped.freq-underpowered", 1);
        if by == "nan" {
            lc.add("observed.freq-nan-bystander-absorbs-every-draw", 1);
        }
        "underpowered"
    } else if (only_h as f64) < thr {
        let dir = if only_h < only_l { "lighter-chosen-more-often" } else { "no-significant-preference" };
        // signature: magnitude class of the pair's weights + whether a NaN weight sits in the list
        let mag = if scale <= 1e-4 {
            "tiny-weights(<=1e-4)"
        } else if scale >= 1e18 {
            "huge-weights(>=1e18)"
        } else {
            "moderate-weights(1e-3..1e15)"
        };
        let nanf = if by == "nan" { "nan-weight-in-list" } else { "no-nan-weight" };
        mon.violation(
            &format!("sampler-frequency/heavier-not-favoured/{mag},{nanf}"),
            json!({"weight_scale": slabel, "bystander": by, "list_order": hpos, "direction": dir, "case": detail}),
        );
        "violated"
    } else {
        lc.add("freq.heavier-favoured", 1);
        "favoured"
    };
    mon.case(("freq", slabel, by, heavy_first, k, m.min(6), verdict));
    if verdict == "favoured" && by == "valid" && scale == 1.0 && take_sample_slot(3, 1) {
        mon.sample(json!({"lane": "frequency", "case": detail, "verdict": "heavier favoured"}));
    }
}

// ---------------------------------------------------------------------------------------------

fn main() {
    let mon = Monitor::new("C17", "exploration");
    mon.set_rule("case = one call: a selection (strategy or engine) on a seeded candidate set, one sample_nodes call, one calculate_weight call, or one 20000-draw frequency test. Selections and sampler calls are non-trivial when k >= 1 and candidates >= k. Distinct by (api, k, n bucket, geometry, collision pattern {pair<50km, region>2, asn>3, metadata gap, junk coords}, optimisation-weight class, Ok/Err kind); sampler by (k bucket, n bucket, weight classes present, duplicate ids, outcome); frequency by (weight scale, bystander kind, list order, k, verdict)");
    mon.assume("distance between two nodes = great-circle distance on a sphere of radius 6371 km; pairs within 10 m of the 50 km line are not judged");
    mon.assume("any Err is an acceptable outcome (the property only constrains Ok results and forbids panics)");
    mon.assume("junk coordinates (NaN / out of range, built through the public struct fields) have no defined distance: such pairs are skipped for the distance rule, every other rule still applies");
    mon.assume("frequency: for Efraimidis-Spirakis / successive sampling with weight ratio 4, P(only heavy | exactly one of the pair drawn) >= 0.8 for every k; a test is judged only when the Hoeffding false-alarm bound under that reference is < 1e-15 (sum over all tests of a run < 1e-9)");
    mon.assume("strategy iteration order over the candidate HashSet is process-random (RandomState); witnesses record the returned selection itself");

    let sel_per_shard = mon.by_tier(200_000u64, 1_000_000);
    let freq_per_shard = mon.by_tier(30usize, 320);
    let shards = mon.shards();
    oracle_selftest(&mon, mon.by_tier(6_000, 20_000));
    vkit::run_shards(shards, mon.seed, |shard, mut rng| {
        let rt = checks::rt(false);
        let trust = EigenTrustEngine::new(HashSet::new());
        let perf = PerformanceMonitor::new();
        let mut sampler = WeightedSampler::new();
        let mut lc = Local::default();
        // frequency tests first: a fixed grid, spread over the shards
        for i in 0..freq_per_shard {
            if mon.spent(0.5) {
                lc.add("skipped.freq-tests-not-run(budget)", 1);
                continue;
            }
            let combo = shard + i * shards;
            run_frequency(&mon, &mut lc, &mut sampler, &mut rng, combo);
        }
        for idx in 0..sel_per_shard {
            if idx % 256 == 0 && mon.spent(0.93) {
                break;
            }
            run_selection(&mon, &mut lc, &rt, &trust, &perf, &mut rng, idx);
            if idx % 3 == 0 {
                run_sampler(&mon, &mut lc, &mut sampler, &mut rng, idx);
            }
            if idx % 8 == 0 {
                run_weight(&mon, &mut lc, &sampler, &mut rng);
            }
            if idx % 64 == 0 {
                run_rf(&mon, &mut lc, &mut rng);
            }
            if idx % 4096 == 4095 {
                lc.flush(&mon);
            }
        }
        lc.flush(&mon);
    });
    if let Some((_, w)) = SMALLEST_PANIC.lock().take() {
        mon.extra("smallest_sampler_panic_witness", w);
    }
    mon.finish();
}
