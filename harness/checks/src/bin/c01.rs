//! C01 — iterative lookup returns the K closest responsive nodes it could learn of.
//! MemNet: real DhtNetworkManager nodes + scripted liars; oracle over the call/return
//! history and the RPC trace recorded at the transport send boundary.

use checks::keys::xor;
use memnet::*;
use saorsa_core::dht_network_manager::{DHTNode, DhtMessageType, DhtNetworkResult};
use serde_json::json;
use std::collections::{BTreeSet, HashMap, HashSet};
use std::net::SocketAddr;
use std::sync::Arc;
use std::time::Duration;
use vkit::{hex8, Monitor, Rng};

const REQ_TO: Duration = Duration::from_secs(2);
const CONN_TO: Duration = Duration::from_secs(1);

#[derive(Clone, Copy, Debug, PartialEq, Eq, Hash)]
enum Lie {
    Honest,
    UnknownDead,
    Duplicates,
    NamesRequester,
    NamesSelf,
    Huge,
    ForgedDistance,
    BadAddr,
    WrongVariant,
    ErrorType,
    Silent,
}
const LIES: [Lie; 11] = [
    Lie::Honest, Lie::UnknownDead, Lie::Duplicates, Lie::NamesRequester, Lie::NamesSelf, Lie::Huge,
    Lie::ForgedDistance, Lie::BadAddr, Lie::WrongVariant, Lie::ErrorType, Lie::Silent,
];

struct Ep {
    tid: [u8; 32],
    tid_hex: String,
    app_id: String,
    addr: SocketAddr,
    pos: [u8; 32],
    node: Option<SimNode>,
    lie: Option<Lie>,
}

fn dn(peer_id: &str, addr: &str, distance: Option<Vec<u8>>) -> DHTNode {
    DHTNode { peer_id: peer_id.to_string(), address: addr.to_string(), distance, reliability: 1.0, cached_dht_key: None }
}

/// the puppet's script: answer FindNode requests according to its lie class
fn spawn_puppet(
    hub: Arc<Hub>,
    me: (String, [u8; 32], String),
    lie: Lie,
    mut rx: tokio::sync::mpsc::UnboundedReceiver<(String, Vec<u8>)>,
    world: Arc<Vec<(String, String, [u8; 32], String)>>, // (tid_hex, addr, pos, app_id) of everyone
    seed: u64,
) {
    tokio::spawn(async move {
        let mut rng = Rng::new(seed);
        while let Some((from_hex, frame)) = rx.recv().await {
            let (_p, _s, msg) = summarize(&frame);
            let Some(m) = msg else { continue };
            if !matches!(m.message_type, DhtMessageType::Request) {
                continue;
            }
            let (op, key) = op_name(&m.payload);
            let key = key.unwrap_or([0u8; 32]);
            let requester = world.iter().find(|w| w.0 == from_hex).cloned();
            let mut nodes: Vec<DHTNode> = Vec::new();
            let mut mtype = DhtMessageType::Response;
            let mut result: Option<DhtNetworkResult> = None;
            match lie {
                Lie::Silent => continue,
                Lie::Honest => {
                    let mut v: Vec<_> = world.iter().filter(|w| w.0 != from_hex && w.0 != me.0).collect();
                    v.sort_by_key(|w| xor(&w.2, &key));
                    for w in v.into_iter().take(8) {
                        nodes.push(dn(&w.0, &w.1, Some(w.2.to_vec())));
                    }
                }
                Lie::UnknownDead => {
                    for i in 0..rng.urange(1, 12) {
                        let id = rng.arr32();
                        // close to the key so the lookup is tempted
                        let mut close = key;
                        close[31] ^= (i as u8).wrapping_add(1);
                        close[30] ^= id[0];
                        nodes.push(dn(&hex::encode(id), &format!("10.250.{}.{}:7{:03}", i, id[1], i), Some(close.to_vec())));
                    }
                }
                Lie::Duplicates => {
                    let others: Vec<_> = world.iter().filter(|w| w.0 != from_hex && w.0 != me.0).collect();
                    if !others.is_empty() {
                        let w = *rng.pick(&others);
                        for _ in 0..rng.urange(2, 9) {
                            nodes.push(dn(&w.0, &w.1, Some(w.2.to_vec())));
                        }
                        // and under its other spelling
                        nodes.push(dn(&hex::encode(w.2), &w.1, None));
                    }
                }
                Lie::NamesRequester => {
                    if let Some(r) = &requester {
                        nodes.push(dn(&r.0, &r.1, Some(r.2.to_vec())));
                        nodes.push(dn(&hex::encode(r.2), &r.1, None));
                        nodes.push(dn(&r.3, &r.1, None));
                    }
                }
                Lie::NamesSelf => {
                    nodes.push(dn(&me.0, &me.2, Some(me.1.to_vec())));
                    nodes.push(dn(&hex::encode(me.1), &me.2, None));
                }
                Lie::Huge => {
                    let n = if rng.chance(0.5) { 400 } else { 5000 };
                    for i in 0..n {
                        let id = rng.arr32();
                        nodes.push(dn(&hex::encode(id), &format!("10.251.{}.{}:7000", (i / 250) % 250, i % 250), None));
                    }
                }
                Lie::ForgedDistance => {
                    // real, far nodes advertised with distance bytes equal to the key itself
                    let mut v: Vec<_> = world.iter().filter(|w| w.0 != from_hex && w.0 != me.0).collect();
                    v.sort_by_key(|w| std::cmp::Reverse(xor(&w.2, &key)));
                    for w in v.into_iter().take(3) {
                        nodes.push(dn(&w.0, &w.1, Some(key.to_vec())));
                    }
                }
                Lie::BadAddr => {
                    let others: Vec<_> = world.iter().filter(|w| w.0 != from_hex && w.0 != me.0).collect();
                    for (i, w) in others.iter().take(4).enumerate() {
                        let a = ["", "not-an-address", "0.0.0.0:0", "999.1.1.1:70000"][i % 4];
                        nodes.push(dn(&w.0, a, Some(w.2.to_vec())));
                    }
                }
                Lie::WrongVariant => {
                    result = Some(if rng.chance(0.5) {
                        DhtNetworkResult::PongReceived { responder: me.0.clone(), latency: Duration::from_millis(1) }
                    } else {
                        DhtNetworkResult::PutSuccess { key, replicated_to: 1, peer_outcomes: vec![] }
                    });
                }
                Lie::ErrorType => {
                    mtype = DhtMessageType::Error;
                    result = Some(DhtNetworkResult::Error { operation: op.to_string(), error: "nope".into() });
                }
            }
            let result = result.or(Some(DhtNetworkResult::NodesFound { key, nodes }));
            let frame = dht_response_frame(&me.0, &m.message_id, &m.source, m.payload.clone(), result, mtype);
            hub.inject(
                {
                    let mut t = [0u8; 32];
                    t.copy_from_slice(&hex::decode(&me.0).unwrap_or(vec![0; 32])[..32]);
                    t
                },
                &from_hex,
                frame,
                Duration::from_micros(rng.range(0, 500)),
            );
        }
    });
}

#[derive(Clone, Copy, Debug, PartialEq, Eq, Hash)]
enum Topo {
    FullMesh,
    Ring,
    Line,
    Star,
    TwoClusters,
    Random,
    BootstrapOnly,
}
const TOPOS: [Topo; 7] = [Topo::FullMesh, Topo::Ring, Topo::Line, Topo::Star, Topo::TwoClusters, Topo::Random, Topo::BootstrapOnly];

fn edges(t: Topo, n: usize, rng: &mut Rng) -> Vec<(usize, usize)> {
    let mut e = Vec::new();
    match t {
        Topo::FullMesh => {
            for i in 0..n {
                for j in (i + 1)..n {
                    e.push((i, j));
                }
            }
        }
        Topo::Ring => {
            for i in 0..n {
                e.push((i, (i + 1) % n));
            }
        }
        Topo::Line => {
            for i in 0..n.saturating_sub(1) {
                e.push((i, i + 1));
            }
        }
        Topo::Star | Topo::BootstrapOnly => {
            for i in 1..n {
                e.push((i, 0));
            }
        }
        Topo::TwoClusters => {
            let h = n / 2;
            for i in 0..h {
                for j in (i + 1)..h {
                    e.push((i, j));
                }
            }
            for i in h..n {
                for j in (i + 1)..n {
                    e.push((i, j));
                }
            }
            if h > 0 && h < n {
                e.push((0, h));
            }
        }
        Topo::Random => {
            let d = rng.urange(2, 4);
            for i in 0..n {
                for _ in 0..d {
                    let j = rng.usize_below(n);
                    if j != i {
                        e.push((i, j));
                    }
                }
            }
        }
    }
    e.retain(|(a, b)| a != b);
    e
}

async fn scenario(mon: &Monitor, rng: &mut Rng) {
    let hub = Hub::new(rng.next_u64());
    hub.set_jitter_us(if rng.chance(0.5) { rng.range(0, 3000) } else { 0 });
    let n_real = rng.urange(2, mon.by_tier(14, 24));
    let n_pup = if rng.chance(0.45) { rng.urange(1, 6) } else { 0 };
    let topo = *rng.pick(&TOPOS);
    let cfg = NodeCfg { request_timeout: REQ_TO, connection_timeout: CONN_TO, ..Default::default() };
    let mut eps: Vec<Ep> = Vec::new();
    for i in 0..n_real {
        let tid = rng.arr32();
        let addr = sim_addr(i);
        match spawn_node(&hub, tid, addr, &cfg).await {
            Ok(node) => eps.push(Ep { tid, tid_hex: node.tid_hex.clone(), app_id: node.app_id.clone(), addr, pos: node.pos, node: Some(node), lie: None }),
            Err(e) => {
                mon.inconclusive(&format!("spawn_node failed: {e}"));
                return;
            }
        }
    }
    let mut rxs = Vec::new();
    for j in 0..n_pup {
        let tid = rng.arr32();
        let addr = sim_addr(n_real + j);
        let rx = hub.register_puppet(tid, addr);
        let tid_hex = hex::encode(tid);
        let lie = *rng.pick(&LIES);
        eps.push(Ep { tid, pos: pos_of(&tid_hex), app_id: tid_hex.clone(), tid_hex, addr, node: None, lie: Some(lie) });
        rxs.push(rx);
    }
    let world: Arc<Vec<(String, String, [u8; 32], String)>> =
        Arc::new(eps.iter().map(|e| (e.tid_hex.clone(), e.addr.to_string(), e.pos, e.app_id.clone())).collect());
    for (j, rx) in rxs.into_iter().enumerate() {
        let e = &eps[n_real + j];
        spawn_puppet(hub.clone(), (e.tid_hex.clone(), e.pos, e.addr.to_string()), e.lie.unwrap_or(Lie::Silent), rx, world.clone(), rng.next_u64());
    }
    // topology among real nodes
    for (a, b) in edges(topo, n_real, rng) {
        if let (Some(na), Some(_)) = (&eps[a].node, &eps[b].node) {
            let _ = na.mgr.connect_to_peer(&eps[b].addr.to_string()).await;
        }
    }
    // each puppet is known to 1..3 real nodes
    for j in 0..n_pup {
        for _ in 0..rng.urange(1, 3) {
            let a = rng.usize_below(n_real);
            if let Some(na) = &eps[a].node {
                let _ = na.mgr.connect_to_peer(&eps[n_real + j].addr.to_string()).await;
            }
        }
    }
    settle(Duration::from_millis(50)).await;

    // fault plan on real nodes
    let fault_class = rng.below(6);
    let mut faulty: HashSet<usize> = HashSet::new();
    if fault_class > 0 {
        for i in 0..n_real {
            if rng.chance(0.25) {
                faulty.insert(i);
                let f = match fault_class {
                    1 => FaultPlan { inbound: DeliverFault::Drop, ..Default::default() },
                    2 => FaultPlan { outbound: DeliverFault::Drop, ..Default::default() },
                    3 => FaultPlan { inbound: DeliverFault::Delay(Duration::from_millis(rng.range(10, 1500))), ..Default::default() },
                    4 => FaultPlan { outbound: DeliverFault::Delay(Duration::from_millis(rng.range(2100, 4000))), ..Default::default() },
                    _ => FaultPlan { connect: if rng.chance(0.5) { ConnectFault::Refuse } else { ConnectFault::Hang }, inbound: DeliverFault::Drop, ..Default::default() },
                };
                hub.set_fault(&eps[i].tid_hex, f);
            }
        }
    }
    let fault_free = faulty.is_empty() && n_pup == 0;

    // spellings -> endpoint index
    let mut spell: HashMap<String, usize> = HashMap::new();
    let mut by_pos: HashMap<[u8; 32], usize> = HashMap::new();
    for (i, e) in eps.iter().enumerate() {
        spell.insert(e.tid_hex.clone(), i);
        spell.insert(hex::encode(e.pos), i);
        spell.insert(e.app_id.clone(), i);
        by_pos.insert(e.pos, i);
    }

    let lookups = rng.urange(2, 6);
    for _ in 0..lookups {
        if mon.time_up() {
            break;
        }
        // the caller must not be a faulty node (its own sends would be dropped → trivial)
        let cands: Vec<usize> = (0..n_real).filter(|i| !faulty.contains(i)).collect();
        if cands.is_empty() {
            break;
        }
        let x = *rng.pick(&cands);
        let xe = &eps[x];
        let Some(xn) = xe.node.as_ref() else { continue };
        let key: [u8; 32] = match rng.below(6) {
            0 => xe.pos,
            1 => {
                let mut k = eps[rng.usize_below(eps.len())].pos;
                k[31] ^= 1 << rng.below(3);
                k
            }
            2 => [0u8; 32],
            3 => [0xff; 32],
            4 => eps[rng.usize_below(eps.len())].pos,
            _ => rng.arr32(),
        };
        let k = *rng.pick(&[0usize, 1, 2, 3, 8, 8, 16, 20, n_real + n_pup + 5]);

        // connections drop: some of X's peers are disconnected at the transport (they stay in X's
        // routing table and answer as soon as they are dialled again)
        let mut dropped_conns = 0usize;
        let mut dropped_ids: Vec<usize> = Vec::new();
        if rng.chance(0.35) {
            for (pid, _k, conn, _a) in xn.mgr.verif_dht_peers().await {
                if conn && dropped_conns < 3 && rng.chance(0.4) {
                    // a closed connection is closed for both ends (the transport reports the loss to the
                    // peer as well); a half-open link would make the peer unable to answer - a fault
                    let _ = xn.transport.disconnect_peer(&pid).await;
                    if let Some(pn) = spell.get(&pid).and_then(|i| eps[*i].node.as_ref()) {
                        let _ = pn.transport.disconnect_peer(&xe.tid_hex).await;
                    }
                    if let Some(i) = spell.get(&pid) {
                        dropped_ids.push(*i);
                    }
                    dropped_conns += 1;
                }
            }
            if dropped_conns > 0 {
                settle(Duration::from_millis(10)).await;
                mon.count("lookups.after_connection_drop", 1);
            }
        }
        // what X knows at call time
        let rt = xn.mgr.verif_routing_snapshot().await;
        let peers = xn.mgr.verif_dht_peers().await;
        let mut learned: BTreeSet<usize> = BTreeSet::new();
        let mut reach: HashMap<usize, bool> = HashMap::new(); // could X get a request onto the wire?
        for (id, addr) in &rt {
            if let Some(&i) = by_pos.get(id) {
                learned.insert(i);
                let a = addr.split(" (").next().unwrap_or(addr);
                if a.parse::<SocketAddr>().ok() == Some(eps[i].addr) {
                    reach.insert(i, true);
                }
            }
        }
        for (pid, _k, conn, _a) in &peers {
            if *conn {
                if let Some(&i) = spell.get(pid) {
                    learned.insert(i);
                    reach.insert(i, true);
                }
            }
        }
        learned.remove(&x);
        // does the caller know every other node right now (routing table or live connection)?
        let knows_everybody = (0..n_real).filter(|i| *i != x).all(|i| learned.contains(&i));

        let t0 = hub.trace_len();
        let c0 = hub.connects().len();
        let bound = (CONN_TO + REQ_TO) * 20 + Duration::from_secs(1);
        let started = hub.now();
        let res = tokio::time::timeout(bound, xn.mgr.find_closest_nodes(&key, k)).await;
        let returned = hub.now();
        let frames = hub.trace_since(t0);
        let dials: Vec<_> = hub.connects()[c0..].to_vec();
        mon.eval();

        let ctx = |extra: serde_json::Value| {
            json!({"topology": format!("{topo:?}"), "n_real": n_real, "puppets": eps[n_real..].iter().map(|e| format!("{:?}", e.lie)).collect::<Vec<_>>(),
                   "fault_class": fault_class, "faulty": faulty.len(), "connections_dropped_before_lookup": dropped_conns, "caller": hex8(&xe.tid), "key": hex::encode(key), "k": k,
                   "virtual_ms": (returned - started).as_millis() as u64, "detail": extra})
        };
        let result = match res {
            Err(_) => {
                mon.violation("termination/exceeded-virtual-bound", ctx(json!({"bound_ms": bound.as_millis() as u64})));
                continue;
            }
            Ok(Err(e)) => {
                // an error return is a legitimate completion; nothing else to judge
                mon.count("lookups.returned_err", 1);
                let _ = e;
                continue;
            }
            Ok(Ok(v)) => v,
        };

        // requests of this lookup
        let reqs: Vec<&Frame> = frames
            .iter()
            .filter(|f| f.src == xe.tid_hex && f.dht.as_ref().is_some_and(|d| d.mtype == "Request" && d.op == "FindNode" && d.key == Some(key)))
            .collect();
        mon.count("frames.request", reqs.len() as u64);
        let req_ids: HashSet<&str> = reqs.iter().filter_map(|f| f.dht.as_ref().map(|d| d.message_id.as_str())).collect();
        let resps: Vec<&Frame> = frames
            .iter()
            .filter(|f| {
                f.dst == xe.tid_hex
                    && f.fate != "dropped"
                    && f.fate != "no-such-peer"
                    && f.deliver_at.is_some_and(|t| t <= returned)
                    && f.dht.as_ref().is_some_and(|d| d.mtype == "Response" && req_ids.contains(d.message_id.as_str()))
            })
            .collect();
        mon.count("frames.response", resps.len() as u64);
        // "answered" = a response from the queried peer entered the receive loop before that
        // request's own timeout; replies landing within 5 ms of the deadline are undecidable
        let mut answered: HashSet<usize> = HashSet::new();
        let mut answered_maybe: HashSet<usize> = HashSet::new();
        // replies the lookup can have seen: delivered before their request timed out
        let mut seen_replies: Vec<&Frame> = Vec::new();
        for f in &resps {
            let Some(id) = f.dht.as_ref().map(|d| d.message_id.as_str()) else { continue };
            let Some(rq) = reqs.iter().find(|r| r.dht.as_ref().is_some_and(|d| d.message_id == id)) else { continue };
            if rq.dst != f.src {
                continue;
            }
            let Some(&i) = spell.get(&f.src) else { continue };
            let (Some(at), sent) = (f.deliver_at, rq.t) else { continue };
            let edge = sent + REQ_TO;
            if at + Duration::from_millis(5) < edge {
                answered.insert(i);
                seen_replies.push(f);
            } else if at < edge + Duration::from_millis(5) {
                answered_maybe.insert(i);
            }
        }
        // everything named in delivered replies
        let mut phantoms = 0usize;
        // peers some reply named with an address that is not theirs: the lookup may have queued
        // that address first, so "never got a request" is not decidable for them
        let mut poisoned: HashSet<usize> = HashSet::new();
        let connected_at_call: HashSet<usize> = reach.keys().copied().collect();
        for f in &seen_replies {
            if let Some(m) = &f.msg {
                if let Some(DhtNetworkResult::NodesFound { nodes, .. }) = &m.result {
                    for nd in nodes.iter().take(400) {
                        match spell.get(&nd.peer_id) {
                            Some(&i) if i != x => {
                                learned.insert(i);
                                let a = nd.address.split(" (").next().unwrap_or(&nd.address);
                                if a.parse::<SocketAddr>().ok() == Some(eps[i].addr) {
                                    reach.insert(i, true);
                                } else if !connected_at_call.contains(&i) {
                                    poisoned.insert(i);
                                }
                            }
                            Some(_) => {}
                            None => phantoms += 1,
                        }
                    }
                }
            }
        }
        let nontrivial = learned.len() >= 2 && !reqs.is_empty();
        if nontrivial {
            mon.case((topo, n_real, n_pup, k, fault_class, reqs.len().min(30), result.len()));
        }
        // delivery-order signature for evidence
        {
            use std::hash::{Hash, Hasher};
            let mut h = std::collections::hash_map::DefaultHasher::new();
            for f in &frames {
                (spell.get(&f.src), spell.get(&f.dst), f.dht.as_ref().map(|d| d.mtype)).hash(&mut h);
            }
            mon.case(("order", h.finish()));
        }

        // (1) request budget
        if reqs.len() > 60 {
            mon.violation("budget/more-than-60-requests", ctx(json!({"requests": reqs.len()})));
        }
        // (5) never to self
        if frames.iter().any(|f| f.src == xe.tid_hex && f.dst == xe.tid_hex) {
            mon.violation("self/request-sent-to-local-node", ctx(json!({})));
        }
        if dials.iter().any(|d| d.1 == xe.tid_hex && d.2 == xe.addr) {
            mon.violation("self/dialled-own-address", ctx(json!({})));
        }
        // (6) nobody queried twice
        let mut seen_dst: HashMap<&str, usize> = HashMap::new();
        for r in &reqs {
            *seen_dst.entry(r.dst.as_str()).or_insert(0) += 1;
        }
        if let Some((d, c)) = seen_dst.iter().find(|(_, c)| **c > 1) {
            mon.violation("dup-query/peer-queried-twice", ctx(json!({"peer": &d[..8], "times": c})));
        }
        // (2) size and distinctness
        let mapped: Vec<Option<usize>> = result.iter().map(|r| spell.get(&r.peer_id).copied()).collect();
        if result.len() > k {
            mon.violation("result/longer-than-k", ctx(json!({"len": result.len()})));
        }
        let mut seen = HashSet::new();
        for m in mapped.iter().flatten() {
            if !seen.insert(*m) {
                let both_spellings = result.iter().filter(|r| spell.get(&r.peer_id) == Some(m)).map(|r| r.peer_id.len()).collect::<Vec<_>>();
                mon.violation("result/same-node-twice", ctx(json!({"node": hex8(&eps[*m].tid), "spellings": both_spellings.len()})));
                break;
            }
        }
        // (4) membership: caller or answered
        for (r, m) in result.iter().zip(&mapped) {
            match m {
                None => {
                    mon.violation("result/names-node-that-never-answered/unknown-id", ctx(json!({"peer_id": r.peer_id.chars().take(16).collect::<String>()})));
                    break;
                }
                Some(i) if *i == x => {}
                Some(i) if answered.contains(i) || answered_maybe.contains(i) => {}
                Some(i) => {
                    let kind = if eps[*i].lie.is_some() { "puppet" } else if faulty.contains(i) { "faulty-peer" } else { "healthy-peer" };
                    mon.violation(&format!("result/names-node-that-never-answered/{kind}"), ctx(json!({"node": hex8(&eps[*i].tid), "lie": format!("{:?}", eps[*i].lie)})));
                    break;
                }
            }
        }
        // (3) ascending true distance
        let dists: Vec<[u8; 32]> = mapped.iter().flatten().map(|i| xor(&eps[*i].pos, &key)).collect();
        if dists.windows(2).any(|w| w[0] > w[1]) {
            let forged = eps[n_real..].iter().any(|e| e.lie == Some(Lie::ForgedDistance));
            mon.violation(if forged { "order/not-ascending/forged-distance-present" } else { "order/not-ascending" }, ctx(json!({"result": mapped.iter().flatten().map(|i| hex8(&eps[*i].tid)).collect::<Vec<_>>()})));
        }
        // rounds = distinct instants at which requests went out; the lookup has 20 of them, and a sparse
        // topology that reveals one new peer per round (a line of 24) legitimately runs out of rounds
        // (with zero-latency delivery several rounds share one virtual instant, so rounds are read off the
        // trace order: a batch's requests are all on the wire before the caller yields, i.e. before any
        // reply; a reply to the caller, or a later instant, ends the batch)
        let rounds = {
            let (mut n, mut in_run, mut last_t) = (0usize, false, Duration::ZERO);
            for f in &frames {
                let is_req = f.src == xe.tid_hex && f.dht.as_ref().is_some_and(|d| d.mtype == "Request" && d.op == "FindNode" && d.key == Some(key));
                let is_reply = f.dst == xe.tid_hex && f.dht.as_ref().is_some_and(|d| d.mtype == "Response" && req_ids.contains(d.message_id.as_str()));
                if is_req {
                    if !in_run || f.t != last_t {
                        n += 1;
                    }
                    in_run = true;
                    last_t = f.t;
                } else if is_reply {
                    in_run = false;
                }
            }
            n
        };
        if rounds >= 19 {
            mon.count("skipped.closure-iteration-budget-may-bind", 1);
        }
        // (7) closure — judged only when neither the request budget nor the round budget can be the excuse
        if learned.len() + phantoms <= 25 && rounds < 19 {
            let far: Option<[u8; 32]> = if result.len() >= k && k > 0 { dists.last().copied() } else if k == 0 { Some([0u8; 32]) } else { None };
            let queried: HashSet<usize> = reqs.iter().filter_map(|r| spell.get(&r.dst).copied()).collect();
            let dial_failed: HashSet<usize> = dials
                .iter()
                .filter(|d| d.1 == xe.tid_hex && d.3 != "accepted")
                .filter_map(|d| eps.iter().position(|e| e.addr == d.2))
                .collect();
            let rset: HashSet<usize> = mapped.iter().flatten().copied().collect();
            let faulty_late: HashSet<usize> = HashSet::new();
            for &p in &learned {
                let dp = xor(&eps[p].pos, &key);
                let closer = match far {
                    Some(f) => dp < f,
                    None => true,
                };
                if !closer {
                    continue;
                }
                mon.eval();
                if !queried.contains(&p) && !dial_failed.contains(&p) && poisoned.contains(&p) {
                    mon.count("skipped.closure-peer-named-with-foreign-address", 1);
                    continue;
                }
                if !queried.contains(&p) && !dial_failed.contains(&p) && reach.get(&p).copied().unwrap_or(false) {
                    let sig = if result.len() < k { "closure/short-result-with-unqueried-learned-peer" } else { "closure/closer-learned-peer-never-queried" };
                    let mut rank: Vec<usize> = learned.iter().copied().chain(std::iter::once(x)).collect();
                    rank.sort_by_key(|i| xor(&eps[*i].pos, &key));
                    let replies: Vec<serde_json::Value> = seen_replies.iter().map(|f| {
                        let names: Vec<String> = match f.msg.as_ref().and_then(|m| m.result.as_ref()) {
                            Some(DhtNetworkResult::NodesFound { nodes, .. }) => nodes.iter().take(12).map(|n| format!("{}@{}", &n.peer_id[..8.min(n.peer_id.len())], n.address)).collect(),
                            Some(o) => vec![result_name(o).to_string()],
                            None => vec![],
                        };
                        json!({"from": &f.src[..8], "at_us": f.deliver_at.map(|d| d.as_micros() as u64), "names": names})
                    }).collect();
                    mon.violation(sig, ctx(json!({"peer": hex8(&eps[p].tid), "result_len": result.len(), "learned": learned.len(), "requests": reqs.len(),
                        "requests_to": reqs.iter().map(|r| format!("{}@{}us", &r.dst[..8], r.t.as_micros())).collect::<Vec<_>>(),
                        "replies": replies,
                        "rank_by_distance": rank.iter().map(|i| format!("{}{}", hex8(&eps[*i].tid), if *i == x { "(self)" } else { "" })).collect::<Vec<_>>(),
                        "result": result.iter().map(|r| r.peer_id[..8.min(r.peer_id.len())].to_string()).collect::<Vec<_>>(),
                        "dials": dials.iter().map(|d| format!("{}->{} {}", &d.1[..8], d.2, d.3)).collect::<Vec<_>>(),
                        "rt_at_call": rt.iter().map(|(id, a)| format!("{}@{}", by_pos.get(id).map(|i| hex8(&eps[*i].tid)).unwrap_or_default(), a)).collect::<Vec<_>>(),
                        "dht_peers_at_call": peers.iter().map(|(pid, _, c, a)| format!("{} conn={} addrs={:?}", &pid[..8.min(pid.len())], c, a)).collect::<Vec<_>>(),
                        "transport_peers_now": xn.transport.connected_peers().await.iter().map(|p| p[..8.min(p.len())].to_string()).collect::<Vec<_>>()})));
                    break;
                }
                if answered.contains(&p) && !rset.contains(&p) && eps[p].lie.is_none() && !faulty_late.contains(&p) {
                    mon.violation("closure/answering-closer-peer-not-returned", ctx(json!({"peer": hex8(&eps[p].tid), "result_len": result.len()})));
                    break;
                }
            }
        } else {
            mon.count("skipped.closure-budget-may-bind", 1);
        }
        // (8) full mesh, no faults: exactly the min(K,N) globally closest
        // a peer whose connection was dropped and that has no routing-table entry (its bucket was full) is no
        // longer known to the caller: the world is then not one "where every node knows every other"
        // (connections dropped before this or an EARLIER lookup of the scenario stay down until somebody dials again)
        let _ = &dropped_ids;
        if topo == Topo::FullMesh && fault_free && !knows_everybody {
            mon.count("skipped.fullmesh-caller-no-longer-knows-everybody", 1);
        }
        if topo == Topo::FullMesh && fault_free && knows_everybody && rounds < 19 {
            mon.eval();
            let mut all: Vec<usize> = (0..n_real).collect();
            all.sort_by_key(|i| xor(&eps[*i].pos, &key));
            all.truncate(k.min(n_real));
            let got: Vec<usize> = mapped.iter().flatten().copied().collect();
            if got != all {
                mon.violation("fullmesh/not-the-k-globally-closest", ctx(json!({"expected": all.iter().map(|i| hex8(&eps[*i].tid)).collect::<Vec<_>>(), "got": got.iter().map(|i| hex8(&eps[*i].tid)).collect::<Vec<_>>(), "requests": reqs.len()})));
            }
        }
        if mon.want_sample() && nontrivial {
            mon.sample(ctx(json!({"requests": reqs.len(), "responses": resps.len(), "result": mapped.iter().map(|m| m.map(|i| hex8(&eps[i].tid))).collect::<Vec<_>>(), "learned": learned.len(), "phantoms": phantoms})));
        }
        mon.count("lookups", 1);
    }
    for e in &eps {
        if let Some(n) = &e.node {
            // stop background tasks so the runtime drops cleanly
            let _ = tokio::time::timeout(Duration::from_secs(120), n.mgr.stop()).await;
            let _ = n.transport.stop().await;
        }
    }
}

fn main() {
    let mon = Monitor::new("C01", "exploration");
    mon.set_rule("case = one find_closest_nodes lookup on a MemNet of real nodes (+ scripted liars) judged from its call/return and RPC trace; non-trivial when >=2 remote peers were known/learned and >=1 request frame was observed; distinct by (topology, N, puppets, K, fault class, #requests, result size) plus distinct frame delivery orders");
    mon.assume("in-memory link replaces ant-quic below TransportHandle; node ids aligned (local_peer_id = hex transport id); virtual (paused) clock");
    mon.assume("closure is judged only when learned+phantom ids <= 25 so the 20x3 request budget cannot be the reason a peer was skipped");
    let per_shard = mon.by_tier(600u64, 40_000);
    vkit::run_shards(mon.shards(), mon.seed, |_i, mut rng| {
        for _ in 0..per_shard {
            if mon.time_up() {
                break;
            }
            let rt = checks::rt(true);
            rt.block_on(scenario(&mon, &mut rng));
            mon.count("scenarios", 1);
        }
    });
    mon.finish();
}
