//! C08 — signatures verify only for the exact message and key that produced them.
//!
//! Oracle (restates the property, not the code): a presentation (public key, message,
//! signature) is ACCEPTED iff the signature was produced by the identity owning exactly that
//! public key over exactly that message and nothing was modified afterwards.  Every verify
//! entry point of the library is driven with genuine triples (must accept) and with mutants
//! (1-bit flips of message / signature / key, other identity's key, other message, garbage;
//! must NOT accept: `Ok(false)`, `Err` and "does not parse" all count as "verification fails").
//! The same verdict function is applied to address-bound node ids, update packages (plus
//! checksum / pinned / validity-window conditions) and record write authorisers.

use saorsa_core::auth::{
    CompositeWriteAuth, DelegatedWriteAuth, PubKey, Sig, SingleWriteAuth, ThresholdWriteAuth, WriteAuth,
};
use saorsa_core::identity::node_identity::{IdentityData, NodeIdentity};
use saorsa_core::identity::secure_node_identity::SecureNodeIdentity;
use saorsa_core::key_derivation::{DerivationPath, DerivedKey, HierarchicalKeyDerivation, MasterSeed};
use saorsa_core::quantum_crypto::ant_quic_integration::{
    ml_dsa_sign, ml_dsa_verify, MlDsaPublicKey, MlDsaSignature,
};
use saorsa_core::security::{GenericIpNodeID, IPv4NodeID, IPv6NodeID};
use saorsa_core::upgrade::{PinnedKey, SignatureVerifier};
use serde_json::json;
use sha2::{Digest, Sha256};
use std::net::{Ipv4Addr, Ipv6Addr};
use std::path::Path;
use tokio::runtime::Runtime;
use vkit::{Monitor, Rng};

const PK_LEN: usize = 1952;
const SK_LEN: usize = 4032;
const SIG_LEN: usize = 3309;
// FIPS 204 ML-DSA-65 signature layout: c~ (48) || z (3200) || hint (61)
const SIG_Z_OFF: usize = 48;
const SIG_H_OFF: usize = 48 + 3200;

// ------------------------------------------------------------------------------------------
// small helpers (kept in this file on purpose: one file per property)
// ------------------------------------------------------------------------------------------

fn b64(data: &[u8]) -> String {
    const T: &[u8; 64] = b"ABCDEFGHIJKLMNOPQRSTUVWXYZabcdefghijklmnopqrstuvwxyz0123456789+/";
    let mut s = String::with_capacity(data.len().div_ceil(3) * 4);
    for ch in data.chunks(3) {
        let b = [ch[0], *ch.get(1).unwrap_or(&0), *ch.get(2).unwrap_or(&0)];
        let n = ((b[0] as u32) << 16) | ((b[1] as u32) << 8) | b[2] as u32;
        s.push(T[(n >> 18) as usize & 63] as char);
        s.push(T[(n >> 12) as usize & 63] as char);
        s.push(if ch.len() > 1 { T[(n >> 6) as usize & 63] as char } else { '=' });
        s.push(if ch.len() > 2 { T[n as usize & 63] as char } else { '=' });
    }
    s
}

fn sha256_hex(d: &[u8]) -> String {
    let mut h = Sha256::new();
    h.update(d);
    hex::encode(h.finalize())
}

fn flip(v: &mut [u8], bit: usize) {
    v[bit / 8] ^= 1 << (bit % 8);
}

fn flipped(v: &[u8], bit: usize) -> Vec<u8> {
    let mut o = v.to_vec();
    flip(&mut o, bit);
    o
}

fn now_secs() -> u64 {
    std::time::SystemTime::now()
        .duration_since(std::time::UNIX_EPOCH)
        .map(|d| d.as_secs())
        .unwrap_or(0)
}

fn short(s: &str) -> String {
    s.chars().take(140).collect()
}

fn sig_region(bit: usize) -> &'static str {
    let b = bit / 8;
    if b < SIG_Z_OFF {
        "sig.ctilde"
    } else if b < SIG_H_OFF {
        "sig.z"
    } else {
        "sig.hint"
    }
}

fn key_region(bit: usize) -> &'static str {
    if bit / 8 < 32 {
        "key.rho"
    } else {
        "key.t1"
    }
}

/// seeded + structural bit positions in a field of `nbits` bits
fn positions(rng: &mut Rng, nbits: usize, sampled: usize, structural: &[usize]) -> Vec<usize> {
    let mut v: Vec<usize> = structural.iter().copied().filter(|b| *b < nbits).collect();
    if nbits == 0 {
        return v;
    }
    if nbits <= sampled {
        return (0..nbits).collect();
    }
    for _ in 0..sampled {
        v.push(rng.usize_below(nbits));
    }
    v.sort_unstable();
    v.dedup();
    v
}

fn gen_msg(rng: &mut Rng) -> Vec<u8> {
    let len = match rng.below(8) {
        0 => 0,
        1 => 1,
        2 => rng.urange(2, 16),
        3 => rng.urange(17, 64),
        4 | 5 => rng.urange(65, 1024),
        6 => rng.urange(1025, 4096),
        _ => 4096,
    };
    match rng.below(5) {
        0 => vec![0u8; len],
        1 => vec![0xFFu8; len],
        2 => (0..len).map(|i| b"saorsa-record/"[i % 14]).collect(),
        _ => rng.bytes(len),
    }
}

// ------------------------------------------------------------------------------------------
// identities of every kind
// ------------------------------------------------------------------------------------------

const KINDS: &[&str] = &[
    "generate",
    "import",
    "file",
    "from_seed",
    "derive_path",
    "derive_cached",
    "secure_generate",
    "secure_from_seed",
];

enum Id {
    Node(NodeIdentity),
    Secure(SecureNodeIdentity),
    Derived(DerivedKey),
}

impl Id {
    fn pk(&self) -> Vec<u8> {
        match self {
            Id::Node(n) => n.public_key().as_bytes().to_vec(),
            Id::Secure(s) => s.public_key().as_bytes().to_vec(),
            Id::Derived(d) => d.public_key.as_bytes().to_vec(),
        }
    }
    fn sign(&self, m: &[u8]) -> Result<Vec<u8>, String> {
        match self {
            Id::Node(n) => n.sign(m).map(|s| s.as_bytes().to_vec()).map_err(|e| e.to_string()),
            Id::Secure(s) => s.sign(m).map(|s| s.as_bytes().to_vec()).map_err(|e| e.to_string()),
            Id::Derived(d) => ml_dsa_sign(&d.secret_key, m)
                .map(|s| s.as_bytes().to_vec())
                .map_err(|e| e.to_string()),
        }
    }
    /// the identity's own verify method where it has one
    fn verify_self(&self, m: &[u8], sig: &[u8]) -> Option<Verdict> {
        let s = match MlDsaSignature::from_bytes(sig) {
            Ok(s) => s,
            Err(e) => return Some(Verdict::RejectErr(format!("sig parse: {e}"))),
        };
        match self {
            Id::Node(n) => Some(Verdict::from_res(n.verify(m, &s).map_err(|e| e.to_string()))),
            Id::Secure(x) => Some(Verdict::from_res(x.verify(m, &s).map_err(|e| e.to_string()))),
            Id::Derived(_) => None,
        }
    }
}

fn make_id(kind: &str, rng: &mut Rng, rt: &Runtime, dir: &Path, detail: &mut String) -> Result<Id, String> {
    match kind {
        "generate" => NodeIdentity::generate().map(Id::Node).map_err(|e| e.to_string()),
        "import" => {
            let g = NodeIdentity::generate().map_err(|e| e.to_string())?;
            // through the serialised exported form
            let js = serde_json::to_string(&g.export()).map_err(|e| e.to_string())?;
            let data: IdentityData = serde_json::from_str(&js).map_err(|e| e.to_string())?;
            NodeIdentity::import(&data).map(Id::Node).map_err(|e| e.to_string())
        }
        "file" => {
            let g = NodeIdentity::generate().map_err(|e| e.to_string())?;
            let p = dir.join(format!("sub-{}/id-{}.json", rng.below(4), rng.next_u64()));
            rt.block_on(g.save_to_file(&p)).map_err(|e| e.to_string())?;
            let r = rt.block_on(NodeIdentity::load_from_file(&p)).map_err(|e| e.to_string());
            let _ = std::fs::remove_file(&p);
            r.map(Id::Node)
        }
        "from_seed" => {
            let seed = rng.arr32();
            *detail = format!("seed={}", hex::encode(seed));
            NodeIdentity::from_seed(&seed).map(Id::Node).map_err(|e| e.to_string())
        }
        "derive_path" | "derive_cached" => {
            let elen = rng.urange(32, 48);
            let ent = rng.bytes(elen);
            let ms = MasterSeed::from_entropy(&ent).map_err(|e| e.to_string())?;
            let mut h = HierarchicalKeyDerivation::new(ms);
            let depth = match rng.below(4) {
                0 => 0,
                1 => 10,
                _ => rng.urange(1, 5),
            };
            let comps: Vec<u32> = (0..depth)
                .map(|_| {
                    let i = rng.below(1000) as u32;
                    if rng.chance(0.5) {
                        i | 0x8000_0000
                    } else {
                        i
                    }
                })
                .collect();
            let path = DerivationPath::new(comps).map_err(|e| e.to_string())?;
            *detail = format!("entropy={} path={}", hex::encode(&ent), path);
            let k = h.derive_key(&path).map_err(|e| e.to_string())?;
            if kind == "derive_cached" {
                h.derive_key(&path).map(Id::Derived).map_err(|e| e.to_string())
            } else {
                Ok(Id::Derived(k))
            }
        }
        "secure_generate" => SecureNodeIdentity::generate().map(Id::Secure).map_err(|e| e.to_string()),
        "secure_from_seed" => {
            let seed = rng.arr32();
            *detail = format!("seed={}", hex::encode(seed));
            SecureNodeIdentity::from_seed(&seed).map(Id::Secure).map_err(|e| e.to_string())
        }
        _ => Err("unknown kind".into()),
    }
}

// ------------------------------------------------------------------------------------------
// verdicts and entry points
// ------------------------------------------------------------------------------------------

#[derive(Debug, Clone)]
enum Verdict {
    Accept,
    RejectFalse,
    RejectErr(String),
    Panic(String),
}

impl Verdict {
    fn from_res(r: Result<bool, String>) -> Verdict {
        match r {
            Ok(true) => Verdict::Accept,
            Ok(false) => Verdict::RejectFalse,
            Err(e) => Verdict::RejectErr(e),
        }
    }
    fn accepted(&self) -> bool {
        matches!(self, Verdict::Accept)
    }
    fn label(&self) -> String {
        match self {
            Verdict::Accept => "accept".into(),
            Verdict::RejectFalse => "false".into(),
            Verdict::RejectErr(e) => format!("err:{}", short(e)),
            Verdict::Panic(e) => format!("panic:{}", short(e)),
        }
    }
    fn class(&self) -> &'static str {
        match self {
            Verdict::Accept => "accept",
            Verdict::RejectFalse => "false",
            Verdict::RejectErr(_) => "err",
            Verdict::Panic(_) => "panic",
        }
    }
}

/// entry points that take a bare (public key, message, signature) triple
const EPS: &[&str] = &[
    "ml_dsa_verify",
    "NodeIdentity::verify",
    "SingleWriteAuth",
    "DelegatedWriteAuth",
    "verify_signature",
    "composite_all",
    "composite_any",
];

fn decoy_key(rng: &mut Rng) -> PubKey {
    // parses as a key (any 1952 bytes do) but belongs to nobody
    PubKey::new(rng.bytes(PK_LEN))
}

fn present(ep: &str, rt: &Runtime, rng: &mut Rng, pk: &[u8], msg: &[u8], sig: &[u8]) -> Verdict {
    let r = vkit::catch(|| match ep {
        "ml_dsa_verify" => {
            let k = match MlDsaPublicKey::from_bytes(pk) {
                Ok(k) => k,
                Err(e) => return Verdict::RejectErr(format!("key parse: {e}")),
            };
            let s = match MlDsaSignature::from_bytes(sig) {
                Ok(s) => s,
                Err(e) => return Verdict::RejectErr(format!("sig parse: {e}")),
            };
            Verdict::from_res(ml_dsa_verify(&k, msg, &s).map_err(|e| e.to_string()))
        }
        "NodeIdentity::verify" => {
            // an identity restored with this public key (import only checks lengths)
            let data = IdentityData { secret_key: vec![7u8; SK_LEN], public_key: pk.to_vec() };
            let id = match NodeIdentity::import(&data) {
                Ok(i) => i,
                Err(e) => return Verdict::RejectErr(format!("import: {e}")),
            };
            let s = match MlDsaSignature::from_bytes(sig) {
                Ok(s) => s,
                Err(e) => return Verdict::RejectErr(format!("sig parse: {e}")),
            };
            Verdict::from_res(id.verify(msg, &s).map_err(|e| e.to_string()))
        }
        "SingleWriteAuth" => {
            let a = SingleWriteAuth::new(PubKey::new(pk.to_vec()));
            Verdict::from_res(rt.block_on(a.verify(msg, &[Sig::new(sig.to_vec())])).map_err(|e| e.to_string()))
        }
        "DelegatedWriteAuth" => {
            let mut keys = vec![decoy_key(rng), PubKey::new(pk.to_vec()), decoy_key(rng)];
            rng.shuffle(&mut keys);
            let a = DelegatedWriteAuth::new(keys);
            Verdict::from_res(rt.block_on(a.verify(msg, &[Sig::new(sig.to_vec())])).map_err(|e| e.to_string()))
        }
        "verify_signature" => {
            let v = SignatureVerifier::new(vec![PinnedKey::new("k1", b64(pk))]);
            Verdict::from_res(v.verify_signature("k1", msg, &b64(sig)).map_err(|e| e.to_string()))
        }
        "composite_all" => {
            // both children name the same key: conjunction of two checks of the same triple
            let a = CompositeWriteAuth::all(vec![
                Box::new(SingleWriteAuth::new(PubKey::new(pk.to_vec()))),
                Box::new(DelegatedWriteAuth::new(vec![decoy_key(rng), PubKey::new(pk.to_vec())])),
            ]);
            Verdict::from_res(rt.block_on(a.verify(msg, &[Sig::new(sig.to_vec())])).map_err(|e| e.to_string()))
        }
        "composite_any" => {
            let a = CompositeWriteAuth::any(vec![
                Box::new(DelegatedWriteAuth::new(vec![decoy_key(rng)])),
                Box::new(SingleWriteAuth::new(PubKey::new(pk.to_vec()))),
            ]);
            Verdict::from_res(rt.block_on(a.verify(msg, &[Sig::new(sig.to_vec())])).map_err(|e| e.to_string()))
        }
        _ => Verdict::RejectErr("unknown ep".into()),
    });
    match r {
        Ok(v) => v,
        Err(p) => Verdict::Panic(p),
    }
}

/// Violation signatures must not depend on which region a seeded flip happened to land in
/// (the region stays in the case signature and in the witness).
fn stable_part(part: &str) -> &str {
    if part.starts_with("sig.") {
        "sig-bit"
    } else if part.starts_with("key.") {
        "key-bit"
    } else {
        part
    }
}

/// One oracle judgement. `genuine` = the triple is exactly (owner key, signed message, untouched
/// signature). `one_bit` = the presentation is a genuine triple or a 1-bit mutant of one.
#[allow(clippy::too_many_arguments)]
fn judge(
    mon: &Monitor,
    ep: &str,
    kind: &str,
    part: &str,
    genuine: bool,
    nontrivial: bool,
    v: &Verdict,
    detail: impl FnOnce() -> serde_json::Value,
) {
    mon.eval();
    mon.count(&format!("verdict.{}.{}", if genuine { "genuine" } else { "mutant" }, v.class()), 1);
    if nontrivial {
        mon.case((ep, kind, part));
    }
    if let Verdict::Panic(p) = v {
        let mut d = detail();
        d["panic"] = json!(short(p));
        d["kind"] = json!(kind);
        mon.violation(&format!("panic/{ep}/{}", stable_part(part)), d);
        return;
    }
    if genuine && !v.accepted() {
        let mut d = detail();
        d["observed"] = json!(v.label());
        d["kind"] = json!(kind);
        mon.violation(&format!("genuine-rejected/{ep}/{kind}"), d);
    } else if !genuine && v.accepted() {
        let mut d = detail();
        d["observed"] = json!("accepted");
        d["kind"] = json!(kind);
        mon.violation(&format!("accepts-mutant/{ep}/{}", stable_part(part)), d);
    }
}

// ------------------------------------------------------------------------------------------
// family A: identities, all kinds, all triple entry points
// ------------------------------------------------------------------------------------------

fn identity_family(mon: &Monitor, rng: &mut Rng, rt: &Runtime, dir: &Path, kind: &'static str, exhaustive: bool) {
    let mut how = String::new();
    let id = match vkit::catch(|| make_id(kind, rng, rt, dir, &mut how)) {
        Ok(Ok(i)) => i,
        Ok(Err(e)) => {
            // no identity came into existence: nothing to judge (weak seeds are refused by design)
            mon.count(&format!("construct.err.{kind}"), 1);
            if mon.counter(&format!("construct.err.{kind}")) <= 1 {
                mon.extra(&format!("construct_err_example.{kind}"), json!(short(&e)));
            }
            return;
        }
        Err(p) => {
            mon.eval();
            mon.violation(&format!("panic/construct/{kind}"), json!({"panic": short(&p), "how": how}));
            return;
        }
    };
    mon.count(&format!("identity.{kind}"), 1);
    let pk = id.pk();
    let msg = gen_msg(rng);

    // --- round trip: sign, then verify under the identity's own key
    let sig = match vkit::catch(|| id.sign(&msg)) {
        Ok(Ok(s)) => s,
        Ok(Err(e)) => {
            // The identity was handed out as usable (constructor returned Ok) but cannot produce
            // the signature the property quantifies over.
            mon.eval();
            mon.case(("sign", kind, "genuine"));
            mon.count("roundtrip.sign_error", 1);
            mon.violation(
                &format!("roundtrip/{kind}/sign-error"),
                json!({"kind": kind, "how": how, "msg_len": msg.len(), "error": short(&e),
                       "pk_prefix": hex::encode(&pk[..8])}),
            );
            return;
        }
        Err(p) => {
            mon.eval();
            mon.violation(&format!("panic/sign/{kind}"), json!({"panic": short(&p), "how": how}));
            return;
        }
    };
    mon.count("signatures.made", 1);
    let base = present("ml_dsa_verify", rt, rng, &pk, &msg, &sig);
    mon.eval();
    mon.case(("ml_dsa_verify", kind, "genuine"));
    mon.count(&format!("verdict.genuine.{}", base.class()), 1);
    if !base.accepted() {
        mon.count("roundtrip.rejected", 1);
        mon.violation(
            &format!("roundtrip/{kind}/genuine-rejected"),
            json!({"kind": kind, "how": how, "msg_len": msg.len(), "observed": base.label(),
                   "pk_prefix": hex::encode(&pk[..8]), "sig_prefix": hex::encode(&sig[..8])}),
        );
        mon.count("skipped.no-genuine-signature", 1);
        return;
    }
    if let Some(v) = id.verify_self(&msg, &sig) {
        judge(mon, "self.verify", kind, "genuine", true, true, &v, || json!({"how": how, "msg_len": msg.len()}));
    }
    for ep in EPS.iter().skip(1) {
        let v = present(ep, rt, rng, &pk, &msg, &sig);
        judge(mon, ep, kind, "genuine", true, true, &v, || json!({"how": how, "msg_len": msg.len()}));
    }
    if mon.counter("samples.identity-genuine") < 1 {
        mon.count("samples.identity-genuine", 1);
        mon.sample(json!({"family": "identity", "kind": kind, "how": how, "msg_len": msg.len(),
            "msg_prefix": hex::encode(&msg[..msg.len().min(16)]), "pk_prefix": hex::encode(&pk[..8]),
            "sig_prefix": hex::encode(&sig[..8]), "genuine": "accepted at all entry points"}));
    }

    let mut epi = rng.usize_below(EPS.len());
    let mut next_ep = || {
        epi = (epi + 1) % EPS.len();
        EPS[epi]
    };

    // --- message mutants
    let mbits = msg.len() * 8;
    let nmsg = if exhaustive { 4096 } else { mon.by_tier(128, 256) };
    for bit in positions(rng, mbits, nmsg, &[0, 7, mbits.saturating_sub(1), mbits / 2]) {
        let m2 = flipped(&msg, bit);
        let ep = next_ep();
        let v = present(ep, rt, rng, &pk, &m2, &sig);
        judge(mon, ep, kind, "msg-bit", false, true, &v, || {
            json!({"how": how, "msg_len": msg.len(), "flipped_msg_bit": bit, "msg": hex::encode(&msg[..msg.len().min(64)])})
        });
        if mon.counter("samples.identity-mutant") < 1 && rng.chance(0.01) {
            mon.count("samples.identity-mutant", 1);
            mon.sample(json!({"family": "identity", "kind": kind, "ep": ep, "mutant": "msg-bit", "bit": bit,
                "msg_len": msg.len(), "observed": v.label()}));
        }
    }
    let mut others: Vec<(&str, Vec<u8>)> = Vec::new();
    if !msg.is_empty() {
        others.push(("msg-truncated", msg[..msg.len() - 1].to_vec()));
        others.push(("msg-truncated", msg[1..].to_vec()));
        others.push(("msg-other", Vec::new()));
    }
    let mut ext = msg.clone();
    ext.push(0);
    others.push(("msg-extended", ext));
    let mut pre = vec![0u8];
    pre.extend_from_slice(&msg);
    others.push(("msg-extended", pre));
    others.push(("msg-other", gen_msg(rng)));
    for (part, m2) in others {
        if m2 == msg {
            continue;
        }
        let ep = next_ep();
        let v = present(ep, rt, rng, &pk, &m2, &sig);
        judge(mon, ep, kind, part, false, true, &v, || {
            json!({"how": how, "msg_len": msg.len(), "presented_len": m2.len()})
        });
    }

    // --- signature mutants
    let sbits = SIG_LEN * 8;
    let nsig = if exhaustive { sbits } else { mon.by_tier(40, 256) };
    let structural = [
        0,
        7,
        SIG_Z_OFF * 8 - 1,
        SIG_Z_OFF * 8,
        SIG_Z_OFF * 8 + 19,
        SIG_H_OFF * 8 - 1,
        SIG_H_OFF * 8,
        (SIG_H_OFF + 30) * 8,
        (SIG_LEN - 7) * 8,
        (SIG_LEN - 6) * 8,
        sbits - 8,
        sbits - 1,
    ];
    for bit in positions(rng, sbits, nsig, &structural) {
        let s2 = flipped(&sig, bit);
        let ep = if exhaustive && bit % 16 != 0 { "ml_dsa_verify" } else { next_ep() };
        let v = present(ep, rt, rng, &pk, &msg, &s2);
        judge(mon, ep, kind, sig_region(bit), false, true, &v, || {
            json!({"how": how, "msg_len": msg.len(), "flipped_sig_bit": bit, "region": sig_region(bit)})
        });
        if mon.counter("samples.identity-mutant") < 1 && rng.chance(0.01) {
            mon.count("samples.identity-mutant", 1);
            mon.sample(json!({"family": "identity", "kind": kind, "ep": ep, "mutant": sig_region(bit), "bit": bit,
                "msg_len": msg.len(), "observed": v.label()}));
        }
    }
    // not 1-bit: garbage and length changes
    let garbage: Vec<(&str, Vec<u8>)> = vec![
        ("sig-garbage", rng.bytes(SIG_LEN)),
        ("sig-garbage", vec![0u8; SIG_LEN]),
        ("sig-truncated", sig[..SIG_LEN - 1].to_vec()),
        ("sig-extended", {
            let mut s = sig.clone();
            s.push(0);
            s
        }),
        ("sig-empty", Vec::new()),
    ];
    for (part, s2) in garbage {
        let ep = next_ep();
        let v = present(ep, rt, rng, &pk, &msg, &s2);
        judge(mon, ep, kind, part, false, false, &v, || json!({"how": how, "sig_len": s2.len()}));
    }

    // --- key mutants
    let kbits = PK_LEN * 8;
    let nkey = if exhaustive { kbits } else { mon.by_tier(40, 256) };
    for bit in positions(rng, kbits, nkey, &[0, 7, 255, 256, 265, 266, kbits - 8, kbits - 1]) {
        let k2 = flipped(&pk, bit);
        let ep = if exhaustive && bit % 16 != 0 { "ml_dsa_verify" } else { next_ep() };
        let v = present(ep, rt, rng, &k2, &msg, &sig);
        judge(mon, ep, kind, key_region(bit), false, true, &v, || {
            json!({"how": how, "msg_len": msg.len(), "flipped_key_bit": bit, "region": key_region(bit)})
        });
        if mon.counter("samples.identity-mutant") < 1 && rng.chance(0.01) {
            mon.count("samples.identity-mutant", 1);
            mon.sample(json!({"family": "identity", "kind": kind, "ep": ep, "mutant": key_region(bit), "bit": bit,
                "msg_len": msg.len(), "observed": v.label()}));
        }
    }
    for (part, k2) in [("key-truncated", pk[..PK_LEN - 1].to_vec()), ("key-garbage", rng.bytes(PK_LEN))] {
        let ep = next_ep();
        let v = present(ep, rt, rng, &k2, &msg, &sig);
        judge(mon, ep, kind, part, false, false, &v, || json!({"how": how, "key_len": k2.len()}));
    }

    // --- another identity's key (pairs of distinct identities, every kind on the other side)
    for _ in 0..2 {
        let okind = *rng.pick(KINDS);
        let mut ohow = String::new();
        let Ok(Ok(other)) = vkit::catch(|| make_id(okind, rng, rt, dir, &mut ohow)) else {
            continue;
        };
        let opk = other.pk();
        if opk == pk {
            mon.count("skipped.same-key-pair", 1);
            continue;
        }
        let ep = next_ep();
        // A's genuine signature under B's key
        let v = present(ep, rt, rng, &opk, &msg, &sig);
        judge(mon, ep, kind, "other-key", false, true, &v, || {
            json!({"how": how, "other_kind": okind, "other_how": ohow, "msg_len": msg.len()})
        });
        if let Some(v) = other.verify_self(&msg, &sig) {
            judge(mon, "self.verify", okind, "other-key", false, true, &v, || {
                json!({"signer_kind": kind, "how": how, "other_how": ohow})
            });
        }
        // B's genuine signature (if it can sign) under A's key
        if let Ok(Ok(osig)) = vkit::catch(|| other.sign(&msg)) {
            let ep = next_ep();
            let v = present(ep, rt, rng, &pk, &msg, &osig);
            judge(mon, ep, kind, "other-signer", false, true, &v, || {
                json!({"how": how, "signer_kind": okind, "signer_how": ohow})
            });
            if let Some(v) = id.verify_self(&msg, &osig) {
                judge(mon, "self.verify", kind, "other-signer", false, true, &v, || {
                    json!({"how": how, "signer_kind": okind})
                });
            }
        }
    }
}

// ------------------------------------------------------------------------------------------
// family B: address-bound node identities
// ------------------------------------------------------------------------------------------

#[derive(Clone)]
struct RawIpId {
    node_id: Vec<u8>,
    ip: Vec<u8>, // 4 or 16 octets
    pk: Vec<u8>,
    sig: Vec<u8>,
    ts: u64,
    salt: Vec<u8>,
}

impl RawIpId {
    /// what an attacker does after touching a bound field: re-derive the (public, unkeyed) id
    fn rebind(&mut self) {
        let mut h = Sha256::new();
        h.update(&self.ip);
        h.update(&self.pk);
        h.update(&self.salt);
        h.update(self.ts.to_le_bytes());
        self.node_id = h.finalize().to_vec();
    }
    fn verify(&self, api: &str) -> Verdict {
        let r = vkit::catch(|| {
            if self.ip.len() == 4 {
                let ip = Ipv4Addr::new(self.ip[0], self.ip[1], self.ip[2], self.ip[3]);
                if api == "generic" {
                    GenericIpNodeID::<Ipv4Addr> {
                        node_id: self.node_id.clone(),
                        ip_addr: ip,
                        public_key: self.pk.clone(),
                        signature: self.sig.clone(),
                        timestamp_secs: self.ts,
                        salt: self.salt.clone(),
                    }
                    .verify()
                } else {
                    IPv4NodeID {
                        node_id: self.node_id.clone(),
                        ipv4_addr: ip,
                        public_key: self.pk.clone(),
                        signature: self.sig.clone(),
                        timestamp_secs: self.ts,
                        salt: self.salt.clone(),
                    }
                    .verify()
                }
            } else {
                let mut o = [0u8; 16];
                o.copy_from_slice(&self.ip);
                let ip = Ipv6Addr::from(o);
                if api == "generic" {
                    GenericIpNodeID::<Ipv6Addr> {
                        node_id: self.node_id.clone(),
                        ip_addr: ip,
                        public_key: self.pk.clone(),
                        signature: self.sig.clone(),
                        timestamp_secs: self.ts,
                        salt: self.salt.clone(),
                    }
                    .verify()
                } else {
                    IPv6NodeID {
                        node_id: self.node_id.clone(),
                        ipv6_addr: ip,
                        public_key: self.pk.clone(),
                        signature: self.sig.clone(),
                        timestamp_secs: self.ts,
                        salt: self.salt.clone(),
                    }
                    .verify()
                }
            }
        });
        match r {
            Ok(x) => Verdict::from_res(x.map_err(|e| e.to_string())),
            Err(p) => Verdict::Panic(p),
        }
    }
}

fn gen_ip(rng: &mut Rng, v6: bool) -> Vec<u8> {
    let n = if v6 { 16 } else { 4 };
    match rng.below(5) {
        0 => vec![0u8; n],
        1 => vec![0xFF; n],
        2 if v6 => {
            let mut v = vec![0u8; 16];
            v[15] = 1;
            v
        }
        2 => vec![127, 0, 0, 1],
        _ => rng.bytes(n),
    }
}

fn ip_family(mon: &Monitor, rng: &mut Rng, v6: bool) {
    let fam = if v6 { "ipv6" } else { "ipv4" };
    let Ok(id) = NodeIdentity::generate() else {
        mon.count("skipped.keygen-failed", 1);
        return;
    };
    let Ok(other) = NodeIdentity::generate() else {
        return;
    };
    let sk = match saorsa_core::quantum_crypto::ant_quic_integration::MlDsaSecretKey::from_bytes(id.secret_key_bytes()) {
        Ok(s) => s,
        Err(_) => return,
    };
    let osk = match saorsa_core::quantum_crypto::ant_quic_integration::MlDsaSecretKey::from_bytes(other.secret_key_bytes()) {
        Ok(s) => s,
        Err(_) => return,
    };
    let ipb = gen_ip(rng, v6);
    let mk = |ipb: &[u8],
              sk: &saorsa_core::quantum_crypto::ant_quic_integration::MlDsaSecretKey,
              pk: &MlDsaPublicKey|
     -> Result<RawIpId, String> {
        if ipb.len() == 4 {
            let g = IPv4NodeID::generate(Ipv4Addr::new(ipb[0], ipb[1], ipb[2], ipb[3]), sk, pk).map_err(|e| e.to_string())?;
            Ok(RawIpId { node_id: g.node_id, ip: g.ipv4_addr.octets().to_vec(), pk: g.public_key, sig: g.signature, ts: g.timestamp_secs, salt: g.salt })
        } else {
            let mut o = [0u8; 16];
            o.copy_from_slice(ipb);
            let g = IPv6NodeID::generate(Ipv6Addr::from(o), sk, pk).map_err(|e| e.to_string())?;
            Ok(RawIpId { node_id: g.node_id, ip: g.ipv6_addr.octets().to_vec(), pk: g.public_key, sig: g.signature, ts: g.timestamp_secs, salt: g.salt })
        }
    };
    let raw = match vkit::catch(|| mk(&ipb, &sk, id.public_key())) {
        Ok(Ok(r)) => r,
        Ok(Err(e)) => {
            mon.eval();
            mon.violation(&format!("ip-node-id/{fam}/generate-error"), json!({"ip": hex::encode(&ipb), "error": short(&e)}));
            return;
        }
        Err(p) => {
            mon.eval();
            mon.violation(&format!("panic/ip-node-id/{fam}/generate"), json!({"panic": short(&p)}));
            return;
        }
    };
    mon.count(&format!("ipid.{fam}"), 1);
    let ctx = |r: &RawIpId| {
        json!({"ip": hex::encode(&r.ip), "ts": r.ts, "salt": hex::encode(&r.salt),
               "node_id": hex::encode(&r.node_id), "pk_prefix": hex::encode(&r.pk[..r.pk.len().min(8)]), "sig_len": r.sig.len()})
    };
    // genuine, through wrapper and generic struct
    let mut ok = true;
    for api in ["wrapper", "generic"] {
        let v = raw.verify(api);
        ok &= v.accepted();
        judge(mon, &format!("ipid.{api}"), fam, "genuine", true, true, &v, || ctx(&raw));
    }
    if !ok {
        mon.count("skipped.no-genuine-signature", 1);
        return;
    }
    if mon.counter("samples.ipid") < 1 {
        mon.count("samples.ipid", 1);
        mon.sample(json!({"family": "ip-node-id", "fam": fam, "id": ctx(&raw), "genuine": "accepted"}));
    }
    let mut apis = ["wrapper", "generic"].iter().cycle();
    let mut try_mut = |part: &str, one_bit: bool, m: RawIpId, rng: &mut Rng| {
        let _ = rng;
        if m.node_id == raw.node_id && m.ip == raw.ip && m.pk == raw.pk && m.sig == raw.sig && m.ts == raw.ts && m.salt == raw.salt {
            return;
        }
        let api = *apis.next().unwrap_or(&"wrapper");
        let v = m.verify(api);
        judge(mon, &format!("ipid.{api}"), fam, part, false, one_bit, &v, || {
            json!({"tamper": part, "original": ctx(&raw), "presented": ctx(&m)})
        });
    };
    let n = mon.by_tier(6, 24);
    // id field itself
    for bit in positions(rng, 256, n, &[0, 255]) {
        let mut m = raw.clone();
        flip(&mut m.node_id, bit);
        try_mut("node_id-bit", true, m, rng);
    }
    // address: naive and with the id re-derived (then only the signature protects the binding)
    for bit in positions(rng, raw.ip.len() * 8, n, &[0, raw.ip.len() * 8 - 1]) {
        let mut m = raw.clone();
        flip(&mut m.ip, bit);
        try_mut("ip-bit", true, m.clone(), rng);
        m.rebind();
        try_mut("ip-bit+rebind", true, m, rng);
    }
    for bit in positions(rng, PK_LEN * 8, n, &[0, 256, PK_LEN * 8 - 1]) {
        let mut m = raw.clone();
        flip(&mut m.pk, bit);
        try_mut("key-bit", true, m.clone(), rng);
        m.rebind();
        try_mut("key-bit+rebind", true, m, rng);
    }
    for bit in positions(rng, raw.salt.len() * 8, n, &[0, raw.salt.len() * 8 - 1]) {
        let mut m = raw.clone();
        flip(&mut m.salt, bit);
        try_mut("salt-bit", true, m.clone(), rng);
        m.rebind();
        try_mut("salt-bit+rebind", true, m, rng);
    }
    for bit in positions(rng, 64, n, &[0, 63]) {
        let mut m = raw.clone();
        m.ts ^= 1u64 << bit;
        try_mut("ts-bit", true, m.clone(), rng);
        m.rebind();
        try_mut("ts-bit+rebind", true, m, rng);
    }
    for bit in positions(rng, SIG_LEN * 8, mon.by_tier(12, 64), &[0, SIG_Z_OFF * 8, SIG_H_OFF * 8, SIG_LEN * 8 - 1]) {
        let mut m = raw.clone();
        flip(&mut m.sig, bit);
        try_mut(sig_region(bit), true, m, rng);
    }
    // structural, not 1-bit
    {
        // salt bytes moved across the salt|timestamp boundary, id re-derived
        let mut m = raw.clone();
        let tsb = m.ts.to_le_bytes();
        if let Some(last) = m.salt.pop() {
            let mut nb = [0u8; 8];
            nb[0] = last;
            nb[1..].copy_from_slice(&tsb[..7]);
            m.ts = u64::from_le_bytes(nb);
            m.rebind();
            try_mut("salt-ts-shift+rebind", false, m, rng);
        }
        let mut m = raw.clone();
        m.salt.clear();
        m.rebind();
        try_mut("salt-empty+rebind", false, m, rng);
        let mut m = raw.clone();
        m.salt.push(0);
        m.rebind();
        try_mut("salt-extended+rebind", false, m, rng);
        let mut m = raw.clone();
        m.sig.pop();
        try_mut("sig-truncated", false, m, rng);
        let mut m = raw.clone();
        m.sig = rng.bytes(SIG_LEN);
        try_mut("sig-garbage", false, m, rng);
        let mut m = raw.clone();
        m.node_id.clear();
        try_mut("node_id-empty", false, m, rng);
    }
    // another identity's key over the same binding, id re-derived; and the other identity's own
    // genuine id for another address transplanted onto this address
    {
        let mut m = raw.clone();
        m.pk = other.public_key().as_bytes().to_vec();
        m.rebind();
        try_mut("other-key+rebind", true, m, rng);
        let ip2 = {
            let mut x = gen_ip(rng, v6);
            if x == raw.ip {
                x[0] ^= 1;
            }
            x
        };
        if let Ok(Ok(o)) = vkit::catch(|| mk(&ip2, &osk, other.public_key())) {
            // other's signature on this id
            let mut m = raw.clone();
            m.sig = o.sig.clone();
            try_mut("other-signer-sig", true, m, rng);
            // other's complete genuine id moved to this address
            let mut m = o.clone();
            m.ip = raw.ip.clone();
            try_mut("other-id-moved-here", true, m.clone(), rng);
            m.rebind();
            try_mut("other-id-moved-here+rebind", true, m, rng);
        }
        // same owner, genuine id for another address, signature transplanted
        if let Ok(Ok(s2)) = vkit::catch(|| mk(&ip2, &sk, id.public_key())) {
            let mut m = raw.clone();
            m.sig = s2.sig.clone();
            try_mut("same-owner-other-ip-sig", true, m, rng);
            let mut m = s2.clone();
            m.ip = raw.ip.clone();
            m.rebind();
            try_mut("same-owner-id-moved+rebind", true, m, rng);
        }
    }
    // cross-family reinterpretation: the very same signed byte string parsed with the other
    // address width (address bytes bleed into the key, key bytes into the salt)
    {
        let mut blob = raw.ip.clone();
        blob.extend_from_slice(&raw.pk);
        blob.extend_from_slice(&raw.salt);
        let other_w = if v6 { 4 } else { 16 };
        if blob.len() >= other_w + PK_LEN {
            let mut m = RawIpId {
                node_id: raw.node_id.clone(),
                ip: blob[..other_w].to_vec(),
                pk: blob[other_w..other_w + PK_LEN].to_vec(),
                sig: raw.sig.clone(),
                ts: raw.ts,
                salt: blob[other_w + PK_LEN..].to_vec(),
            };
            let v = m.verify("wrapper");
            judge(mon, "ipid.wrapper", fam, "cross-family-reparse", false, false, &v, || {
                json!({"original": ctx(&raw), "presented": ctx(&m)})
            });
            m.rebind();
            let v = m.verify("generic");
            judge(mon, "ipid.generic", fam, "cross-family-reparse", false, false, &v, || {
                json!({"original": ctx(&raw), "presented": ctx(&m)})
            });
        }
    }
}

// ------------------------------------------------------------------------------------------
// family C: update packages (checksum + pinned, currently valid key + signature)
// ------------------------------------------------------------------------------------------

const DAY: u64 = 86_400;

/// reference model of "pinned key is currently valid"; None = too close to a boundary to decide
fn window_valid(now: u64, from: u64, until: u64) -> Option<bool> {
    let near = |t: u64| t != 0 && t.abs_diff(now) < 120;
    if near(from) || near(until) {
        return None;
    }
    Some(now >= from && (until == 0 || now < until))
}

struct PkgCase {
    part: &'static str,
    one_bit: bool,
    checksum: String,
    key_id: String,
    sig_b64: String,
    /// model inputs
    checksum_matches: bool,
    key_known: bool,
    key_valid: Option<bool>,
    sig_genuine: bool,
}

fn update_family(mon: &Monitor, rng: &mut Rng, rt: &Runtime, dir: &Path) {
    let (Ok(signer), Ok(other)) = (NodeIdentity::generate(), NodeIdentity::generate()) else {
        mon.count("skipped.keygen-failed", 1);
        return;
    };
    let spk = signer.public_key().as_bytes().to_vec();
    let opk = other.public_key().as_bytes().to_vec();
    let now = now_secs();
    let content = gen_msg(rng);
    let Ok(sig) = signer.sign(&content).map(|s| s.as_bytes().to_vec()) else {
        mon.count("skipped.sign-failed", 1);
        return;
    };
    let path = dir.join(format!("pkg-{}.bin", rng.next_u64()));
    if std::fs::write(&path, &content).is_err() {
        mon.count("skipped.io", 1);
        return;
    }
    let good_sum = sha256_hex(&content);
    let good_sig = b64(&sig);

    // pinned keys: (id, owner key, from, until)
    let far = rng.range(2 * DAY, 4000 * DAY);
    let windows: Vec<(&str, &Vec<u8>, u64, u64)> = vec![
        ("always", &spk, 0, 0),
        ("window", &spk, now - far.min(now - 1), now + far),
        ("until0", &spk, now - DAY, 0),
        ("future", &spk, now + far, 0),
        ("future-bounded", &spk, now + far, now + 2 * far),
        ("expired", &spk, 0, now - far.min(now - 2)),
        ("expired-long-ago", &spk, 0, 1),
        ("never", &spk, u64::MAX, 0),
        ("inverted", &spk, now + far, now - DAY),
        ("other", &opk, 0, 0),
    ];
    let pinned: Vec<PinnedKey> = windows
        .iter()
        .map(|(id, k, f, u)| {
            let mut p = PinnedKey::new(*id, b64(k));
            p.valid_from = *f;
            p.valid_until = *u;
            p
        })
        .collect();
    let verifier = SignatureVerifier::new(pinned);
    let win_of = |id: &str| windows.iter().find(|w| w.0 == id).map(|w| (w.1 == &spk, w.2, w.3));

    let base = |part: &'static str, key_id: &str| -> PkgCase {
        let w = win_of(key_id);
        PkgCase {
            part,
            one_bit: false,
            checksum: good_sum.clone(),
            key_id: key_id.to_string(),
            sig_b64: good_sig.clone(),
            checksum_matches: true,
            key_known: w.is_some(),
            key_valid: w.map(|(_, f, u)| window_valid(now, f, u)).unwrap_or(Some(false)),
            sig_genuine: w.map(|(owner, _, _)| owner).unwrap_or(false),
        }
    };
    let mut cases: Vec<PkgCase> = Vec::new();
    for (id, part) in [
        ("always", "genuine"),
        ("window", "genuine-window"),
        ("until0", "genuine-until0"),
        ("future", "key-not-yet-valid"),
        ("future-bounded", "key-not-yet-valid"),
        ("expired", "key-expired"),
        ("expired-long-ago", "key-expired"),
        ("never", "key-not-yet-valid"),
        ("inverted", "key-window-inverted"),
        ("other", "other-key-id"),
        ("unknown", "unknown-key-id"),
        ("", "unknown-key-id"),
        ("ALWAYS", "unknown-key-id"),
    ] {
        let mut c = base(part, id);
        c.one_bit = part.starts_with("genuine") || part == "other-key-id";
        cases.push(c);
    }
    // checksum mutants (key "always", genuine signature)
    let mut sum_mut = |part: &'static str, s: String, one_bit: bool| {
        let mut c = base(part, "always");
        c.checksum_matches = s.to_ascii_lowercase() == good_sum;
        c.checksum = s;
        c.one_bit = one_bit;
        cases.push(c);
    };
    for _ in 0..mon.by_tier(3, 8) {
        let pos = rng.usize_below(64);
        let mut b = good_sum.clone().into_bytes();
        let d = (b[pos] as char).to_digit(16).unwrap_or(0) ^ (1 << rng.below(4));
        b[pos] = std::char::from_digit(d, 16).unwrap_or('0') as u8;
        sum_mut("checksum-bit", String::from_utf8_lossy(&b).into_owned(), true);
    }
    for k in [0usize, 1, 8, 32, 62, 63] {
        sum_mut("checksum-prefix", good_sum[..k].to_string(), false);
    }
    sum_mut("checksum-suffix", good_sum[1..].to_string(), false);
    sum_mut("checksum-extended", format!("{good_sum}0"), false);
    sum_mut("checksum-extended", format!("{good_sum}{good_sum}"), false);
    sum_mut("checksum-other-content", sha256_hex(&rng.bytes(content.len() + 1)), false);
    sum_mut("checksum-padded", format!(" {good_sum}"), false);
    // signature mutants
    for bit in positions(rng, SIG_LEN * 8, mon.by_tier(10, 48), &[0, SIG_Z_OFF * 8, SIG_H_OFF * 8, SIG_LEN * 8 - 1]) {
        let mut c = base(sig_region(bit), "always");
        c.sig_b64 = b64(&flipped(&sig, bit));
        c.sig_genuine = false;
        c.one_bit = true;
        cases.push(c);
    }
    for (part, s) in [
        ("sig-garbage", b64(&rng.bytes(SIG_LEN))),
        ("sig-truncated", b64(&sig[..SIG_LEN - 1])),
        ("sig-not-base64", "!!not base64!!".to_string()),
        ("sig-empty", String::new()),
        ("sig-is-key", b64(&spk)),
    ] {
        let mut c = base(part, "always");
        c.sig_b64 = s;
        c.sig_genuine = false;
        cases.push(c);
    }
    if let Ok(osig) = other.sign(&content) {
        let mut c = base("other-signer", "always");
        c.sig_b64 = b64(osig.as_bytes());
        c.sig_genuine = false;
        c.one_bit = true;
        cases.push(c);
    }

    let run = |mon: &Monitor, v: &SignatureVerifier, c: &PkgCase, path: &Path, disk: &[u8], what: &str| {
        let Some(kv) = c.key_valid else {
            mon.count("skipped.clock-near-window-edge", 1);
            return;
        };
        let expect_file = c.checksum_matches && c.key_known && kv && c.sig_genuine;
        let expect_sig = c.key_known && kv && c.sig_genuine;
        let det = |api: &str, obs: String| {
            json!({"api": api, "case": c.part, "scenario": what, "key_id": c.key_id, "content_len": disk.len(),
                   "expected_sha256": c.checksum, "actual_sha256": sha256_hex(disk), "now": now,
                   "pinned_window": win_of(&c.key_id).map(|(_, f, u)| json!([f, u])),
                   "model": {"checksum_matches": c.checksum_matches, "key_known": c.key_known, "key_valid": kv, "sig_genuine": c.sig_genuine},
                   "observed": obs})
        };
        // verify_file
        let r = vkit::catch(|| rt.block_on(v.verify_file(path, &c.checksum, &c.key_id, &c.sig_b64)));
        mon.eval();
        if c.one_bit {
            mon.case(("verify_file", "update", c.part));
        }
        match r {
            Err(p) => mon.violation(&format!("panic/update/verify_file/{}", c.part), det("verify_file", short(&p))),
            Ok(res) => {
                mon.count(&format!("update.verify_file.{}", if res.is_ok() { "ok" } else { "err" }), 1);
                if expect_file && res.is_err() {
                    mon.violation(
                        &format!("update/verify_file/rejects/{}", c.part),
                        det("verify_file", short(&res.err().map(|e| e.to_string()).unwrap_or_default())),
                    );
                } else if !expect_file && res.is_ok() {
                    mon.violation(&format!("update/verify_file/accepts/{}", c.part), det("verify_file", "Ok(())".into()));
                }
            }
        }
        // verify_signature (no checksum involved): only when the checksum is not the mutated part
        if c.checksum == good_sum {
            let r = vkit::catch(|| v.verify_signature(&c.key_id, disk, &c.sig_b64));
            mon.eval();
            if c.one_bit {
                mon.case(("verify_signature", "update", c.part));
            }
            match r {
                Err(p) => mon.violation(&format!("panic/update/verify_signature/{}", c.part), det("verify_signature", short(&p))),
                Ok(res) => {
                    let acc = matches!(res, Ok(true));
                    if expect_sig && !acc {
                        mon.violation(
                            &format!("update/verify_signature/rejects/{}", c.part),
                            det("verify_signature", short(&format!("{res:?}"))),
                        );
                    } else if !expect_sig && acc {
                        mon.violation(&format!("update/verify_signature/accepts/{}", c.part), det("verify_signature", "Ok(true)".into()));
                    }
                }
            }
        }
    };
    for c in &cases {
        run(mon, &verifier, c, &path, &content, "file as signed");
    }
    mon.count("update.packages", 1);
    if mon.counter("samples.update") < 1 {
        mon.count("samples.update", 1);
        mon.sample(json!({"family": "update", "content_len": content.len(), "sha256": good_sum, "cases": cases.len(),
            "pinned": windows.iter().map(|w| json!([w.0, w.2, w.3])).collect::<Vec<_>>()}));
    }
    // upper-case checksum: same value, either answer is within the property -> observed only
    {
        let r = rt.block_on(verifier.verify_file(&path, &good_sum.to_uppercase(), "always", &good_sig));
        mon.count(&format!("observed.uppercase-checksum.{}", if r.is_ok() { "ok" } else { "err" }), 1);
    }

    // pinned key altered by one bit (a different verifier), genuine package
    for bit in positions(rng, PK_LEN * 8, mon.by_tier(6, 32), &[0, 256, PK_LEN * 8 - 1]) {
        let v2 = SignatureVerifier::new(vec![PinnedKey::new("always", b64(&flipped(&spk, bit)))]);
        let mut c = base(key_region(bit), "always");
        c.sig_genuine = false;
        c.one_bit = true;
        run(mon, &v2, &c, &path, &content, "pinned key with one bit flipped");
    }
    {
        let v2 = SignatureVerifier::new(vec![PinnedKey::new("always", "%%%")]);
        let mut c = base("pinned-key-not-base64", "always");
        c.sig_genuine = false;
        run(mon, &v2, &c, &path, &content, "pinned key not base64");
        // add_key replaces a pinned key: the replaced owner's signatures stop verifying
        let mut v3 = SignatureVerifier::new(vec![PinnedKey::new("always", b64(&spk))]);
        v3.add_key(PinnedKey::new("always", b64(&opk)));
        let mut c = base("pinned-key-replaced", "always");
        c.sig_genuine = false;
        c.one_bit = true;
        run(mon, &v3, &c, &path, &content, "key id re-pinned to another identity");
    }

    // file changed on disk after signing
    if !content.is_empty() {
        for bit in positions(rng, content.len() * 8, mon.by_tier(4, 16), &[0, content.len() * 8 - 1]) {
            let disk = flipped(&content, bit);
            if std::fs::write(&path, &disk).is_err() {
                continue;
            }
            // (a) manifest still carries the old checksum
            let mut c = base("content-bit", "always");
            c.checksum_matches = false;
            c.sig_genuine = false;
            c.one_bit = true;
            run(mon, &verifier, &c, &path, &disk, "file bit flipped, old checksum");
            // (b) attacker also fixes the checksum: only the signature is left
            let mut c = base("content-bit+checksum-recomputed", "always");
            c.checksum = sha256_hex(&disk);
            c.checksum_matches = true;
            c.sig_genuine = false;
            c.one_bit = true;
            run(mon, &verifier, &c, &path, &disk, "file bit flipped, checksum recomputed");
        }
        for (part, disk) in [("content-truncated", content[..content.len() - 1].to_vec()), ("content-extended", {
            let mut d = content.clone();
            d.push(0);
            d
        })] {
            if std::fs::write(&path, &disk).is_err() {
                continue;
            }
            let mut c = base(part, "always");
            c.checksum = sha256_hex(&disk);
            c.sig_genuine = false;
            run(mon, &verifier, &c, &path, &disk, "file length changed, checksum recomputed");
        }
    }
    let _ = std::fs::remove_file(&path);
}

// ------------------------------------------------------------------------------------------
// family D: record write authorisation (single / delegated / threshold / composite)
// ------------------------------------------------------------------------------------------

/// model of one presented signature: who made it, over which record, and whether it was touched
#[derive(Clone)]
struct MSig {
    bytes: Vec<u8>,
    /// index of the signing identity in `ids`, None for garbage
    signer: Option<usize>,
    over_presented_record: bool,
    intact: bool,
}

impl MSig {
    fn valid_for(&self, key_owner: usize) -> bool {
        self.signer == Some(key_owner) && self.over_presented_record && self.intact
    }
}

fn auth_verdict(rt: &Runtime, a: &dyn WriteAuth, record: &[u8], sigs: &[MSig]) -> Verdict {
    let s: Vec<Sig> = sigs.iter().map(|m| Sig::new(m.bytes.clone())).collect();
    match vkit::catch(|| rt.block_on(a.verify(record, &s))) {
        Ok(r) => Verdict::from_res(r.map_err(|e| e.to_string())),
        Err(p) => Verdict::Panic(p),
    }
}

fn auth_family(mon: &Monitor, rng: &mut Rng, rt: &Runtime) {
    // ids 0..n are listed writers, the last one is a foreigner
    let n = rng.urange(1, 5);
    let mut ids = Vec::new();
    for _ in 0..=n {
        match NodeIdentity::generate() {
            Ok(i) => ids.push(i),
            Err(_) => {
                mon.count("skipped.keygen-failed", 1);
                return;
            }
        }
    }
    let foreign = n;
    let pks: Vec<Vec<u8>> = ids.iter().map(|i| i.public_key().as_bytes().to_vec()).collect();
    let record = gen_msg(rng);
    let other_record = if record.is_empty() { vec![0u8] } else { flipped(&record, rng.usize_below(record.len() * 8)) };
    let sign = |who: usize, over_presented: bool| -> Option<MSig> {
        let r = if over_presented { &record } else { &other_record };
        ids[who].sign(r).ok().map(|s| MSig { bytes: s.as_bytes().to_vec(), signer: Some(who), over_presented_record: over_presented, intact: true })
    };
    let garbage = |rng: &mut Rng, len: usize| MSig { bytes: rng.bytes(len), signer: None, over_presented_record: false, intact: false };
    let bitflip = |rng: &mut Rng, s: &MSig| {
        let bit = rng.usize_below(SIG_LEN * 8);
        (MSig { bytes: flipped(&s.bytes, bit), intact: false, ..s.clone() }, bit)
    };
    let ctx = |sigs: &[MSig]| {
        json!({"record_len": record.len(), "listed_writers": n,
               "sigs": sigs.iter().map(|s| json!({"signer": s.signer.map(|x| if x == foreign { "foreign".to_string() } else { format!("writer{x}") }),
                    "over_this_record": s.over_presented_record, "intact": s.intact, "len": s.bytes.len()})).collect::<Vec<_>>()})
    };

    // ---- single / delegated: the authoriser inspects the first signature; the model only
    // judges lists in which position 0 decides (single-element lists, or no valid signature at all)
    let w = rng.usize_below(n);
    let single = SingleWriteAuth::new(PubKey::new(pks[w].clone()));
    let mut listed: Vec<PubKey> = (0..n).map(|i| PubKey::new(pks[i].clone())).collect();
    rng.shuffle(&mut listed);
    let delegated = DelegatedWriteAuth::new(listed.clone());
    let mut delegated_added = DelegatedWriteAuth::new(Vec::new());
    for k in &listed {
        delegated_added.add_key(k.clone());
        delegated_added.add_key(k.clone());
    }
    let empty_delegated = DelegatedWriteAuth::new(Vec::new());

    let Some(gw) = sign(w, true) else { return };
    let Some(gf) = sign(foreign, true) else { return };
    let Some(gw_other) = sign(w, false) else { return };
    let x = (w + 1) % n; // another listed writer (== w when n == 1)
    let Some(gx) = sign(x, true) else { return };
    let (gw_flip, flipbit) = bitflip(rng, &gw);

    let mut lists: Vec<(&str, bool, Vec<MSig>)> = vec![
        ("genuine", true, vec![gw.clone()]),
        ("other-listed-writer", true, vec![gx.clone()]),
        ("foreign-signer", true, vec![gf.clone()]),
        ("wrong-record", true, vec![gw_other.clone()]),
        (sig_region(flipbit), true, vec![gw_flip.clone()]),
        ("garbage-sig", false, vec![garbage(rng, SIG_LEN)]),
        ("short-sig", false, vec![garbage(rng, 64)]),
        ("no-sigs", false, vec![]),
        ("foreign-then-garbage", false, vec![gf.clone(), garbage(rng, SIG_LEN)]),
        ("wrong-record-twice", false, vec![gw_other.clone(), gw_other.clone()]),
    ];
    // genuine first + trailing junk: position 0 decides and it is genuine
    lists.push(("genuine-then-garbage", false, vec![gw.clone(), garbage(rng, SIG_LEN)]));
    for (part, one_bit, sigs) in &lists {
        let any_valid_single = sigs.iter().any(|s| s.valid_for(w));
        let any_valid_listed = sigs.iter().any(|s| (0..n).any(|k| s.valid_for(k)));
        let first_valid_single = sigs.first().map(|s| s.valid_for(w)).unwrap_or(false);
        let first_valid_listed = sigs.first().map(|s| (0..n).any(|k| s.valid_for(k))).unwrap_or(false);
        // single
        let exp = if first_valid_single { Some(true) } else if !any_valid_single { Some(false) } else { None };
        match exp {
            None => mon.count("skipped.valid-signature-not-first", 1),
            Some(e) => {
                let v = auth_verdict(rt, &single, &record, sigs);
                judge(mon, "auth.single", "write-auth", part, e, *one_bit, &v, || ctx(sigs));
            }
        }
        for (name, a) in [("auth.delegated", &delegated), ("auth.delegated.add_key", &delegated_added)] {
            let exp = if first_valid_listed { Some(true) } else if !any_valid_listed { Some(false) } else { None };
            match exp {
                None => mon.count("skipped.valid-signature-not-first", 1),
                Some(e) => {
                    let v = auth_verdict(rt, a, &record, sigs);
                    judge(mon, name, "write-auth", part, e, *one_bit, &v, || ctx(sigs));
                }
            }
        }
        // nobody is authorised: nothing may pass
        let v = auth_verdict(rt, &empty_delegated, &record, sigs);
        judge(mon, "auth.delegated.empty", "write-auth", part, false, *one_bit, &v, || ctx(sigs));
    }
    // the record itself changed after signing (1 bit), signature untouched
    {
        let sigs = vec![MSig { over_presented_record: false, ..gw.clone() }];
        for (name, a) in [("auth.single", &single as &dyn WriteAuth), ("auth.delegated", &delegated as &dyn WriteAuth)] {
            let v = auth_verdict(rt, a, &other_record, &sigs);
            judge(mon, name, "write-auth", "record-bit", false, true, &v, || ctx(&sigs));
        }
    }
    // authoriser built with the writer's key flipped by one bit
    {
        let bit = rng.usize_below(PK_LEN * 8);
        let a = SingleWriteAuth::new(PubKey::new(flipped(&pks[w], bit)));
        let sigs = vec![MSig { signer: None, ..gw.clone() }];
        let v = auth_verdict(rt, &a, &record, &sigs);
        judge(mon, "auth.single", "write-auth", key_region(bit), false, true, &v, || json!({"flipped_key_bit": bit}));
        let a = DelegatedWriteAuth::new(vec![decoy_key(rng), PubKey::new(flipped(&pks[w], bit)), PubKey::new(pks[foreign][..100].to_vec())]);
        let v = auth_verdict(rt, &a, &record, &sigs);
        judge(mon, "auth.delegated", "write-auth", key_region(bit), false, true, &v, || json!({"flipped_key_bit": bit}));
    }

    // ---- composite over single/delegated children (threshold is judged on its own below so that
    // one root cause keeps one family of signatures)
    {
        let mk_children = |which: &[usize]| -> Vec<Box<dyn WriteAuth>> {
            which
                .iter()
                .map(|&k| -> Box<dyn WriteAuth> {
                    if k == usize::MAX {
                        Box::new(DelegatedWriteAuth::new((0..n).map(|i| PubKey::new(pks[i].clone())).collect()))
                    } else {
                        Box::new(SingleWriteAuth::new(PubKey::new(pks[k].clone())))
                    }
                })
                .collect()
        };
        // child expectation for a one-signature list
        let child_ok = |k: usize, s: &MSig| if k == usize::MAX { (0..n).any(|i| s.valid_for(i)) } else { s.valid_for(k) };
        let shapes: Vec<Vec<usize>> = vec![vec![w], vec![w, usize::MAX], vec![w, foreign], vec![foreign, usize::MAX], vec![x, w, usize::MAX]];
        for shape in &shapes {
            for (part, one_bit, s) in [
                ("genuine", true, gw.clone()),
                ("foreign-signer", true, gf.clone()),
                ("wrong-record", true, gw_other.clone()),
                (sig_region(flipbit), true, gw_flip.clone()),
                ("garbage-sig", false, garbage(rng, SIG_LEN)),
            ] {
                let all_exp = shape.iter().all(|&k| child_ok(k, &s));
                let any_exp = shape.iter().any(|&k| child_ok(k, &s));
                let sigs = vec![s];
                let a = CompositeWriteAuth::all(mk_children(shape));
                let v = auth_verdict(rt, &a, &record, &sigs);
                judge(mon, "auth.composite_all", "write-auth", part, all_exp, one_bit, &v, || {
                    let mut c = ctx(&sigs);
                    c["children"] = json!(shape.iter().map(|&k| if k == usize::MAX { "delegated(all writers)".to_string() } else if k == foreign { "single(foreign)".into() } else { format!("single(writer{k})") }).collect::<Vec<_>>());
                    c
                });
                let a = CompositeWriteAuth::any(mk_children(shape));
                let v = auth_verdict(rt, &a, &record, &sigs);
                judge(mon, "auth.composite_any", "write-auth", part, any_exp, one_bit, &v, || {
                    let mut c = ctx(&sigs);
                    c["children"] = json!(shape.len());
                    c
                });
            }
        }
        // empty conjunction / disjunction: nobody is named; outside the stated property -> observed only
        let sigs = vec![garbage(rng, 8)];
        let v = auth_verdict(rt, &CompositeWriteAuth::all(Vec::new()), &record, &sigs);
        mon.count(&format!("observed.composite_all.no-children.garbage-sig.{}", v.class()), 1);
        let v = auth_verdict(rt, &CompositeWriteAuth::any(Vec::new()), &record, &sigs);
        mon.count(&format!("observed.composite_any.no-children.garbage-sig.{}", v.class()), 1);
    }

    // ---- threshold t-of-n over the listed writers
    let t = rng.urange(1, n);
    let keys: Vec<PubKey> = (0..n).map(|i| PubKey::new(pks[i].clone())).collect();
    let th = match ThresholdWriteAuth::new(t, n, keys.clone()) {
        Ok(a) => a,
        Err(e) => {
            mon.count("skipped.threshold-construct", 1);
            mon.extra("threshold_construct_error", json!(e.to_string()));
            return;
        }
    };
    // model: accepted iff at least t DISTINCT listed writers each contributed an intact signature
    // over this record. (Lists where distinctness alone decides are observed, not judged.)
    let model = |sigs: &[MSig], key_ok: &dyn Fn(usize) -> bool| -> (usize, usize) {
        let distinct = (0..n).filter(|&k| key_ok(k) && sigs.iter().any(|s| s.valid_for(k))).count();
        let total_valid = sigs.iter().filter(|s| (0..n).any(|k| key_ok(k) && s.valid_for(k))).count();
        (distinct, total_valid)
    };
    let mut order: Vec<usize> = (0..n).collect();
    rng.shuffle(&mut order);
    let signers: Vec<usize> = order[..t].to_vec();
    let mut genuine: Vec<MSig> = Vec::new();
    for &k in &signers {
        match sign(k, true) {
            Some(s) => genuine.push(s),
            None => return,
        }
    }
    let mut tcases: Vec<(&str, bool, Vec<MSig>)> = Vec::new();
    tcases.push(("genuine", true, genuine.clone()));
    if t < n {
        // more than t genuine
        let mut g = genuine.clone();
        if let Some(s) = sign(order[t], true) {
            g.push(s);
            tcases.push(("genuine-more-than-t", true, g));
        }
    }
    tcases.push(("garbage-sigs", false, (0..t).map(|_| garbage(rng, SIG_LEN)).collect()));
    tcases.push(("garbage-sigs", false, (0..t).map(|_| garbage(rng, 1)).collect()));
    tcases.push(("garbage-sigs", false, (0..t).map(|_| garbage(rng, 0)).collect()));
    tcases.push(("wrong-record", true, signers.iter().filter_map(|&k| sign(k, false)).collect()));
    tcases.push(("foreign-signer", true, (0..t).filter_map(|_| sign(foreign, true)).collect()));
    {
        // one of the t genuine signatures has a single flipped bit
        let mut g = genuine.clone();
        let (f, bit) = bitflip(rng, &g[0]);
        g[0] = f;
        tcases.push((sig_region(bit), true, g));
    }
    {
        // t-1 genuine plus one garbage
        let mut g = genuine.clone();
        let last = g.len() - 1;
        g[last] = garbage(rng, SIG_LEN);
        tcases.push(("one-garbage-among-genuine", false, g));
    }
    {
        // t-1 genuine plus one by a foreigner
        let mut g = genuine.clone();
        let last = g.len() - 1;
        g[last] = gf.clone();
        tcases.push(("foreign-signer", true, g));
    }
    if t >= 2 {
        tcases.push(("fewer-than-t", true, genuine[..t - 1].to_vec()));
        // same writer t times (fresh signatures): distinctness is the only thing missing
        tcases.push(("duplicate-signer", false, (0..t).filter_map(|_| sign(signers[0], true)).collect()));
    }
    tcases.push(("no-sigs", false, Vec::new()));
    for (part, one_bit, sigs) in &tcases {
        if sigs.len() > n {
            mon.count("skipped.more-signatures-than-writers", 1);
            continue;
        }
        let (distinct, total_valid) = model(sigs, &|_| true);
        let v = auth_verdict(rt, &th, &record, sigs);
        if distinct < t && total_valid >= t {
            mon.count(&format!("observed.threshold.duplicate-signer.{}", v.class()), 1);
            continue;
        }
        let mut d = ctx(sigs);
        d["threshold"] = json!(t);
        d["valid_distinct_writers"] = json!(distinct);
        judge(mon, "auth.threshold", "write-auth", part, distinct >= t, *one_bit, &v, || d);
    }
    // record changed by one bit after the t writers signed
    {
        let sigs: Vec<MSig> = genuine.iter().map(|s| MSig { over_presented_record: false, ..s.clone() }).collect();
        let v = auth_verdict(rt, &th, &other_record, &sigs);
        let mut d = ctx(&sigs);
        d["threshold"] = json!(t);
        judge(mon, "auth.threshold", "write-auth", "wrong-record", false, true, &v, || d);
    }
    // one listed key replaced by a 1-bit mutant: that writer's signature no longer counts
    {
        let bit = rng.usize_below(PK_LEN * 8);
        let mut k2 = keys.clone();
        k2[signers[0]] = PubKey::new(flipped(&pks[signers[0]], bit));
        if let Ok(th2) = ThresholdWriteAuth::from_pub_keys(t, n, k2) {
            let bad = signers[0];
            let (distinct, _) = model(&genuine, &|k| k != bad);
            let v = auth_verdict(rt, &th2, &record, &genuine);
            let mut d = ctx(&genuine);
            d["threshold"] = json!(t);
            d["flipped_key_bit"] = json!(bit);
            d["valid_distinct_writers"] = json!(distinct);
            judge(mon, "auth.threshold", "write-auth", key_region(bit), distinct >= t, true, &v, || d);
        }
    }
    mon.count("auth.scenarios", 1);
    if mon.counter("samples.auth") < 1 {
        mon.count("samples.auth", 1);
        mon.sample(json!({"family": "write-auth", "listed_writers": n, "threshold": t, "record_len": record.len(),
            "single_writer": w, "threshold_cases": tcases.iter().map(|c| c.0).collect::<Vec<_>>()}));
    }
}

/// Two derivation engines with different master seeds derive the SAME path (paths come from a small
/// pool, so engines on other threads of this process derive them too). They are different
/// identities: their keys differ, a signature of one does not verify under the other's key, each
/// verifies under its own, and a third engine restored from the second seed reproduces its key.
fn derivation_twins(mon: &Monitor, rng: &mut Rng, rt: &Runtime) {
    let depth = rng.urange(0, 3);
    let comps: Vec<u32> = (0..depth).map(|_| *rng.pick(&[0u32, 1, 0x8000_0000])).collect();
    let Ok(path) = DerivationPath::new(comps) else { return };
    let (e1, e2) = (rng.bytes(32), rng.bytes(40));
    let derive = |ent: &[u8]| -> Result<DerivedKey, String> {
        let ms = MasterSeed::from_entropy(ent).map_err(|e| e.to_string())?;
        HierarchicalKeyDerivation::new(ms).derive_key(&path).map_err(|e| e.to_string())
    };
    let (k1, k2, k3) = match (derive(&e1), derive(&e2), derive(&e2)) {
        (Ok(a), Ok(b), Ok(c)) => (Id::Derived(a), Id::Derived(b), Id::Derived(c)),
        _ => {
            mon.count("twins.skipped.derivation-error", 1);
            return;
        }
    };
    let mlen = rng.urange(1, 200);
    let msg = rng.bytes(mlen);
    let ctx = |what: &str| json!({"what": what, "path": path.to_string(), "entropy_1": hex::encode(&e1), "entropy_2": hex::encode(&e2)});
    mon.eval();
    mon.case(("derivation-twins", depth));
    mon.count("twins.pairs", 1);
    if k1.pk() == k2.pk() {
        mon.violation("derive/distinct-seeds-same-key/same-path", ctx("two master seeds were handed the same key pair for one path"));
        return;
    }
    if k2.pk() != k3.pk() {
        mon.violation("derive/same-seed-and-path-different-key", ctx("an engine restored from the same seed derived another key for the path"));
    }
    let (Ok(s1), Ok(s2)) = (k1.sign(&msg), k2.sign(&msg)) else { return };
    mon.eval();
    if !matches!(present("ml_dsa_verify", rt, rng, &k1.pk(), &msg, &s1), Verdict::Accept) || !matches!(present("ml_dsa_verify", rt, rng, &k2.pk(), &msg, &s2), Verdict::Accept) {
        mon.violation("derive/own-signature-rejected", ctx("a derived identity's signature does not verify under its own key"));
    }
    mon.eval();
    if matches!(present("ml_dsa_verify", rt, rng, &k2.pk(), &msg, &s1), Verdict::Accept) {
        mon.violation("derive/foreign-signer-accepted/same-path-other-seed", ctx("a signature by (seed 1, path) verifies under the key of (seed 2, path)"));
    }
}

/// The DHT identity managers keep a cache of identities they have seen. A presented identity may be
/// answered from that cache only if it IS the cached identity: after a genuine identity has been
/// verified, a copy with one altered bit of signature, key, salt or timestamp must still be refused.
fn ip_manager_family(mon: &Monitor, rng: &mut Rng, rt: &Runtime, v6: bool) {
    use saorsa_core::dht::ipv4_identity::{IPv4DHTConfig, IPv4DHTIdentityManager};
    use saorsa_core::dht::ipv6_identity::{IPv6DHTConfig, IPv6DHTIdentityManager};
    let fam = if v6 { "ipv6" } else { "ipv4" };
    let Ok(id) = NodeIdentity::generate() else { return };
    let Ok(sk) = saorsa_core::quantum_crypto::ant_quic_integration::MlDsaSecretKey::from_bytes(id.secret_key_bytes()) else { return };
    let ipb = gen_ip(rng, v6);
    let part = *rng.pick(&["signature", "public_key", "salt", "timestamp"]);
    let flip = |v: &mut Vec<u8>, rng: &mut Rng| {
        if !v.is_empty() {
            let i = rng.usize_below(v.len());
            v[i] ^= 1 << rng.below(8);
        }
    };
    // (genuine verdict, verdict for the altered copy presented afterwards)
    let out: Result<(bool, bool), String> = if v6 {
        let mut o = [0u8; 16];
        o.copy_from_slice(&ipb);
        let g = match IPv6NodeID::generate(Ipv6Addr::from(o), &sk, id.public_key()) {
            Ok(g) => g,
            Err(_) => return,
        };
        let mut f = g.clone();
        match part {
            "signature" => flip(&mut f.signature, rng),
            "public_key" => flip(&mut f.public_key, rng),
            "salt" => flip(&mut f.salt, rng),
            _ => f.timestamp_secs ^= 1 << rng.below(5),
        }
        let mut m = IPv6DHTIdentityManager::new(IPv6DHTConfig::default());
        rt.block_on(async {
            let a = m.verify_ipv6_identity(&g).await.map_err(|e| e.to_string())?;
            let b = m.verify_ipv6_identity(&f).await.map_err(|e| e.to_string())?;
            Ok((a.is_valid, b.is_valid))
        })
    } else {
        let g = match IPv4NodeID::generate(Ipv4Addr::new(ipb[0], ipb[1], ipb[2], ipb[3]), &sk, id.public_key()) {
            Ok(g) => g,
            Err(_) => return,
        };
        let mut f = g.clone();
        match part {
            "signature" => flip(&mut f.signature, rng),
            "public_key" => flip(&mut f.public_key, rng),
            "salt" => flip(&mut f.salt, rng),
            _ => f.timestamp_secs ^= 1 << rng.below(5),
        }
        let mut m = IPv4DHTIdentityManager::new(IPv4DHTConfig::default());
        rt.block_on(async {
            let a = m.verify_ipv4_identity(&g).await.map_err(|e| e.to_string())?;
            let b = m.verify_ipv4_identity(&f).await.map_err(|e| e.to_string())?;
            Ok((a.is_valid, b.is_valid))
        })
    };
    mon.eval();
    mon.case(("ip-manager", fam, part));
    mon.count(&format!("ipmgr.{fam}.{part}"), 1);
    match out {
        Ok((genuine, altered)) => {
            mon.count(&format!("ipmgr.genuine.{}", if genuine { "valid" } else { "not-valid" }), 1);
            if altered {
                mon.violation(
                    &format!("ip-manager/accepts-mutant/{fam}/after-genuine-seen/{part}"),
                    json!({"ip": hex::encode(&ipb), "altered": part, "genuine_verdict_valid": genuine, "note": "same address and node id as the identity presented just before; one bit of the named field differs"}),
                );
            }
        }
        Err(e) => mon.count(&format!("ipmgr.error.{}", short(&e).len().min(1)), 1),
    }
}

fn main() {
    let mon = Monitor::new("C08", "exploration");
    mon.set_rule("case = one verify call at one entry point; non-trivial when it is made against a genuine signature or a 1-bit mutant of one (message / signature / key bit, or a genuine signature under another identity's key or over another message); distinct by (entry point, identity kind or object family, mutated part refined to its structural region)");
    if cfg!(debug_assertions) {
        // the property is defined on the build without debug assertions (debug builds swap in a
        // keyless digest shim); judging the shim would say nothing about the claim
        mon.inconclusive("built with debug assertions: the real ML-DSA path is not compiled in");
        mon.finish();
    }
    mon.assume("ML-DSA signing and key generation draw from the OS RNG, so signature bytes differ between replays; verdicts do not depend on them");
    mon.assume("validity windows are probed at least one day away from the wall clock, so clock skew cannot decide a verdict");
    // sized from measurement (~0.25 ms per verify): quick ~1.6k judgements per shard-round, thorough ~5k;
    // quick 24 rounds = 10-17 s on 8 threads, thorough 50 rounds + one exhaustive sweep per shard = ~5.5 min on 16
    let rounds = mon.by_tier(24usize, 50);
    vkit::run_shards(mon.shards(), mon.seed, |i, mut rng| {
        let rt = checks::rt(false);
        let dir = match tempfile::tempdir() {
            Ok(d) => d,
            Err(e) => {
                mon.inconclusive(&format!("tempdir: {e}"));
                return;
            }
        };
        if !mon.quick() {
            // exhaustive single-bit sweep of one signature (26 472 bits) and one key (15 616 bits)
            const WORKING: &[&str] = &["generate", "import", "file", "secure_generate", "secure_from_seed"];
            identity_family(&mon, &mut rng, &rt, dir.path(), WORKING[i % WORKING.len()], true);
            mon.count("exhaustive.sweeps", 1);
        }
        for r in 0..rounds {
            for k in 0..KINDS.len() {
                if mon.time_up() {
                    mon.count("stopped.by-budget", 1);
                    return;
                }
                identity_family(&mon, &mut rng, &rt, dir.path(), KINDS[(k + i + r) % KINDS.len()], false);
            }
            if mon.time_up() {
                mon.count("stopped.by-budget", 1);
                return;
            }
            ip_family(&mon, &mut rng, false);
            ip_family(&mon, &mut rng, true);
            update_family(&mon, &mut rng, &rt, dir.path());
            auth_family(&mon, &mut rng, &rt);
            auth_family(&mon, &mut rng, &rt);
            for _ in 0..6 {
                derivation_twins(&mon, &mut rng, &rt);
            }
            ip_manager_family(&mon, &mut rng, &rt, false);
            ip_manager_family(&mon, &mut rng, &rt, true);
            mon.count("rounds", 1);
        }
    });
    mon.finish();
}
