//! C05 — hostile inbound bytes are rejected safely; sender id comes from the connection.
//! Entry points: the frame parser, the whole receive path of a real node (MemNet), the DHT
//! message handler, the core engine's request handler, DhtRecord::deserialize and the /rr/
//! envelope parser. Oracles: no panic, allocation bounded (counting allocator), timestamp
//! window with two clock readings, source attribution, reply caps, 512-byte stores.

use memnet::*;
use saorsa_core::dht::core_engine::{ConsistencyLevel, DhtCoreEngine, DhtKey, DhtRequestWrapper, NodeCapacity, NodeId, NodeInfo};
use saorsa_core::dht::network_integration::{DhtMessage, DhtResponse};
use saorsa_core::dht_network_manager::{DHTNode, DhtMessageType, DhtNetworkMessage, DhtNetworkOperation, DhtNetworkResult, PeerStoreOutcome};
use saorsa_core::network::P2PEvent;
use saorsa_core::placement::dht_records::DhtRecord;
use saorsa_core::transport_handle::TransportHandle;
use saorsa_core::verif_hooks;
use serde_json::json;
use std::time::Duration;
use vkit::{AllocScope, Monitor, Rng};

#[global_allocator]
static A: vkit::CountingAlloc = vkit::CountingAlloc;

const MAX_INPUT: usize = 128 * 1024;

fn alloc_bound(len: usize) -> u64 {
    // linear in the input with a generous constant: serde's cautious pre-allocation (<= 1 MiB
    // per sequence), error strings and log formatting fit; a length prefix trusted for a
    // 2^32/2^64-byte allocation does not
    16 * len as u64 + 4 * 1024 * 1024
}

fn dn(rng: &mut Rng) -> DHTNode {
    DHTNode { peer_id: hex::encode(rng.arr32()), address: format!("10.1.{}.{}:9000", rng.below(250), rng.below(250)), distance: Some(rng.arr32().to_vec()), reliability: 1.0, cached_dht_key: None }
}

fn ops(rng: &mut Rng) -> Vec<DhtNetworkOperation> {
    let key = rng.arr32();
    vec![
        DhtNetworkOperation::Put { key, value: { let n = rng.urange(0, 512); rng.bytes(n) } },
        DhtNetworkOperation::Put { key, value: { let n = rng.urange(513, 700); rng.bytes(n) } },
        DhtNetworkOperation::Get { key },
        DhtNetworkOperation::FindNode { key },
        DhtNetworkOperation::FindValue { key },
        DhtNetworkOperation::Ping,
        DhtNetworkOperation::Join,
        DhtNetworkOperation::Leave,
    ]
}
fn results(rng: &mut Rng) -> Vec<Option<DhtNetworkResult>> {
    let key = rng.arr32();
    vec![
        None,
        Some(DhtNetworkResult::PutSuccess { key, replicated_to: 3, peer_outcomes: vec![PeerStoreOutcome { peer_id: "p".into(), success: true, error: None }] }),
        Some(DhtNetworkResult::GetSuccess { key, value: rng.bytes(40), source: "s".into() }),
        Some(DhtNetworkResult::GetNotFound { key, peers_queried: 1, peers_failed: 0, last_error: Some("e".into()) }),
        Some(DhtNetworkResult::NodesFound { key, nodes: (0..rng.urange(0, 30)).map(|_| dn(rng)).collect() }),
        Some(DhtNetworkResult::ValueFound { key, value: rng.bytes(600), source: "s".into() }),
        Some(DhtNetworkResult::PongReceived { responder: "r".into(), latency: Duration::from_millis(3) }),
        Some(DhtNetworkResult::JoinSuccess { assigned_key: key, bootstrap_peers: 2 }),
        Some(DhtNetworkResult::LeaveSuccess),
        Some(DhtNetworkResult::Error { operation: "x".into(), error: "y".into() }),
    ]
}

/// Identifiers are remote-chosen strings: any valid UTF-8 of any length. 40% stay what the crate itself
/// generates (ASCII hex); the rest are empty, short multi-byte, an ASCII run followed by one 2-4 byte
/// character (a character covering every small byte offset) or very long
fn hostile_id(rng: &mut Rng) -> String {
    let glyphs = ["\u{e9}", "\u{20ac}", "\u{1d11e}", "\u{0}", "a", "Z", "9", "-", "\u{202e}", "\u{df}"];
    match rng.below(10) {
        0 => String::new(),
        1 | 2 => (0..rng.urange(1, 12)).map(|_| *rng.pick(&glyphs)).collect(),
        3 | 4 => {
            let mut s: String = "0123456789abcdef0123456789abcdef01234567"[..rng.urange(0, 40)].to_string();
            let wide: [&str; 3] = ["\u{e9}", "\u{20ac}", "\u{1d11e}"];
            s.push_str(wide[rng.usize_below(3)]);
            s.push_str("-tail");
            s
        }
        5 => "9".repeat(rng.urange(100, 5000)),
        _ => format!("{:032x}", rng.next_u64()),
    }
}

fn valid_dht_messages(rng: &mut Rng, claimed_from: &str) -> Vec<Vec<u8>> {
    let mut out = Vec::new();
    let rs = results(rng);
    for op in ops(rng) {
        for mt in [DhtMessageType::Request, DhtMessageType::Response, DhtMessageType::Broadcast, DhtMessageType::Error] {
            let m = DhtNetworkMessage {
                message_id: hostile_id(rng),
                source: claimed_from.to_string(),
                target: if rng.chance(0.5) { Some(if rng.chance(0.5) { "t".into() } else { hostile_id(rng) }) } else { None },
                message_type: mt,
                payload: op.clone(),
                result: rs[rng.usize_below(rs.len())].clone(),
                timestamp: now_secs(),
                ttl: 10,
                hop_count: 0,
            };
            if let Ok(b) = postcard::to_stdvec(&m) {
                out.push(b);
            }
        }
    }
    out
}

#[derive(Clone, Copy, Debug, PartialEq, Eq, Hash)]
enum Mut {
    None,
    Random,
    Truncate,
    BitFlip,
    VarintInflate32,
    VarintInflate64,
    TagOutOfRange,
    Pad64k,
    Splice,
    Nest,
}
const MUTS: [Mut; 10] = [Mut::None, Mut::Random, Mut::Truncate, Mut::BitFlip, Mut::VarintInflate32, Mut::VarintInflate64, Mut::TagOutOfRange, Mut::Pad64k, Mut::Splice, Mut::Nest];

fn mutate(rng: &mut Rng, base: &[u8], m: Mut, other: &[u8]) -> Vec<u8> {
    let mut v = base.to_vec();
    match m {
        Mut::None => {}
        Mut::Random => {
            let n = match rng.below(4) {
                0 => rng.urange(0, 64),
                1 => rng.urange(64, 4096),
                2 => 65536 + rng.urange(0, 2) - 1,
                _ => rng.urange(4096, MAX_INPUT),
            };
            v = rng.bytes(n);
        }
        Mut::Truncate => {
            let n = rng.usize_below(v.len() + 1);
            v.truncate(n);
        }
        Mut::BitFlip => {
            for _ in 0..rng.urange(1, 4) {
                if !v.is_empty() {
                    let i = rng.usize_below(v.len());
                    v[i] ^= 1 << rng.below(8);
                }
            }
        }
        Mut::VarintInflate32 | Mut::VarintInflate64 => {
            // overwrite a position with a maximal varint: a length prefix / count claiming 2^32-1 or 2^64-1
            let big: &[u8] = if m == Mut::VarintInflate32 { &[0xff, 0xff, 0xff, 0xff, 0x0f] } else { &[0xff, 0xff, 0xff, 0xff, 0xff, 0xff, 0xff, 0xff, 0xff, 0x01] };
            let i = rng.usize_below(v.len().max(1));
            let i = i.min(v.len());
            if rng.chance(0.5) && i < v.len() {
                v.splice(i..i + 1, big.iter().copied());
            } else {
                v.splice(i..i, big.iter().copied());
            }
        }
        Mut::TagOutOfRange => {
            if !v.is_empty() {
                let i = rng.usize_below(v.len());
                v[i] = *rng.pick(&[0x7f, 0xff, 0x80, 0x10, 0x09]);
            }
        }
        Mut::Pad64k => {
            let target = 65536 + rng.urange(0, 2) - 1; // 64 KiB - 1, 64 KiB, 64 KiB + 1
            while v.len() < target {
                v.push(0);
            }
        }
        Mut::Splice => {
            if !other.is_empty() && !v.is_empty() {
                let i = rng.usize_below(v.len());
                let j = rng.usize_below(other.len());
                v.truncate(i);
                v.extend_from_slice(&other[j..]);
            }
        }
        Mut::Nest => {
            // the whole message again as the bytes of its own trailing field
            let inner = v.clone();
            v.extend_from_slice(&inner);
        }
    }
    v.truncate(MAX_INPUT);
    v
}

fn outcome_class<T, E>(r: &Result<Result<T, E>, String>) -> &'static str {
    match r {
        Err(_) => "panic",
        Ok(Ok(_)) => "accepted",
        Ok(Err(_)) => "rejected",
    }
}

/// run `f` under panic capture and the allocation scope; report panics / runaway allocation
fn guarded<T>(mon: &Monitor, entry: &str, mutk: Mut, input: &[u8], f: impl FnOnce() -> T) -> Option<T> {
    let scope = AllocScope::begin();
    let r = vkit::catch(f);
    let st = scope.end();
    mon.eval();
    match r {
        Err(p) => {
            let loc = p.rsplit(" @ ").next().unwrap_or("").to_string();
            mon.violation(&format!("panic/{entry}/{}", loc.rsplit('/').next().unwrap_or(&loc)), json!({"entry": entry, "mutation": format!("{mutk:?}"), "len": input.len(), "panic": p, "input_prefix_hex": hex::encode(&input[..input.len().min(96)])}));
            None
        }
        Ok(v) => {
            if mutk != Mut::None && mutk != Mut::Random && mon.want_sample() {
                mon.sample(json!({"entry": entry, "mutation": format!("{mutk:?}"), "len": input.len(), "bytes_requested": st.requested, "input_prefix_hex": hex::encode(&input[..input.len().min(64)])}));
            }
            if st.requested > alloc_bound(input.len()) {
                mon.violation(&format!("alloc/{entry}/requested-beyond-linear-bound"), json!({"entry": entry, "mutation": format!("{mutk:?}"), "len": input.len(), "requested": st.requested, "largest_single": st.largest, "input_prefix_hex": hex::encode(&input[..input.len().min(96)])}));
            }
            Some(v)
        }
    }
}

fn direct_entry_points(mon: &Monitor, rng: &mut Rng, rounds: u64) {
    let victim = hex::encode(rng.arr32());
    let sender = hex::encode(rng.arr32());
    let rt = checks::rt(true);
    let eng = DhtCoreEngine::verif_new_log_only(NodeId::from_bytes(rng.arr32())).expect("engine");
    rt.block_on(async {
        // populate the engine's table so FindNode replies have something to list
        let mut e = eng;
        for i in 0..40 {
            let _ = e.add_node(NodeInfo { id: NodeId::from_bytes(rng.arr32()), address: format!("peer-{i}"), last_seen: std::time::SystemTime::now(), capacity: NodeCapacity::default() }).await;
        }
        let eng = e;
        for round in 0..rounds {
            if mon.spent(0.55) {
                break;
            }
            let dht_msgs = valid_dht_messages(rng, &victim);
            // ---------- frames through the parser ----------
            for (i, inner) in dht_msgs.iter().enumerate() {
                let proto = *rng.pick(&["/dht/1.0.0", "/rr/p", "chat", ""]);
                // timestamps around the window edges
                let now0 = now_secs();
                let (ts, tclass): (u64, &str) = match rng.below(10) {
                    0 => (now0.saturating_sub(301), "-301"),
                    1 => (now0.saturating_sub(300), "-300"),
                    2 => (now0.saturating_sub(299), "-299"),
                    3 => (now0 + 29, "+29"),
                    4 => (now0 + 30, "+30"),
                    5 => (now0 + 31, "+31"),
                    6 => (0, "zero"),
                    7 => (u64::MAX, "max"),
                    _ => (now0, "now"),
                };
                let frame = verif_hooks::encode_wire_message(proto, inner.clone(), &victim, ts).unwrap_or_default();
                let mk = MUTS[(i + round as usize) % MUTS.len()];
                let input = mutate(rng, &frame, mk, inner);
                let before = now_secs();
                let ev = guarded(mon, "parse_protocol_message", mk, &input, || verif_hooks::parse_protocol_message(&input, &sender));
                let after = now_secs();
                let Some(ev) = ev else { continue };
                let decoded = verif_hooks::decode_wire_message(&input);
                mon.case(("frame", mk, ev.is_some(), tclass, proto.len()));
                // (d) source is the connection's id, never the claimed one
                if let Some(P2PEvent::Message { source, topic, data }) = &ev {
                    if source != &sender {
                        let f = if source == &victim { "claimed-from-field-used" } else { "other" };
                        mon.violation(&format!("source/not-the-authenticated-sender/{f}"), json!({"source": source, "sender": sender, "claimed": victim}));
                    }
                    // surfaced content must be what the frame carries
                    if let Some((p, d, _, _)) = &decoded {
                        if p != topic || d != data {
                            mon.violation("frame/surfaced-content-differs-from-frame", json!({"mutation": format!("{mk:?}")}));
                        }
                    }
                }
                // (c) timestamp window, decided only when both clock readings agree
                if let Some((_, _, _, tsd)) = decoded {
                    mon.eval();
                    if before != after {
                        mon.count("skipped.clock-ticked-during-call", 1);
                    } else {
                        let inside = tsd >= before.saturating_sub(300) && tsd <= before + 30;
                        let surfaced = ev.is_some();
                        if inside != surfaced {
                            let edge = if tsd + 300 == before { "exactly-300s-old" } else if tsd == before + 30 { "exactly-30s-ahead" } else if tsd < before { "old" } else { "future" };
                            mon.violation(&format!("window/{}-{edge}", if surfaced { "surfaced-outside" } else { "suppressed-inside" }), json!({"ts": tsd, "now": before, "delta": tsd as i128 - before as i128}));
                        }
                    }
                }
            }
            // ---------- DHT handler, engine handler, records, envelopes: decode-level entry points ----------
            for (i, inner) in dht_msgs.iter().enumerate() {
                let mk = MUTS[(i * 3 + round as usize) % MUTS.len()];
                let other = &dht_msgs[(i + 7) % dht_msgs.len()];
                let input = mutate(rng, inner, mk, other);
                // core engine wire wrapper
                let r = guarded(mon, "DhtRequestWrapper.decode", mk, &input, || postcard::from_bytes::<DhtRequestWrapper>(&input).map_err(|e| e.to_string()));
                if let Some(Ok(w)) = r {
                    mon.count("engine.wrapper_decoded_from_mutant", 1);
                    let scope = AllocScope::begin();
                    let resp = eng.handle_request(w).await;
                    let st = scope.end();
                    mon.eval();
                    if st.requested > alloc_bound(input.len()) {
                        mon.violation("alloc/engine.handle_request/requested-beyond-linear-bound", json!({"requested": st.requested, "len": input.len()}));
                    }
                    judge_engine_reply(mon, &resp.response);
                }
                let _ = guarded(mon, "DhtRecord::deserialize", mk, &input, || {
                    let r = DhtRecord::deserialize(&input);
                    if let Ok(rec) = &r {
                        // an accepted record fits the documented size when re-serialised
                        if input.len() > 512 {
                            return Err("accepted-over-512".to_string());
                        }
                        let _ = rec.is_valid();
                    }
                    r.map(|_| ()).map_err(|e| e.to_string())
                })
                .map(|r| {
                    mon.case(("record", mk, r.is_ok(), input.len() > 512));
                    if r == Err("accepted-over-512".to_string()) {
                        mon.violation("size/record-over-512-bytes-accepted", json!({"len": input.len()}));
                    }
                });
                let _ = guarded(mon, "parse_request_envelope", mk, &input, || TransportHandle::parse_request_envelope(&input)).map(|r| mon.case(("envelope", mk, r.is_some())));
            }
            // structured hostile engine requests
            for count in [0usize, 1, 20, 21, 1000, usize::MAX / 2, usize::MAX] {
                let w = DhtRequestWrapper { id: "c".into(), message: DhtMessage::FindNode { target: DhtKey::from_bytes(rng.arr32()), count } };
                let scope = AllocScope::begin();
                let r = {
                    let fut = eng.handle_request(w);
                    fut.await
                };
                let st = scope.end();
                mon.eval();
                mon.case(("engine-findnode-count", count.min(22)));
                if st.requested > alloc_bound(64) {
                    mon.violation("alloc/engine.find_node/requested-beyond-linear-bound", json!({"count": count, "requested": st.requested}));
                }
                judge_engine_reply(mon, &r.response);
            }
            for len in [512usize, 513, 4096] {
                let key = rng.arr32();
                let w = DhtRequestWrapper { id: "s".into(), message: DhtMessage::Store { key: DhtKey::from_bytes(key), value: vec![1; len], ttl: Duration::from_secs(1) } };
                let r = eng.handle_request(w).await;
                mon.eval();
                let held = eng.verif_store_dump().await.iter().any(|(k, v)| *k == key && v.len() > 512);
                if held || (len > 512 && matches!(r.response, DhtResponse::StoreAck { .. })) {
                    mon.violation("size/engine-store-over-512-accepted", json!({"len": len}));
                }
                let _ = ConsistencyLevel::One;
            }
        }
    });
}

fn judge_engine_reply(mon: &Monitor, r: &DhtResponse) {
    match r {
        DhtResponse::FindNodeReply { nodes, .. } => {
            if nodes.len() > 20 {
                mon.violation("cap/engine-find-node-reply-over-20", json!({"len": nodes.len()}));
            }
        }
        DhtResponse::FindValueReply { nodes, .. } => {
            if nodes.len() > 20 {
                mon.violation("cap/engine-find-value-reply-over-20", json!({"len": nodes.len()}));
            }
        }
        _ => {}
    }
}

/// The whole receive path of a real node: frames injected as coming from a connected peer.
async fn receive_path(mon: &Monitor, rng: &mut Rng, batches: u64) {
    let hub = Hub::new(rng.next_u64());
    let cfg = NodeCfg { request_timeout: Duration::from_secs(2), connection_timeout: Duration::from_secs(1), ..Default::default() };
    let Ok(x) = spawn_node(&hub, rng.arr32(), sim_addr(0), &cfg).await else {
        mon.inconclusive("spawn failed");
        return;
    };
    // some real neighbours so that replies have nodes to list
    let mut others = Vec::new();
    for i in 0..rng.urange(2, 12) {
        if let Ok(o) = spawn_node(&hub, rng.arr32(), sim_addr(10 + i), &cfg).await {
            let _ = o.mgr.connect_to_peer(&x.addr.to_string()).await;
            others.push(o);
        }
    }
    let ptid = rng.arr32();
    let phex = hex::encode(ptid);
    let mut prx = hub.register_puppet(ptid, sim_addr(5));
    let _ = x.mgr.connect_to_peer(&sim_addr(5).to_string()).await;
    settle(Duration::from_millis(20)).await;
    let mut events = x.transport.subscribe_events();
    let victim = others.first().map(|o| o.tid_hex.clone()).unwrap_or_else(|| "victim".into());

    for b in 0..batches {
        if mon.time_up() {
            break;
        }
        let msgs = valid_dht_messages(rng, &victim);
        let mut injected = 0u64;
        let t0 = hub.trace_len();
        for (i, inner) in msgs.iter().enumerate() {
            let mk = MUTS[(i + b as usize) % MUTS.len()];
            // mutate either the DHT payload (then frame it correctly) or the frame itself
            let frame = if rng.chance(0.5) {
                let inner_m = mutate(rng, inner, mk, &msgs[(i + 3) % msgs.len()]);
                verif_hooks::encode_wire_message("/dht/1.0.0", inner_m, &victim, now_secs()).unwrap_or_default()
            } else {
                let f = verif_hooks::encode_wire_message("/dht/1.0.0", inner.clone(), &victim, now_secs()).unwrap_or_default();
                mutate(rng, &f, mk, inner)
            };
            mon.case(("path", mk, frame.len() > 65536));
            hub.inject(ptid, &x.tid_hex, frame, Duration::from_micros(i as u64));
            injected += 1;
        }
        settle(Duration::from_millis(50)).await;
        mon.evals(injected);
        mon.count("path.frames_injected", injected);
        // (a) no panic anywhere on the path (the runtime is single-threaded: same thread-local)
        if let Some(p) = vkit::take_last_panic() {
            let loc = p.rsplit(" @ ").next().unwrap_or("").to_string();
            mon.violation(&format!("panic/receive-path/{}", loc.rsplit('/').next().unwrap_or(&loc)), json!({"panic": p, "batch": b}));
        }
        // (d) every surfaced event names the connection's id
        while let Ok(ev) = events.try_recv() {
            if let P2PEvent::Message { source, .. } = ev {
                mon.eval();
                mon.count("path.events_surfaced", 1);
                if source != phex && !others.iter().any(|o| o.tid_hex == source) {
                    let f = if source == victim { "claimed-from-field-used" } else { "other" };
                    mon.violation(&format!("source/not-the-authenticated-sender/{f}"), json!({"source": source, "injected_as": phex}));
                }
            }
        }
        // (e) replies to the puppet obey the caps; stores hold <= 512 bytes
        let mut replies = 0;
        while let Ok((_from, frame)) = prx.try_recv() {
            if let (_, _, Some(m)) = summarize(&frame) {
                replies += 1;
                mon.eval();
                if let Some(DhtNetworkResult::NodesFound { nodes, .. }) = &m.result {
                    if nodes.len() > 20 {
                        mon.violation("cap/manager-reply-over-20-nodes", json!({"len": nodes.len()}));
                    }
                }
                if m.source == victim {
                    mon.violation("source/reply-sent-under-claimed-identity", json!({}));
                }
            }
        }
        mon.count("path.replies_to_sender", replies);
        for (k, v) in x.mgr.verif_store_dump().await {
            mon.eval();
            if v.len() > 512 {
                mon.violation("size/value-over-512-stored-via-receive-path", json!({"len": v.len(), "key": hex::encode(&k[..4])}));
            }
        }
        // liveness probe: a well-formed Ping from the same connection must still be answered
        let probe = dht_request_frame(&phex, &format!("probe-{b}"), &x.tid_hex, DhtNetworkOperation::Ping);
        hub.inject(ptid, &x.tid_hex, probe, Duration::ZERO);
        settle(Duration::from_millis(50)).await;
        let mut answered = false;
        while let Ok((_f, frame)) = prx.try_recv() {
            if let (_, Some(s), _) = summarize(&frame) {
                if s.message_id == format!("probe-{b}") && s.mtype == "Response" {
                    answered = true;
                }
            }
        }
        mon.eval();
        if !answered {
            mon.violation("liveness/receive-path-dead-after-hostile-batch", json!({"batch": b, "frames_since": hub.trace_len() - t0}));
            break;
        }
    }
    for o in others.iter().chain(std::iter::once(&x)) {
        let _ = tokio::time::timeout(Duration::from_secs(120), o.mgr.stop()).await;
        let _ = o.transport.stop().await;
    }
}

/// handle_dht_message directly: the 64 KiB gate must refuse before decoding
async fn dht_handler_direct(mon: &Monitor, rng: &mut Rng, rounds: u64) {
    let hub = Hub::new(rng.next_u64());
    let Ok(x) = spawn_node(&hub, rng.arr32(), sim_addr(0), &NodeCfg::default()).await else { return };
    let sender = hex::encode(rng.arr32());
    for round in 0..rounds {
        if mon.time_up() {
            break;
        }
        let msgs = valid_dht_messages(rng, &sender);
        for (i, inner) in msgs.iter().enumerate() {
            let mk = MUTS[(i + round as usize) % MUTS.len()];
            let input = mutate(rng, inner, mk, &msgs[(i + 5) % msgs.len()]);
            let scope = AllocScope::begin();
            // the handler runs on this task: a panic inside it must become a verdict, not end the harness
            let r = match futures::FutureExt::catch_unwind(std::panic::AssertUnwindSafe(x.mgr.handle_dht_message(&input, &sender))).await {
                Ok(r) => r,
                Err(_) => {
                    let _ = scope.end();
                    let what = vkit::take_last_panic().unwrap_or_default();
                    let class = if what.contains("char boundary") { "string-slice-off-a-char-boundary" } else { "other" };
                    mon.violation(&format!("panic/handle_dht_message/{class}"), json!({"panic": what.replace('\0', "\\0"), "mutation": format!("{mk:?}"), "len": input.len()}));
                    continue;
                }
            };
            let st = scope.end();
            mon.eval();
            mon.case(("handler", mk, r.is_ok(), input.len() > 65536));
            mon.count(&format!("handler.{}", if r.is_ok() { "ok" } else { "err" }), 1);
            if input.len() > 65536 {
                if r.is_ok() {
                    mon.violation("size/dht-message-over-64KiB-accepted", json!({"len": input.len()}));
                }
                if st.requested >= input.len() as u64 {
                    mon.violation("size/dht-message-over-64KiB-decoded-before-refusal", json!({"len": input.len(), "requested": st.requested}));
                }
            } else if st.requested > alloc_bound(input.len()) {
                mon.violation("alloc/handle_dht_message/requested-beyond-linear-bound", json!({"len": input.len(), "requested": st.requested, "largest": st.largest, "mutation": format!("{mk:?}")}));
            }
            if let Ok(Some(reply)) = &r {
                if let Ok(m) = postcard::from_bytes::<DhtNetworkMessage>(reply) {
                    if let Some(DhtNetworkResult::NodesFound { nodes, .. }) = &m.result {
                        if nodes.len() > 20 {
                            mon.violation("cap/manager-reply-over-20-nodes", json!({"len": nodes.len()}));
                        }
                    }
                }
            }
        }
        if let Some(p) = vkit::take_last_panic() {
            mon.violation("panic/handle_dht_message", json!({"panic": p}));
        }
    }
    for (_k, v) in x.mgr.verif_store_dump().await {
        if v.len() > 512 {
            mon.violation("size/value-over-512-stored-via-handler", json!({"len": v.len()}));
        }
    }
    let _ = x.mgr.stop().await;
    let _ = x.transport.stop().await;
    let _ = outcome_class::<(), ()>(&Ok(Ok(())));
}

fn main() {
    let mon = Monitor::new("C05", "exploration");
    // supplementary sanitizer lanes (thorough tier): built and run alongside the behavioural workload, joined before the verdict
    let lanes = checks::lanes::start(&mon, &[("asan", "c05", "240"), ("memcheck", "c05", "240")]);
    mon.set_rule("case = one input to one entry point (frame parser, whole receive path, DHT handler, engine handler, record / envelope decoders): random bytes or a structure-aware mutation (truncate, bit flip, 2^32/2^64 varint, enum tag, 64KiB±1 padding, splice, nesting, window-edge timestamps, claimed sender) of a valid message of every kind; distinct by (entry point, mutation class, outcome class, size/timestamp class)");
    mon.assume("allocation bound is linear with a generous constant (16*len + 4 MiB): serde's cautious pre-allocation fits, a trusted 2^32-byte length prefix does not");
    mon.assume("timestamp-window verdicts are made only when the clock read before and after the call agree");
    let rounds = mon.by_tier(2000u64, 40000);
    vkit::run_shards(mon.shards(), mon.seed, |_i, mut rng| {
        direct_entry_points(&mon, &mut rng, rounds);
        let rt = checks::rt(true);
        rt.block_on(dht_handler_direct(&mon, &mut rng, rounds / 2 + 1));
        let rt = checks::rt(true);
        rt.block_on(receive_path(&mon, &mut rng, rounds / 2 + 1));
    });
    // supplementary sanitizer lane (thorough): the same decoder workload under AddressSanitizer
    checks::lanes::join(&mon, lanes);
    mon.finish();
}
