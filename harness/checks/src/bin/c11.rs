//! C11 — unvouched identities gain no meaningful trust; anchors keep a floor.
//!
//! Runtime monitor: seeded trust graphs (anchors, honest nodes, a Sybil set that nobody outside it
//! rates) are fed to the real `EigenTrustEngine` through `update_local_trust` (and, for the
//! "equal statistics" variant, the same `update_node_stats` sequence for every node). Judged on the
//! map returned by `compute_global_trust()`:
//!   * the designated Sybil set S, and the largest anchor-free set U that receives no statement from
//!     outside itself (all nodes not reachable from an anchor along statements), each hold at most
//!     (|set| / population) / 7 of the total, and < 0.1 % when the population is <= 100;
//!   * every anchor holds at least 0.4 / |anchors| of the total.
//! The oracle only needs graph reachability and sums over the observed scores.

use saorsa_core::adaptive::{EigenTrustEngine, NodeId, NodeStatisticsUpdate};
use serde_json::{json, Value};
use std::collections::{BTreeSet, HashMap, HashSet};
use std::time::{Duration, Instant};
use vkit::{Monitor, Rng};

const TOL: f64 = 1e-12;
/// anchor weight (teleport share) the property speaks of
const ANCHOR_WEIGHT: f64 = 0.4;
const SLOW: Duration = Duration::from_millis(1500);

#[derive(Clone, Copy, Debug)]
enum St {
    Uptime(u64),
    Correct,
    Failed,
    Storage(u64),
    Bandwidth(u64),
    Cycles(u64),
}

impl St {
    fn to_update(self) -> NodeStatisticsUpdate {
        match self {
            St::Uptime(v) => NodeStatisticsUpdate::Uptime(v),
            St::Correct => NodeStatisticsUpdate::CorrectResponse,
            St::Failed => NodeStatisticsUpdate::FailedResponse,
            St::Storage(v) => NodeStatisticsUpdate::StorageContributed(v),
            St::Bandwidth(v) => NodeStatisticsUpdate::BandwidthContributed(v),
            St::Cycles(v) => NodeStatisticsUpdate::ComputeContributed(v),
        }
    }
}

struct Graph {
    a: usize,
    h: usize,
    s: usize,
    /// anchors 0..a, honest a..a+h, sybils a+h..a+h+s
    ids: Vec<NodeId>,
    /// ordered statements (repeats drive the moving average)
    stmts: Vec<(u32, u32, bool)>,
    /// the same statistics sequence for every identity, or none
    stats: Option<Vec<St>>,
    honest_pat: &'static str,
    sybil_pat: &'static str,
    sybils_rate_outward: bool,
}

impl Graph {
    fn total(&self) -> usize {
        self.a + self.h + self.s
    }
    fn is_sybil(&self, i: u32) -> bool {
        (i as usize) >= self.a + self.h
    }
    fn name(&self, i: u32) -> String {
        let i = i as usize;
        if i < self.a {
            format!("A{i}")
        } else if i < self.a + self.h {
            format!("H{}", i - self.a)
        } else {
            format!("S{}", i - self.a - self.h)
        }
    }
    fn stmts_json(&self) -> Value {
        const KEEP: usize = 36;
        let f = |(x, y, ok): &(u32, u32, bool)| format!("{}->{} {}", self.name(*x), self.name(*y), if *ok { "ok" } else { "fail" });
        if self.stmts.len() <= KEEP {
            json!(self.stmts.iter().map(f).collect::<Vec<_>>())
        } else {
            let mut v: Vec<String> = self.stmts.iter().take(KEEP / 2).map(f).collect();
            v.push(format!("… {} statements omitted …", self.stmts.len() - KEEP));
            v.extend(self.stmts.iter().skip(self.stmts.len() - KEEP / 2).map(f));
            json!(v)
        }
    }
    fn describe(&self) -> Value {
        json!({"anchors": self.a, "honest": self.h, "sybils": self.s, "honest_pattern": self.honest_pat, "sybil_pattern": self.sybil_pat,
               "sybils_rate_outward": self.sybils_rate_outward,
               "statistics": match &self.stats { None => json!("none"), Some(v) => json!({"same_for_every_identity": v.iter().map(|s| format!("{s:?}")).collect::<Vec<_>>()}) },
               "statements": self.stmts_json()})
    }
}

fn size_bucket(n: usize) -> u8 {
    match n {
        0 => 0,
        1 => 1,
        2..=5 => 2,
        6..=20 => 3,
        21..=100 => 4,
        101..=500 => 5,
        _ => 6,
    }
}

/// statements among the "outside" nodes (anchors + honest): indices 0..a+h
fn gen_honest(rng: &mut Rng, a: usize, h: usize, out: &mut Vec<(u32, u32, bool)>) -> &'static str {
    let m = a + h;
    let ok = |rng: &mut Rng| !rng.chance(0.06);
    let other = |rng: &mut Rng, me: usize| -> u32 {
        if m <= 1 {
            return me as u32;
        }
        loop {
            let t = rng.usize_below(m);
            if t != me {
                return t as u32;
            }
        }
    };
    let pat = rng.weighted(&[12, 14, 18, 22, 10, 10, 14]);
    match pat {
        0 => "silent",
        1 => {
            // anchors vouch for honest nodes, honest nodes make no statements
            if h > 0 {
                for x in 0..a {
                    for _ in 0..rng.urange(1, 4) {
                        out.push((x as u32, (a + rng.usize_below(h)) as u32, true));
                    }
                }
            }
            "anchors-vouch,honest-silent"
        }
        2 => {
            // some nodes rate, some do not
            for x in 0..m {
                if rng.chance(0.6) {
                    for _ in 0..rng.urange(1, 4) {
                        let t = other(rng, x);
                        out.push((x as u32, t, ok(rng)));
                    }
                }
            }
            "random,some-silent"
        }
        3 => {
            // everybody rates at least one other node positively
            for x in 0..m {
                let t = other(rng, x);
                out.push((x as u32, t, true));
                for _ in 0..rng.urange(0, 3) {
                    let t = other(rng, x);
                    out.push((x as u32, t, ok(rng)));
                }
            }
            "random,everyone-rates"
        }
        4 => {
            // star around a hub; the hub may or may not rate back
            let hub = rng.usize_below(m);
            let back = rng.chance(0.5);
            for x in 0..m {
                if x != hub {
                    out.push((x as u32, hub as u32, true));
                    if back && rng.chance(0.7) {
                        out.push((hub as u32, x as u32, true));
                    }
                }
            }
            if back {
                "star,hub-rates-back"
            } else {
                "star,hub-silent"
            }
        }
        5 => {
            // chain from the first anchor; the tail makes no statement
            for x in 0..m.saturating_sub(1) {
                out.push((x as u32, (x + 1) as u32, true));
            }
            "chain,tail-silent"
        }
        _ => {
            // ring over all outside nodes plus chords: nobody is without outgoing trust
            for x in 0..m {
                out.push((x as u32, ((x + 1) % m) as u32, true));
                if rng.chance(0.3) {
                    let t = other(rng, x);
                    out.push((x as u32, t, true));
                }
            }
            "ring,everyone-rates"
        }
    }
}

/// statements made by the Sybil set: indices base..base+s; never a statement from outside into it
fn gen_sybil(rng: &mut Rng, base: usize, s: usize, m_out: usize, out: &mut Vec<(u32, u32, bool)>) -> (&'static str, bool) {
    let id = |k: usize| (base + k) as u32;
    let mut pat = rng.weighted(&[22, 16, 14, 16, 16, 6]);
    if pat == 1 && s > 40 {
        pat = 4; // a 1000-clique is a million statements; use sparse random instead
    }
    let name = match pat {
        0 => {
            for k in 0..s {
                out.push((id(k), id(k), true));
            }
            "self-loops"
        }
        1 => {
            let with_self = rng.chance(0.3);
            for x in 0..s {
                for y in 0..s {
                    if x != y || with_self {
                        out.push((id(x), id(y), true));
                    }
                }
            }
            if with_self {
                "clique+self"
            } else {
                "clique"
            }
        }
        2 => {
            for k in 1..s {
                out.push((id(k), id(0), true));
            }
            if rng.chance(0.5) {
                out.push((id(0), id(0), true));
                "star,hub-self-loop"
            } else {
                for k in 1..s {
                    out.push((id(0), id(k), true));
                }
                if s == 1 {
                    out.push((id(0), id(0), true));
                }
                "star,hub-rates-back"
            }
        }
        3 => {
            for k in 0..s.saturating_sub(1) {
                out.push((id(k), id(k + 1), true));
            }
            match rng.below(3) {
                0 => "chain,tail-silent",
                1 => {
                    out.push((id(s - 1), id(s - 1), true));
                    "chain,tail-self-loop"
                }
                _ => {
                    out.push((id(s - 1), id(0), true));
                    "ring"
                }
            }
        }
        4 => {
            let with_self = rng.chance(0.4);
            for x in 0..s {
                for _ in 0..rng.urange(1, 4) {
                    out.push((id(x), id(rng.usize_below(s)), !rng.chance(0.05)));
                }
                if with_self && rng.chance(0.5) {
                    out.push((id(x), id(x), true));
                }
            }
            "random-k"
        }
        _ => "no-internal-statements",
    };
    // repeated ratings: saturate / decay the moving average on some internal edges
    if rng.chance(0.3) && !out.is_empty() {
        let internal: Vec<(u32, u32, bool)> = out.iter().filter(|(x, _, _)| (*x as usize) >= base).copied().collect();
        for _ in 0..rng.urange(1, 6) {
            if internal.is_empty() {
                break;
            }
            let (x, y, _) = *rng.pick(&internal);
            let p_ok = *rng.pick(&[1.0, 0.5, 0.0]);
            for _ in 0..rng.urange(2, 25) {
                out.push((x, y, rng.chance(p_ok)));
            }
        }
    }
    // Sybils may also rate honest nodes and anchors (that only gives mass away)
    let outward = m_out > 0 && rng.chance(0.3);
    if outward {
        for x in 0..s {
            if rng.chance(0.5) {
                out.push((id(x), rng.usize_below(m_out) as u32, true));
            }
        }
    }
    (name, outward)
}

fn gen_graph(rng: &mut Rng) -> Graph {
    let a = match rng.weighted(&[35, 35, 30]) {
        0 => 1,
        1 => rng.urange(2, 5),
        _ => rng.urange(6, 50),
    };
    // population regimes: <=100 (full iteration), 101..500 (7 rounds), >500 (4 rounds)
    let regime = rng.weighted(&[70, 18, 12]);
    let (h, s) = match regime {
        0 => {
            let h = match rng.weighted(&[15, 45, 40]) {
                0 => 0,
                1 => rng.urange(1, 10),
                _ => rng.urange(11, 50usize.saturating_sub(a).max(11)),
            };
            let room = 100usize.saturating_sub(a + h).max(1);
            let s = match rng.weighted(&[30, 40, 30]) {
                0 => 1,
                1 => rng.urange(2, 10.min(room).max(2)),
                _ => rng.urange(1, room),
            };
            (h, s)
        }
        1 => {
            let h = rng.urange(20, 250);
            let s = match rng.below(3) {
                0 => rng.urange(1, 10),
                _ => rng.urange(101usize.saturating_sub(h).max(1), 240),
            };
            (h.max(101usize.saturating_sub(s)), s)
        }
        _ => {
            let h = rng.urange(10, 520);
            let s = match rng.below(4) {
                0 => rng.urange(1, 20),
                _ => rng.urange(200, 1000),
            };
            (h.max(510usize.saturating_sub(s)), s)
        }
    };
    let mut rid = rng.fork();
    let ids: Vec<NodeId> = (0..a + h + s).map(|_| NodeId::from_bytes(rid.arr32())).collect();
    let mut honest_stmts = Vec::new();
    let honest_pat = gen_honest(rng, a, h, &mut honest_stmts);
    let mut sybil_stmts = Vec::new();
    let (sybil_pat, outward) = gen_sybil(rng, a + h, s, a + h, &mut sybil_stmts);
    // interleave the two statement streams (order only matters per edge)
    let mut stmts = Vec::with_capacity(honest_stmts.len() + sybil_stmts.len());
    if rng.chance(0.5) {
        stmts.extend(sybil_stmts);
        stmts.extend(honest_stmts);
    } else {
        stmts.extend(honest_stmts);
        stmts.extend(sybil_stmts);
    }
    let stats = if rng.chance(0.25) {
        let mut v = Vec::new();
        for _ in 0..rng.urange(1, 4) {
            v.push(match rng.below(7) {
                0 => St::Uptime(rng.range(0, 200_000)),
                1 | 2 => St::Correct,
                3 => St::Failed,
                4 => St::Storage(rng.range(0, 1 << 40)),
                5 => St::Bandwidth(rng.range(0, 1 << 20)),
                _ => St::Cycles(rng.range(0, 1 << 30)),
            });
        }
        Some(v)
    } else {
        None
    };
    Graph { a, h, s, ids, stmts, stats, honest_pat, sybil_pat, sybils_rate_outward: outward }
}

/// what the oracle derives from the statements alone
struct View {
    known: BTreeSet<u32>,
    /// nodes with at least one positive outgoing statement
    rates_someone: HashSet<u32>,
    /// anchor-free, receives no statement from outside itself: everything not reachable from an anchor
    unreachable: BTreeSet<u32>,
    engine_nodes: usize,
    honest_edges: usize,
}

fn view(g: &Graph) -> View {
    let mut known: BTreeSet<u32> = (0..g.a as u32).collect();
    let mut engine_nodes: BTreeSet<u32> = BTreeSet::new();
    let mut rates_someone = HashSet::new();
    let mut adj: HashMap<u32, Vec<u32>> = HashMap::new();
    let mut honest_edges = 0;
    for (x, y, ok) in &g.stmts {
        known.insert(*x);
        known.insert(*y);
        engine_nodes.insert(*x);
        engine_nodes.insert(*y);
        // moving average: once a positive report was made the edge weight stays > 0
        if *ok {
            rates_someone.insert(*x);
        }
        adj.entry(*x).or_default().push(*y);
        if !g.is_sybil(*x) {
            honest_edges += 1;
        }
    }
    if g.stats.is_some() {
        for i in 0..g.total() as u32 {
            known.insert(i);
            engine_nodes.insert(i);
        }
    }
    // reachability from anchors along *any* statement (a negative statement still counts as
    // "receiving a statement", which only makes the judged set smaller and surely closed)
    let mut seen: BTreeSet<u32> = (0..g.a as u32).collect();
    let mut stack: Vec<u32> = seen.iter().copied().collect();
    while let Some(x) = stack.pop() {
        if let Some(ys) = adj.get(&x) {
            for y in ys {
                if seen.insert(*y) {
                    stack.push(*y);
                }
            }
        }
    }
    let unreachable: BTreeSet<u32> = known.iter().copied().filter(|i| !seen.contains(i)).collect();
    View { known, rates_someone, unreachable, engine_nodes: engine_nodes.len(), honest_edges }
}

async fn run_graph(mon: &Monitor, g: &Graph, idx: u64) {
    let eng = EigenTrustEngine::new(g.ids[..g.a].iter().cloned().collect());
    // anchors are also announced at run time (a bootstrap node re-announced on reconnect, an anchor
    // granted and revoked again): none of this changes WHO is an anchor, so nothing below may change
    match idx % 4 {
        1 => {
            for a in &g.ids[..g.a] {
                eng.add_pre_trusted(a.clone()).await;
            }
            mon.count("anchors.every-anchor-announced-again", 1);
        }
        2 if g.a > 0 => {
            let a = &g.ids[(idx as usize / 4) % g.a];
            for _ in 0..3 {
                eng.add_pre_trusted(a.clone()).await;
            }
            mon.count("anchors.one-anchor-announced-three-more-times", 1);
        }
        3 if g.ids.len() > g.a => {
            let x = &g.ids[g.ids.len() - 1];
            eng.add_pre_trusted(x.clone()).await;
            eng.add_pre_trusted(x.clone()).await;
            eng.remove_pre_trusted(x).await;
            mon.count("anchors.non-anchor-granted-twice-then-revoked", 1);
        }
        _ => {}
    }
    for (x, y, ok) in &g.stmts {
        eng.update_local_trust(&g.ids[*x as usize], &g.ids[*y as usize], *ok).await;
    }
    if let Some(st) = &g.stats {
        for id in &g.ids {
            for s in st {
                eng.update_node_stats(id, s.to_update()).await;
            }
        }
    }
    let t0 = Instant::now();
    let map = eng.compute_global_trust().await;
    if t0.elapsed() > SLOW {
        mon.count("skipped.slow-compute", 1);
        return;
    }
    mon.count("graphs.computed", 1);
    let v = view(g);
    let total: f64 = map.values().sum();
    if map.is_empty() {
        mon.count("skipped.empty-map", 1);
        return;
    }
    if !total.is_finite() || total <= 0.0 {
        // nobody has positive standing (e.g. every identity has only failures): shares undefined; C10 judges that
        mon.count("skipped.total-not-positive", 1);
        return;
    }
    let pop = v.known.len();
    let regime = match v.engine_nodes {
        0..=100 => "n<=100",
        101..=500 => "n<=500",
        _ => "n>500",
    };
    mon.count(&format!("graphs.{regime}"), 1);
    let sybils_known: BTreeSet<u32> = v.known.iter().copied().filter(|i| g.is_sybil(*i)).collect();
    let nontrivial = g.a >= 1 && !sybils_known.is_empty() && v.honest_edges >= 1;
    if nontrivial {
        mon.case((size_bucket(g.a), size_bucket(sybils_known.len()), g.sybil_pat, g.honest_pat, g.stats.is_some(), regime));
    }
    let share_of = |set: &BTreeSet<u32>| -> f64 { set.iter().map(|i| map.get(&g.ids[*i as usize]).copied().unwrap_or(0.0)).sum::<f64>() / total };
    let anchors_json = || -> Value {
        json!((0..g.a.min(8)).map(|i| format!("A{i}={:.6}", map.get(&g.ids[i]).copied().unwrap_or(0.0) / total)).collect::<Vec<_>>())
    };

    // ---- closed sets
    let mut sets: Vec<(&'static str, &BTreeSet<u32>)> = vec![("designated Sybil set", &sybils_known)];
    if v.unreachable != sybils_known {
        sets.push(("all identities not reachable from an anchor", &v.unreachable));
    }
    for (what, set) in sets {
        if set.is_empty() {
            continue;
        }
        // closedness of the designated set is by construction; double-check it against the statements
        debug_assert!(g.stmts.iter().all(|(x, y, _)| set.contains(x) || !set.contains(y)));
        let share = share_of(set);
        let outside_silent = v.known.iter().filter(|i| !set.contains(i) && !v.rates_someone.contains(i)).count();
        let leak = if outside_silent > 0 { "some-outside-node-rates-nobody" } else { "every-outside-node-rates-someone" };
        let bound = set.len() as f64 / pop as f64 / 7.0;
        let detail = |rule: &str| {
            json!({"rule": rule, "judged_set": what, "set_size": set.len(), "population": pop, "engine_node_count": v.engine_nodes,
                   "set_share": share, "bound": if rule.starts_with("share") { bound } else { 0.001 },
                   "outside_nodes_without_outgoing_trust": outside_silent,
                   "anchor_shares": anchors_json(), "graph": g.describe()})
        };
        mon.eval();
        mon.count("judged.closed-set-share", 1);
        if share > bound + TOL {
            mon.violation(&format!("closed-set-share-above-1/7-of-population-share/{leak}/{regime}"), detail("share <= (|set|/population)/7"));
        }
        if pop <= 100 {
            mon.eval();
            mon.count("judged.closed-set-small-network", 1);
            if share >= 0.001 {
                mon.violation(&format!("closed-set-share-not-below-0.1%-in-small-network/{leak}"), detail("population <= 100: share < 0.001"));
            }
        }
        if share > 0.0 {
            mon.count("observed.closed-set-with-positive-share", 1);
        }
    }

    // ---- anchor floor
    mon.eval();
    mon.count("judged.anchor-floor", 1);
    let floor = ANCHOR_WEIGHT / g.a as f64;
    let mut worst: Option<(usize, f64)> = None;
    for i in 0..g.a {
        let sh = map.get(&g.ids[i]).copied().unwrap_or(0.0) / total;
        if sh < floor - TOL && worst.map(|(_, w)| sh < w).unwrap_or(true) {
            worst = Some((i, sh));
        }
    }
    if let Some((i, sh)) = worst {
        let rated = if v.rates_someone.contains(&(i as u32)) { "anchor-rates-someone" } else { "anchor-rates-nobody" };
        mon.violation(
            &format!("anchor-below-floor/{rated}/{regime}"),
            json!({"anchor": format!("A{i}"), "share": sh, "floor": floor, "anchors": g.a, "population": pop, "anchor_shares": anchors_json(), "graph": g.describe()}),
        );
    }

    if idx % 97 == 5 && nontrivial && g.total() <= 14 && mon.want_sample() {
        mon.sample(json!({"graph": g.describe(), "population": pop, "sybil_share": share_of(&sybils_known),
            "bound_1_7": sybils_known.len() as f64 / pop as f64 / 7.0, "unreachable_set_size": v.unreachable.len(),
            "unreachable_share": share_of(&v.unreachable), "anchor_floor": floor, "anchor_shares": anchors_json()}));
    }
}

/// minimal hand-written graphs, run first so the smallest witnesses are the recorded ones
fn directed() -> Vec<Graph> {
    let mk = |a: usize, h: usize, s: usize, stmts: Vec<(u32, u32, bool)>, hp: &'static str, sp: &'static str| {
        let mut r = Rng::new(0xC11 + (a * 100 + h * 10 + s) as u64 + stmts.len() as u64);
        Graph { a, h, s, ids: (0..a + h + s).map(|_| NodeId::from_bytes(r.arr32())).collect(), stmts, stats: None, honest_pat: hp, sybil_pat: sp, sybils_rate_outward: false }
    };
    vec![
        // one anchor that rates nobody, one Sybil rating itself
        mk(1, 0, 1, vec![(1, 1, true)], "silent", "self-loops"),
        // anchor vouches for an honest node that rates nobody; one self-rating Sybil
        mk(1, 1, 1, vec![(0, 1, true), (2, 2, true)], "anchors-vouch,honest-silent", "self-loops"),
        // anchor and honest node rate each other (nobody outside the Sybil set is silent); Sybil pair rates itself
        mk(1, 1, 2, vec![(0, 1, true), (1, 0, true), (2, 3, true), (3, 2, true)], "ring,everyone-rates", "ring"),
        // the same with a Sybil that only rates itself
        mk(1, 1, 1, vec![(0, 1, true), (1, 0, true), (2, 2, true)], "ring,everyone-rates", "self-loops"),
        // two anchors, one of them rated by nobody and rating nobody
        mk(2, 2, 1, vec![(0, 2, true), (2, 3, true), (3, 0, true), (4, 4, true)], "random,some-silent", "self-loops"),
    ]
}

fn main() {
    let mon = Monitor::new("C11", "exploration");
    mon.set_rule("case = one trust graph (anchors, honest nodes, a Sybil set nobody outside rates) computed once; non-trivial when it has >=1 anchor, >=1 Sybil known to the engine and >=1 statement made by an anchor/honest node; distinct by (|A| bucket, |S| bucket, Sybil pattern, honest pattern, statistics variant, population regime)");
    mon.assume("'equal statistics' is realised as no statistics at all, or one identical update_node_stats sequence for every identity");
    mon.assume("population = identities the engine has been told about (statement endpoints, statistics subjects, anchors)");
    mon.assume("anchor weight = 0.4 (EigenTrustEngine::new), so the floor per anchor is 0.4/|anchors| of the total");

    {
        let rt = checks::rt(true);
        rt.block_on(async {
            for (i, g) in directed().iter().enumerate() {
                run_graph(&mon, g, i as u64).await;
                mon.count("graphs.directed", 1);
            }
        });
    }

    let per_shard = mon.by_tier(24_000u64, 500_000);
    vkit::run_shards(mon.shards(), mon.seed, |_i, mut rng| {
        let rt = checks::rt(true);
        rt.block_on(async {
            for k in 0..per_shard {
                if mon.time_up() {
                    mon.count("stopped.time_up", 1);
                    break;
                }
                let g = gen_graph(&mut rng);
                run_graph(&mon, &g, k).await;
                mon.count("graphs", 1);
            }
        });
    });
    mon.finish();
}
