//! C20 — concurrent DHT operations and shutdown always complete; nothing runs after.
//! MemNet runs with many concurrent operations per node, peers turned silent at seeded
//! virtual instants and stop() at a seeded instant. Bounds are stated in VIRTUAL time and
//! derived from the code's own constants; wall-clock is only a watchdog.

use checks::net::*;
use memnet::*;
use saorsa_core::dht_network_manager::DhtNetworkResult;
use serde_json::json;
use std::sync::Arc;
use std::time::Duration;
use vkit::{Monitor, Rng};

const REQ_TO: Duration = Duration::from_millis(800);

#[derive(Clone, Copy, Debug, PartialEq, Eq, Hash)]
enum Kind {
    FindNode,
    Put,
    Get,
    Ping,
    Closest,
}

/// `dial` = what one dial may cost: the smaller of the transport's connection timeout and the
/// request timeout (the property bounds everything by the REQUEST timeout)
fn bound(k: Kind, dial: Duration) -> Duration {
    let lookup = (dial + REQ_TO) * 20;
    let b = match k {
        Kind::FindNode | Kind::Closest => lookup,
        Kind::Put | Kind::Get => lookup + REQ_TO + dial,
        Kind::Ping => REQ_TO,
    };
    b.mul_f64(1.5) + Duration::from_millis(100)
}

struct OpRec {
    node: usize,
    kind: Kind,
    started: Duration,
    ended: Option<Duration>,
    ok: bool,
}

async fn scenario(mon: &Monitor, rng: &mut Rng, realtime: bool) {
    let n = rng.urange(2, mon.by_tier(8, 12));
    let topo = *rng.pick(&TOPOS);
    // the transport's connection timeout may be shorter than, a few times, or (the stand-alone
    // default) far beyond the request timeout; the bounds below only ever use the smaller of the two
    let conn_to = *rng.pick(&[REQ_TO / 2, REQ_TO * 4, Duration::from_secs(30), Duration::from_secs(300)]);
    let dial = conn_to.min(REQ_TO);
    let cfg = NodeCfg { request_timeout: REQ_TO, connection_timeout: conn_to, replication_factor: *rng.pick(&[2usize, 3, 8]), ..Default::default() };
    let w = match World::build(rng, n, topo, &cfg).await {
        Ok(w) => Arc::new(w),
        Err(e) => {
            mon.inconclusive(&format!("world build failed: {e}"));
            return;
        }
    };
    w.hub.set_jitter_us(rng.range(0, 5000));
    let per_node = rng.urange(4, mon.by_tier(16, 40));
    let keys: Vec<[u8; 32]> = (0..rng.urange(1, 6)).map(|_| rng.arr32()).collect();
    let slack = if realtime { 30.0 } else { 1.0 };

    // silence plan: some peers go silent (and maybe come back) at seeded instants
    let mut silence_plan = Vec::new();
    if rng.chance(0.6) {
        for i in 0..n {
            if rng.chance(0.3) {
                silence_plan.push((i, Duration::from_millis(rng.range(0, 3000)), rng.chance(0.3)));
            }
        }
    }
    let stop_node = if rng.chance(0.7) { Some(rng.usize_below(n)) } else { None };
    let stop_at = Duration::from_millis(match rng.below(4) {
        0 => 0,
        1 => rng.range(1, 50),
        2 => rng.range(50, 1500),
        _ => rng.range(1500, 8000),
    });
    let stop_phase = if stop_at.is_zero() { "at-start" } else if stop_at < Duration::from_millis(50) { "first-round" } else if stop_at < Duration::from_millis(1500) { "mid-lookup" } else { "late" };

    let t_base = w.hub.now();
    for (i, at, heal) in silence_plan.clone() {
        let w2 = w.clone();
        let drop_in = rng.chance(0.5);
        tokio::spawn(async move {
            tokio::time::sleep(at).await;
            let f = if drop_in { FaultPlan { inbound: DeliverFault::Drop, ..Default::default() } } else { FaultPlan { outbound: DeliverFault::Drop, connect: ConnectFault::Hang, ..Default::default() } };
            w2.hub.set_fault(&w2.nodes[i].tid_hex, f);
            if heal {
                tokio::time::sleep(Duration::from_millis(1200)).await;
                w2.hub.set_fault(&w2.nodes[i].tid_hex, FaultPlan::default());
            }
        });
    }

    // served inbound requests: a stranger floods one node with requests its handler refuses
    // (oversize values) or cannot decode, and with plain pings; every handler must finish and
    // give its concurrency permit back
    let flood_target = if rng.chance(0.5) { Some(rng.usize_below(n)) } else { None };
    let permits_before: Vec<usize> = w.nodes.iter().map(|nd| nd.mgr.verif_handler_permits()).collect();
    if let Some(t) = flood_target {
        let w2 = w.clone();
        let count = rng.urange(20, 260);
        let stranger = rng.arr32();
        let seed = rng.next_u64();
        tokio::spawn(async move {
            let mut r = Rng::new(seed);
            let sh = hex::encode(stranger);
            for i in 0..count {
                let op = match r.below(3) {
                    0 => saorsa_core::dht_network_manager::DhtNetworkOperation::Put { key: r.arr32(), value: vec![9u8; 513 + r.usize_below(80)] },
                    1 => saorsa_core::dht_network_manager::DhtNetworkOperation::FindNode { key: r.arr32() },
                    _ => saorsa_core::dht_network_manager::DhtNetworkOperation::Ping,
                };
                let mut f = dht_request_frame(&sh, &format!("flood-{i}"), &w2.nodes[t].tid_hex, op);
                if r.chance(0.2) {
                    let cut = r.usize_below(f.len().max(1));
                    f.truncate(cut.max(8));
                }
                w2.hub.inject(stranger, &w2.nodes[t].tid_hex, f, Duration::from_micros(r.range(0, 1_500_000)));
            }
        });
    }

    let recs: Arc<parking_lot::Mutex<Vec<OpRec>>> = Arc::new(parking_lot::Mutex::new(Vec::new()));
    let mut handles = Vec::new();
    for node in 0..n {
        for j in 0..per_node {
            let kind = *rng.pick(&[Kind::FindNode, Kind::Put, Kind::Get, Kind::Ping, Kind::Closest, Kind::Get, Kind::Put]);
            let key = *rng.pick(&keys);
            let delay = Duration::from_micros(rng.range(0, 2_000_000));
            let peer = w.nodes[(node + 1 + rng.usize_below(n - 1)) % n].tid_hex.clone();
            let w2 = w.clone();
            let recs2 = recs.clone();
            let val = format!("v-{node}-{j}").into_bytes();
            let yields = rng.below(4);
            let b = bound(kind, dial).mul_f64(slack);
            handles.push(tokio::spawn(async move {
                tokio::time::sleep(delay).await;
                for _ in 0..yields {
                    tokio::task::yield_now().await;
                }
                let idx = {
                    let mut g = recs2.lock();
                    g.push(OpRec { node, kind, started: w2.hub.now(), ended: None, ok: false });
                    g.len() - 1
                };
                let m = &w2.nodes[node].mgr;
                let r = tokio::time::timeout(b, async {
                    match kind {
                        Kind::FindNode => m.find_node(&key).await.map(|_| ()),
                        Kind::Closest => m.find_closest_nodes(&key, 8).await.map(|_| ()),
                        Kind::Put => m.put(key, val).await.map(|_| ()),
                        Kind::Get => m.get(&key).await.map(|r| {
                            let _ = matches!(r, DhtNetworkResult::GetSuccess { .. });
                        }),
                        Kind::Ping => m.ping(&peer).await.map(|_| ()),
                    }
                })
                .await;
                let mut g = recs2.lock();
                match r {
                    Ok(res) => {
                        g[idx].ended = Some(w2.hub.now());
                        g[idx].ok = res.is_ok();
                    }
                    Err(_) => {} // exceeded its bound: ended stays None
                }
            }));
        }
    }

    // stop() at its seeded instant
    let mut stop_info: Option<(usize, Duration, Option<Duration>, usize, Duration)> = None;
    if let Some(s) = stop_node {
        tokio::time::sleep(stop_at).await;
        let peers = w.nodes[s].mgr.verif_dht_peers().await.len();
        // strangers keep dialling the node while it stops: connection events must not be able to
        // wedge the shutdown, whichever instant of stop() they land in (the leave phase takes about
        // one round trip per peer; dials are spread over and beyond it, a microsecond apart at the end)
        if rng.chance(0.7) {
            let dials = rng.urange(4, 40);
            let span_us = (peers as u64 + 1) * rng.range(200, 6000);
            for d in 0..dials {
                let w2 = w.clone();
                let tid = rng.arr32();
                let addr = sim_addr(100 + d);
                let at = Duration::from_micros(if rng.chance(0.5) { rng.range(0, span_us) } else { rng.range(0, 400) });
                tokio::spawn(async move {
                    tokio::time::sleep(at).await;
                    let _rx = w2.hub.register_puppet(tid, addr);
                    // what an inbound connection does on the stopping node: the accept path
                    w2.nodes[s].transport.verif_accept(&hex::encode(tid), addr).await;
                });
            }
        }
        let sb = (REQ_TO * (peers as u32 + 1)).mul_f64(1.5 * slack) + Duration::from_secs(1);
        let t0 = w.hub.now();
        // shadowed stop: an inbound connection is accepted immediately before (a seeded subset of)
        // the resumptions of stop() itself, so that a connection event is pending, not yet seen by
        // the node's event task, at every await point of stop() - the schedule in which the accept
        // loop is polled just ahead of the stopping task
        let shadow_p = *rng.pick(&[0.0, 0.0, 0.25, 0.6, 1.0]);
        let mut shadow_rng = Rng::new(rng.next_u64());
        let mut stop_fut = Box::pin(w.nodes[s].mgr.stop());
        let mut pend: Option<std::pin::Pin<Box<dyn std::future::Future<Output = ()>>>> = None;
        let mut puppets = Vec::new();
        let mut shadow_dials = 0u64;
        let wq = w.clone();
        let shadowed = std::future::poll_fn(|cx| {
            use std::future::Future;
            if let Some(f) = pend.as_mut() {
                if f.as_mut().poll(cx).is_ready() {
                    pend = None;
                }
            }
            if pend.is_none() && shadow_dials < 64 && shadow_rng.chance(shadow_p) {
                let tid = shadow_rng.arr32();
                let addr = sim_addr(1000 + shadow_dials as usize);
                puppets.push(wq.hub.register_puppet(tid, addr));
                let tr = wq.nodes[s].transport.clone();
                let mut f: std::pin::Pin<Box<dyn std::future::Future<Output = ()>>> = Box::pin(async move { tr.verif_accept(&hex::encode(tid), addr).await });
                if f.as_mut().poll(cx).is_pending() {
                    pend = Some(f);
                }
                shadow_dials += 1;
            }
            stop_fut.as_mut().poll(cx)
        });
        let r = tokio::time::timeout(sb, shadowed).await;
        let t1 = w.hub.now();
        mon.count("stop.shadow_dials", shadow_dials);
        if shadow_dials > 0 {
            mon.count("stop.with_shadow_dials", 1);
        }
        drop(pend);
        stop_info = Some((s, t0, r.is_ok().then_some(t1), peers, sb));
    }

    for h in handles {
        let _ = h.await;
    }
    settle(Duration::from_millis(50)).await;

    // ---- judge ----
    let inflight_at_stop = stop_info.as_ref().map(|(s, t0, _, _, _)| recs.lock().iter().filter(|r| r.node == *s && r.started <= *t0 && r.ended.map_or(true, |e| e > *t0)).count()).unwrap_or(0);
    let ctx = |extra: serde_json::Value| {
        json!({"n": n, "topology": format!("{topo:?}"), "ops_per_node": per_node, "silenced": silence_plan.len(), "stop_node": stop_node, "stop_phase": stop_phase,
               "stop_at_ms": stop_at.as_millis() as u64, "connection_timeout_ms": conn_to.as_millis() as u64, "inflight_on_stopped_node": inflight_at_stop, "realtime": realtime, "detail": extra})
    };
    let frames = w.hub.trace_since(0);
    {
        use std::hash::{Hash, Hasher};
        let mut h = std::collections::hash_map::DefaultHasher::new();
        for f in frames.iter().take(4000) {
            (w.spell.get(&f.src), w.spell.get(&f.dst), f.dht.as_ref().map(|d| (d.mtype, d.op))).hash(&mut h);
        }
        if n * per_node >= 2 {
            mon.case((h.finish(), stop_phase));
        }
    }
    mon.count("frames", frames.len() as u64);
    for r in recs.lock().iter() {
        mon.eval();
        mon.count(&format!("ops.{:?}.{}", r.kind, if r.ended.is_none() { "exceeded" } else if r.ok { "ok" } else { "err" }), 1);
        if r.ended.is_none() {
            let on_stopped = stop_node == Some(r.node);
            mon.violation(
                &format!("completion/{:?}-exceeded-bound/{}", r.kind, if on_stopped { "on-stopped-node" } else { "on-running-node" }),
                ctx(json!({"node": r.node, "started_ms": (r.started - t_base).as_millis() as u64, "bound_ms": bound(r.kind, dial).mul_f64(slack).as_millis() as u64, "connection_timeout_ms": conn_to.as_millis() as u64})),
            );
        }
    }
    if let Some((s, t0, t1, peers, sb)) = stop_info {
        mon.eval();
        mon.count(&format!("stop.{stop_phase}"), 1);
        match t1 {
            None => mon.violation("stop/exceeded-bound", ctx(json!({"peers": peers, "bound_ms": sb.as_millis() as u64}))),
            Some(t1) => {
                mon.count("stop.virtual_ms_total", (t1 - t0).as_millis() as u64);
                if !w.nodes[s].mgr.verif_task_handles_done().await {
                    mon.violation("stop/background-task-handles-not-consumed", ctx(json!({})));
                }
                // no Request frame from the stopped node after stop() returned
                let late: Vec<&Frame> = frames
                    .iter()
                    .filter(|f| f.src == w.nodes[s].tid_hex && f.t > t1 && f.dht.as_ref().is_some_and(|d| d.mtype == "Request"))
                    .collect();
                mon.count("after_stop.request_frames", late.len() as u64);
                if let Some(f) = late.first() {
                    let op = f.dht.as_ref().map(|d| d.op).unwrap_or("?");
                    mon.violation(
                        &format!("after-stop/request-sent/{op}"),
                        ctx(json!({"count": late.len(), "first_after_ms": (f.t - t1).as_millis() as u64, "ops": late.iter().take(6).map(|f| f.dht.as_ref().map(|d| d.op).unwrap_or("?")).collect::<Vec<_>>()})),
                    );
                }
                // responses to inbound requests after stop are also "running after"
                let late_resp = frames.iter().filter(|f| f.src == w.nodes[s].tid_hex && f.t > t1 + Duration::from_millis(1) && f.dht.as_ref().is_some_and(|d| d.mtype == "Response")).count();
                mon.count("after_stop.response_frames", late_resp as u64);
            }
        }
        if mon.want_sample() {
            mon.sample(ctx(json!({"frames": frames.len(), "stop_virtual_ms": t1.map(|t| (t - t0).as_millis() as u64), "peers": peers})));
        }
    }
    // at quiescence every running node has all its handler permits back and still serves a request
    settle(REQ_TO * 2).await;
    for (i, nd) in w.nodes.iter().enumerate() {
        if Some(i) == stop_node {
            continue;
        }
        mon.eval();
        let now = nd.mgr.verif_handler_permits();
        if now != permits_before[i] {
            mon.violation(
                "inbound/handler-permits-not-returned-at-quiescence",
                ctx(json!({"node": i, "before": permits_before[i], "after": now, "flooded": flood_target == Some(i)})),
            );
        }
    }
    if !realtime {
        // a healthy peer pings every running, unsilenced node: it must get an answer
        let healthy: Vec<usize> = (0..n).filter(|i| Some(*i) != stop_node && w.hub.fault_of(&w.nodes[*i].tid_hex).is_some_and(|f| f.inbound == DeliverFault::Deliver && f.outbound == DeliverFault::Deliver && f.connect == ConnectFault::Accept)).collect();
        if healthy.len() >= 2 {
            let a = healthy[0];
            for &b in &healthy[1..] {
                let _ = w.nodes[a].mgr.connect_to_peer(&w.nodes[b].addr.to_string()).await;
                mon.eval();
                let r = tokio::time::timeout(REQ_TO * 2, w.nodes[a].mgr.ping(&w.nodes[b].tid_hex)).await;
                if !matches!(r, Ok(Ok(_))) {
                    mon.violation("inbound/node-stopped-serving-requests", ctx(json!({"node": b, "flooded": flood_target == Some(b), "result": format!("{:?}", r.map(|x| x.map(|_| ()).map_err(|e| e.to_string())))})));
                    break;
                }
            }
        }
    }

    // shut the rest down (bounded) so the runtime drops cleanly
    for (i, nd) in w.nodes.iter().enumerate() {
        if Some(i) != stop_node {
            let peers = nd.mgr.verif_dht_peers().await.len();
            let sb = (REQ_TO * (peers as u32 + 1)).mul_f64(1.5 * slack) + Duration::from_secs(1);
            mon.eval();
            if tokio::time::timeout(sb, nd.mgr.stop()).await.is_err() {
                mon.violation("stop/exceeded-bound", ctx(json!({"peers": peers, "phase": "teardown"})));
            }
        }
        let _ = tokio::time::timeout(Duration::from_secs(600), nd.transport.stop()).await;
    }
}

/// Peer churn against back-to-back local work: one node answers thousands of local closest-node
/// queries (what every served FIND_NODE and every lookup round starts with) in tight loops while
/// short-lived peers connect and disconnect. No await in those loops ever has to wait, so the
/// scheduler interleaves the tasks only where its cooperative budget runs out - inside lock
/// acquisitions. Everything must finish, the node must still answer, and stop() must return.
async fn churn_lane(mon: &Monitor, rng: &mut Rng) {
    let n = rng.urange(3, 8);
    let cfg = NodeCfg { request_timeout: REQ_TO, connection_timeout: REQ_TO / 2, ..Default::default() };
    let w = match World::build(rng, n, Topo::FullMesh, &cfg).await {
        Ok(w) => Arc::new(w),
        Err(_) => return,
    };
    let x = 0usize;
    let loops = rng.urange(2, 4);
    let per_loop = rng.urange(300, 1500);
    let bound = REQ_TO * 30;
    let mut hs = Vec::new();
    for l in 0..loops {
        let w2 = w.clone();
        let seed = rng.next_u64();
        hs.push(tokio::spawn(async move {
            let mut r = Rng::new(seed);
            for _ in 0..per_loop {
                let key = r.arr32();
                let _ = w2.nodes[x].mgr.find_closest_nodes_local(&key, 8).await;
                // other cheap calls in between shift where in a query the cooperative budget runs out
                match r.below(6) {
                    0 => {
                        let _ = w2.nodes[x].mgr.get_stats().await;
                    }
                    1 => {
                        let _ = w2.nodes[x].mgr.verif_dht_peers().await;
                    }
                    _ => {}
                }
            }
            l
        }));
    }
    let churn = rng.urange(200, 1500);
    {
        let w2 = w.clone();
        let seed = rng.next_u64();
        hs.push(tokio::spawn(async move {
            let mut r = Rng::new(seed);
            for c in 0..churn {
                let tid = r.arr32();
                let addr = sim_addr(2000 + c);
                let _rx = w2.hub.register_puppet(tid, addr);
                let h = hex::encode(tid);
                w2.nodes[x].transport.verif_accept(&h, addr).await;
                for _ in 0..r.below(3) {
                    tokio::task::yield_now().await;
                }
                let _ = w2.nodes[x].transport.disconnect_peer(&h).await;
                // (no timer here: under the paused clock a sleep would park the churn until the lookup
                // loops, which never go idle, are over)
                if r.chance(0.2) {
                    tokio::task::yield_now().await;
                }
            }
            usize::MAX
        }));
    }
    mon.eval();
    mon.case(("churn", n, loops, (per_loop / 300).min(5), (churn / 50).min(6)));
    mon.count("churn.worlds", 1);
    let all = tokio::time::timeout(bound, futures::future::join_all(hs)).await;
    let ctx = |extra: serde_json::Value| json!({"n": n, "local_lookup_loops": loops, "lookups_per_loop": per_loop, "connect_disconnect_cycles": churn, "bound_ms": bound.as_millis() as u64, "detail": extra});
    if all.is_err() {
        mon.violation("completion/local-lookups-or-peer-churn-hang", ctx(json!({"what": "back-to-back local closest-node queries and peer connect/disconnect cycles on one node did not all finish"})));
        // the node is wedged: anything else asked of it (even a state accessor) could wait for ever
        return;
    }
    // the node still serves a request and still stops
    mon.eval();
    let ping = tokio::time::timeout(REQ_TO * 2, w.nodes[1].mgr.ping(&w.nodes[x].tid_hex)).await;
    if !matches!(ping, Ok(Ok(_))) {
        mon.violation("inbound/node-stopped-serving-requests/after-peer-churn", ctx(json!({"result": format!("{:?}", ping.map(|r| r.map(|_| ()).map_err(|e| e.to_string())))})));
    }
    for nd in w.nodes.iter() {
        let peers = match tokio::time::timeout(REQ_TO, nd.mgr.verif_dht_peers()).await {
            Ok(p) => p.len(),
            Err(_) => {
                mon.violation("completion/state-accessor-hangs/after-peer-churn", ctx(json!({})));
                return;
            }
        };
        let sb = (REQ_TO * (peers as u32 + 1)).mul_f64(1.5) + Duration::from_secs(1);
        mon.eval();
        if tokio::time::timeout(sb, nd.mgr.stop()).await.is_err() {
            mon.violation("stop/exceeded-bound", ctx(json!({"peers": peers, "phase": "after-peer-churn"})));
        }
        let _ = tokio::time::timeout(Duration::from_secs(600), nd.transport.stop()).await;
    }
}

fn main() {
    let mon = Monitor::new("C20", "exploration");
    mon.set_rule("case = one run: N real nodes, 4..40 concurrent find_node/put/get/ping/closest per node, seeded delivery jitter and yields, peers silenced at seeded virtual instants, stop() at a seeded instant; non-trivial when >=2 concurrent ops; distinct by (hash of the frame sequence, stop phase)");
    mon.assume("bounds in virtual time from the code's constants: lookup 20*(dial+request), put/get + one request, stop (peers+1)*request, each x1.5; real-time lane judges only 30x the bound");
    let per_shard = mon.by_tier(500u64, 900);
    vkit::run_shards(mon.shards(), mon.seed, |_i, mut rng| {
        for k in 0..per_shard {
            if mon.spent(0.85) {
                break;
            }
            let rt = checks::rt(true);
            rt.block_on(scenario(&mon, &mut rng, false));
            mon.count("runs.virtual", 1);
            if k % 8 == 3 {
                let rt = checks::rt(true);
                rt.block_on(churn_lane(&mon, &mut rng));
            }
        }
    });
    // real-time, multi-thread lane: genuine lock contention; hard hangs only
    if !mon.quick() {
        let mut rng = Rng::new(mon.seed ^ 0x20);
        for _ in 0..40 {
            if mon.time_up() {
                break;
            }
            let rt = tokio::runtime::Builder::new_multi_thread().worker_threads(8).enable_all().build().expect("rt");
            rt.block_on(scenario(&mon, &mut rng, true));
            mon.count("runs.realtime", 1);
        }
    }
    mon.finish();
}
