//! C10 — global trust is a well-formed distribution that moves with reported behaviour.
//!
//! Runtime monitor: seeded histories of `update_local_trust` / `TrustProvider::update_trust`,
//! every `update_node_stats` variant, add/remove pre-trusted, `remove_node` and intermediate
//! computes are fed to the real `EigenTrustEngine`. Judged:
//!   * every computed map: finite scores in [0,1], Σ = 1 (or all 0), known nodes present
//!   * `get_trust` = last computed score; 0 for never-seen / removed peers
//!   * equal histories → equal scores (second engine; twin nodes in isomorphic positions)
//!   * metamorphic: H+success never lowers, H+failure never raises the peer's score,
//!     corrupted-data / protocol-violation cost at least a plain failure.
//! The oracle is a small bookkeeping model of *who is known* plus direct comparisons of
//! observed scores; it never recomputes EigenTrust.

use saorsa_core::adaptive::{EigenTrustEngine, NodeId, NodeStatisticsUpdate, TrustProvider};
use serde_json::{json, Value};
use std::collections::{BTreeSet, HashMap, HashSet};
use std::time::{Duration, Instant};
use vkit::{hex8, Monitor, Rng};

/// equality of scores of equal histories (HashMap summation order differs between engines)
const EQ_TOL: f64 = 1e-9;
/// slack for "never lowers / never raises"
const MONO_TOL: f64 = 1e-12;
/// interaction-report pairs: five times the engine's own convergence threshold (L1 step < 1e-4)
const INTERACTION_TOL: f64 = 5e-4;
/// a compute slower than this may have hit the engine's own 2 s fallback → undecidable
const SLOW: Duration = Duration::from_millis(1500);

#[derive(Clone, Copy, Debug, PartialEq)]
enum St {
    Uptime(u64),
    Correct,
    Failed,
    Unavail,
    Corrupt,
    Proto,
    Storage(u64),
    Bandwidth(u64),
    Cycles(u64),
}

impl St {
    fn to_update(self) -> NodeStatisticsUpdate {
        match self {
            St::Uptime(v) => NodeStatisticsUpdate::Uptime(v),
            St::Correct => NodeStatisticsUpdate::CorrectResponse,
            St::Failed => NodeStatisticsUpdate::FailedResponse,
            St::Unavail => NodeStatisticsUpdate::DataUnavailable,
            St::Corrupt => NodeStatisticsUpdate::CorruptedData,
            St::Proto => NodeStatisticsUpdate::ProtocolViolation,
            St::Storage(v) => NodeStatisticsUpdate::StorageContributed(v),
            St::Bandwidth(v) => NodeStatisticsUpdate::BandwidthContributed(v),
            St::Cycles(v) => NodeStatisticsUpdate::ComputeContributed(v),
        }
    }
    fn kind_bit(self) -> u32 {
        match self {
            St::Uptime(_) => 0,
            St::Correct => 1,
            St::Failed => 2,
            St::Unavail => 3,
            St::Corrupt => 4,
            St::Proto => 5,
            St::Storage(_) => 6,
            St::Bandwidth(_) => 7,
            St::Cycles(_) => 8,
        }
    }
    fn is_response(self) -> bool {
        matches!(self, St::Correct | St::Failed | St::Unavail | St::Corrupt | St::Proto)
    }
    fn is_failure(self) -> bool {
        matches!(self, St::Failed | St::Unavail | St::Corrupt | St::Proto)
    }
}

#[derive(Clone, Debug)]
enum Op {
    /// pairwise statement; `prov` = through `TrustProvider::update_trust` (spawned task)
    Lt { from: u32, to: u32, ok: bool, prov: bool },
    Stat { node: u32, st: St },
    AddPre(u32),
    RemPre(u32),
    Remove(u32),
    Compute,
}

struct Hist {
    ids: Vec<NodeId>,
    init_pre: Vec<u32>,
    ops: Vec<Op>,
    twin: Option<(u32, u32)>,
    class: usize,
    /// additional second-engine replays (directed probe of order dependence)
    extra_replays: usize,
}

fn short(ids: &[NodeId], i: u32) -> String {
    format!("n{}:{}", i, hex8(ids[i as usize].as_bytes()))
}

fn op_str(op: &Op) -> String {
    match op {
        Op::Lt { from, to, ok, prov } => format!("trust n{from}->n{to} {}{}", if *ok { "ok" } else { "fail" }, if *prov { " (provider)" } else { "" }),
        Op::Stat { node, st } => format!("stat n{node} {st:?}"),
        Op::AddPre(x) => format!("add_pre n{x}"),
        Op::RemPre(x) => format!("remove_pre n{x}"),
        Op::Remove(x) => format!("remove_node n{x}"),
        Op::Compute => "compute".into(),
    }
}

fn ops_json(ops: &[Op]) -> Value {
    const KEEP: usize = 40;
    if ops.len() <= KEEP {
        json!(ops.iter().map(op_str).collect::<Vec<_>>())
    } else {
        let mut v: Vec<String> = ops.iter().take(KEEP / 2).map(op_str).collect();
        v.push(format!("… {} ops omitted …", ops.len() - KEEP));
        v.extend(ops.iter().skip(ops.len() - KEEP / 2).map(op_str));
        json!(v)
    }
}

async fn settle() {
    for _ in 0..4 {
        tokio::task::yield_now().await;
    }
}

fn new_engine(h: &Hist) -> EigenTrustEngine {
    EigenTrustEngine::new(h.init_pre.iter().map(|i| h.ids[*i as usize].clone()).collect())
}

/// apply one op; a Compute returns (map, wall)
async fn apply(eng: &EigenTrustEngine, ids: &[NodeId], op: &Op) -> Option<(HashMap<NodeId, f64>, Duration)> {
    match op {
        Op::Lt { from, to, ok, prov } => {
            let (f, t) = (&ids[*from as usize], &ids[*to as usize]);
            if *prov {
                eng.update_trust(f, t, *ok);
                settle().await;
            } else {
                eng.update_local_trust(f, t, *ok).await;
            }
        }
        Op::Stat { node, st } => eng.update_node_stats(&ids[*node as usize], st.to_update()).await,
        Op::AddPre(x) => eng.add_pre_trusted(ids[*x as usize].clone()).await,
        Op::RemPre(x) => eng.remove_pre_trusted(&ids[*x as usize]).await,
        Op::Remove(x) => {
            eng.remove_node(&ids[*x as usize]);
            settle().await;
        }
        Op::Compute => {
            let t0 = Instant::now();
            let m = eng.compute_global_trust().await;
            return Some((m, t0.elapsed()));
        }
    }
    None
}

/// replay a whole history (+ optional extra report) into a fresh engine, final compute included
async fn replay(h: &Hist, extra: Option<(u32, St)>) -> Option<HashMap<NodeId, f64>> {
    let eng = new_engine(h);
    for op in &h.ops {
        if let Some((_, wall)) = apply(&eng, &h.ids, op).await {
            if wall > SLOW {
                return None;
            }
        }
    }
    if let Some((p, st)) = extra {
        apply(&eng, &h.ids, &Op::Stat { node: p, st }).await;
    }
    let (m, wall) = apply(&eng, &h.ids, &Op::Compute).await?;
    (wall <= SLOW).then_some(m)
}

/// replay a whole history plus one more interaction report `from -> to` into a fresh engine
async fn replay_lt(h: &Hist, extra: Option<(u32, u32, bool)>) -> Option<HashMap<NodeId, f64>> {
    let eng = new_engine(h);
    for op in &h.ops {
        if let Some((_, wall)) = apply(&eng, &h.ids, op).await {
            if wall > SLOW {
                return None;
            }
        }
    }
    if let Some((from, to, ok)) = extra {
        apply(&eng, &h.ids, &Op::Lt { from, to, ok, prov: false }).await;
    }
    let (m, wall) = apply(&eng, &h.ids, &Op::Compute).await?;
    (wall <= SLOW).then_some(m)
}

/// like `confirmed_lower` for interaction-report pairs
async fn confirmed_lower_lt(mon: &Monitor, h: &Hist, p: u32, lo_extra: Option<(u32, u32, bool)>, lo_seen: f64, hi_extra: Option<(u32, u32, bool)>, hi_seen: f64) -> bool {
    let pid = &h.ids[p as usize];
    let (mut lo_max, mut hi_min) = (lo_seen, hi_seen);
    let rounds = if (hi_seen - lo_seen).abs() < 1e-2 { 5 } else { 1 };
    for _ in 0..rounds {
        match (replay_lt(h, lo_extra).await, replay_lt(h, hi_extra).await) {
            (Some(a), Some(b)) => {
                lo_max = lo_max.max(score(&a, pid));
                hi_min = hi_min.min(score(&b, pid));
            }
            _ => {
                mon.count("skipped.slow-compute", 1);
                return false;
            }
        }
    }
    if lo_max < hi_min - MONO_TOL {
        true
    } else {
        mon.count("skipped.pair-not-stable-across-engines", 1);
        false
    }
}

#[derive(Clone, Copy, PartialEq, Eq, Debug)]
enum Know {
    Never,
    Known,
    RemovedUnknown,
    Ambiguous,
}

/// bookkeeping of who is known — the only "model" state the oracle needs
struct Model {
    state: Vec<Know>,
    edges: HashSet<(u32, u32)>,
    stat_nodes: HashSet<u32>,
    resp_nodes: HashSet<u32>,
    pre: HashSet<u32>,
    kinds: u32,
    any_failure: bool,
    n_edge_reports: usize,
    n_stat_reports: usize,
    /// removed peers that a compute made after the removal put a score on
    rescored: HashSet<u32>,
    /// removed peers already reported in this history
    reported: std::cell::RefCell<HashSet<u32>>,
}

impl Model {
    fn new(h: &Hist) -> Self {
        let mut m = Model {
            state: vec![Know::Never; h.ids.len()],
            edges: HashSet::new(),
            stat_nodes: HashSet::new(),
            resp_nodes: HashSet::new(),
            pre: HashSet::new(),
            kinds: 0,
            any_failure: false,
            n_edge_reports: 0,
            n_stat_reports: 0,
            rescored: HashSet::new(),
            reported: Default::default(),
        };
        for p in &h.init_pre {
            m.pre.insert(*p);
            m.state[*p as usize] = Know::Known;
        }
        m
    }
    fn has_relations(&self, x: u32) -> bool {
        self.stat_nodes.contains(&x) || self.edges.iter().any(|(a, b)| *a == x || *b == x)
    }
    fn note(&mut self, op: &Op) {
        match op {
            Op::Lt { from, to, ok, prov } => {
                self.edges.insert((*from, *to));
                self.state[*from as usize] = Know::Known;
                self.state[*to as usize] = Know::Known;
                self.n_edge_reports += 1;
                self.kinds |= 1 << if *ok { 9 } else { 10 };
                if *prov {
                    self.kinds |= 1 << 11;
                }
                if from == to {
                    self.kinds |= 1 << 12;
                }
            }
            Op::Stat { node, st } => {
                self.stat_nodes.insert(*node);
                if st.is_response() {
                    self.resp_nodes.insert(*node);
                }
                if st.is_failure() {
                    self.any_failure = true;
                }
                self.state[*node as usize] = Know::Known;
                self.n_stat_reports += 1;
                self.kinds |= 1 << st.kind_bit();
            }
            Op::AddPre(x) => {
                self.pre.insert(*x);
                self.state[*x as usize] = Know::Known;
                self.kinds |= 1 << 13;
            }
            Op::RemPre(x) => {
                if self.pre.remove(x) && !self.has_relations(*x) {
                    // was known only as an anchor: the property does not say what it is now
                    self.state[*x as usize] = Know::Ambiguous;
                }
                self.kinds |= 1 << 14;
            }
            Op::Remove(x) => {
                self.edges.retain(|(a, b)| a != x && b != x);
                self.stat_nodes.remove(x);
                self.resp_nodes.remove(x);
                self.rescored.remove(x);
                self.reported.borrow_mut().remove(x);
                let s = &mut self.state[*x as usize];
                if self.pre.contains(x) {
                    *s = Know::Known; // still configured as an anchor
                } else if *s != Know::Never {
                    *s = Know::RemovedUnknown;
                }
                self.kinds |= 1 << 15;
            }
            Op::Compute => {}
        }
    }
    fn note_scored(&mut self, h: &Hist, map: &HashMap<NodeId, f64>) {
        for (i, st) in self.state.iter().enumerate() {
            if *st == Know::RemovedUnknown && map.contains_key(&h.ids[i]) {
                self.rescored.insert(i as u32);
            }
        }
    }
    /// nodes that the history (after removals) still talks about
    fn must_be_scored(&self) -> BTreeSet<u32> {
        let mut s: BTreeSet<u32> = self.stat_nodes.iter().copied().collect();
        for (a, b) in &self.edges {
            s.insert(*a);
            s.insert(*b);
        }
        s
    }
    fn nontrivial(&self) -> bool {
        self.must_be_scored().len() >= 3 && !self.edges.is_empty() && !self.stat_nodes.is_empty()
    }
}

fn n_bucket(n: usize) -> u8 {
    match n {
        0..=2 => 0,
        3..=10 => 1,
        11..=100 => 2,
        101..=500 => 3,
        _ => 4,
    }
}

struct Ctx<'a> {
    mon: &'a Monitor,
    h: &'a Hist,
}

impl Ctx<'_> {
    fn hist_detail(&self, upto: usize) -> Value {
        json!({
            "ids": self.h.ids.len(),
            "initial_pre_trusted": self.h.init_pre.iter().map(|i| format!("n{i}")).collect::<Vec<_>>(),
            "ops": ops_json(&self.h.ops[..upto.min(self.h.ops.len())]),
        })
    }
    fn scores_json(&self, map: &HashMap<NodeId, f64>) -> Value {
        let mut v: Vec<String> = Vec::new();
        for (i, id) in self.h.ids.iter().enumerate() {
            if let Some(s) = map.get(id) {
                v.push(format!("n{i}={s:.6}"));
            }
            if v.len() >= 24 {
                v.push("…".into());
                break;
            }
        }
        json!(v)
    }

    fn reported_once(&self, model: &Model, i: u32) -> bool {
        model.reported.borrow_mut().insert(i)
    }

    /// well-formedness of one computed map
    fn judge_map(&self, model: &Model, map: &HashMap<NodeId, f64>, upto: usize) {
        let mon = self.mon;
        mon.eval();
        if model.nontrivial() {
            mon.case((n_bucket(map.len()), model.kinds, "wellformed"));
        }
        let mut sum = 0.0;
        let mut all_zero = true;
        let mut bad: Option<(&'static str, f64)> = None;
        for s in map.values() {
            if s.is_nan() {
                bad = Some(("range/nan", *s));
            } else if s.is_infinite() {
                bad = Some(("range/infinite", *s));
            } else if *s < 0.0 {
                bad = Some(("range/negative", *s));
            } else if *s > 1.0 + MONO_TOL {
                bad = Some(("range/above-one", *s));
            }
            if *s != 0.0 {
                all_zero = false;
            }
            sum += *s;
        }
        if let Some((sig, s)) = bad {
            mon.violation(sig, json!({"score": format!("{s:e}"), "nodes": map.len(), "history": self.hist_detail(upto), "scores": self.scores_json(map)}));
            return; // the sum of a map holding NaN/∞ tells nothing more
        }
        if map.is_empty() {
            mon.count("maps.empty", 1);
        } else if all_zero {
            mon.count("maps.all_zero", 1);
            if !model.any_failure {
                mon.violation(
                    "sum/all-zero-without-any-failure-report",
                    json!({"nodes": map.len(), "history": self.hist_detail(upto)}),
                );
            }
        } else if (sum - 1.0).abs() > EQ_TOL {
            // which entries does the history give no reason to expect in a fresh result?
            let expected = model.must_be_scored();
            let (mut ex_anchor, mut orphan, mut other) = (0usize, 0usize, 0usize);
            let mut extra_mass = 0.0;
            for (i, id) in self.h.ids.iter().enumerate() {
                let Some(sc) = map.get(id) else { continue };
                let i = i as u32;
                if expected.contains(&i) || model.pre.contains(&i) {
                    continue;
                }
                extra_mass += *sc;
                match model.state[i as usize] {
                    Know::Ambiguous => ex_anchor += 1,
                    Know::Known => orphan += 1,
                    // a removed peer that the engine scored again is reported by the query rule; its
                    // score is part of the fresh result, not a leftover
                    _ => other += 1,
                }
            }
            let class = match (ex_anchor > 0, orphan > 0) {
                (false, false) => "no-leftover-entries",
                (true, false) => "leftover-entry-of-former-anchor",
                (false, true) => "leftover-entry-of-node-orphaned-by-removal",
                (true, true) => "leftover-entries-of-former-anchor-and-orphaned-node",
            };
            mon.violation(
                &format!("sum/not-one/{class}"),
                json!({"sum": sum, "nodes": map.len(), "mass_of_unexpected_entries": extra_mass,
                       "unexpected_entries": {"former_anchor": ex_anchor, "orphaned_by_removal": orphan, "other": other},
                       "history": self.hist_detail(upto), "scores": self.scores_json(map)}),
            );
        }
        // every node the (post-removal) history still mentions has a score
        let missing: Vec<u32> = model.must_be_scored().into_iter().filter(|i| !map.contains_key(&self.h.ids[*i as usize])).collect();
        if !missing.is_empty() {
            mon.violation(
                "map/known-node-without-score",
                json!({"missing": missing.iter().take(8).map(|i| short(&self.h.ids, *i)).collect::<Vec<_>>(), "nodes": map.len(), "history": self.hist_detail(upto)}),
            );
        }
    }

    /// per-peer query against the last computed map and the known-set model
    fn judge_queries(&self, eng: &EigenTrustEngine, model: &Model, last: Option<&HashMap<NodeId, f64>>, upto: usize, rng: &mut Rng, after: &str) {
        let mon = self.mon;
        mon.eval();
        if model.nontrivial() {
            mon.case((n_bucket(last.map(|m| m.len()).unwrap_or(0)), model.kinds, "query", after));
        }
        if let Some(map) = last {
            // only judged directly after the compute that produced `map`
            if after == "compute" {
                for (id, s) in map {
                    let g = eng.get_trust(id);
                    if s.is_nan() || g.is_nan() {
                        continue;
                    }
                    if (g - s).abs() > MONO_TOL {
                        mon.violation(
                            "get-trust/differs-from-computed",
                            json!({"peer": hex8(id.as_bytes()), "computed": s, "get_trust": g, "history": self.hist_detail(upto)}),
                        );
                        break;
                    }
                }
            }
        }
        // never-seen identities
        for _ in 0..2 {
            let fresh = NodeId::from_bytes(rng.arr32());
            let g = eng.get_trust(&fresh);
            if g != 0.0 {
                mon.violation("get-trust/unknown-peer-nonzero", json!({"get_trust": g, "peer": "fresh random id", "history": self.hist_detail(upto)}));
                break;
            }
        }
        for (i, st) in model.state.iter().enumerate() {
            let id = &self.h.ids[i];
            match st {
                Know::Never => {
                    let g = eng.get_trust(id);
                    if g != 0.0 {
                        mon.violation("get-trust/unknown-peer-nonzero", json!({"get_trust": g, "peer": short(&self.h.ids, i as u32), "history": self.hist_detail(upto)}));
                        return;
                    }
                }
                Know::RemovedUnknown => {
                    mon.count("queries.removed_peer", 1);
                    let g = eng.get_trust(id);
                    if g != 0.0 && self.reported_once(model, i as u32) {
                        let sig = if model.rescored.contains(&(i as u32)) {
                            "get-trust/removed-peer-scored-again-by-next-compute"
                        } else {
                            "get-trust/removed-peer-nonzero"
                        };
                        mon.violation(
                            sig,
                            json!({"get_trust": g, "peer": short(&self.h.ids, i as u32), "judged_after": after,
                                   "note": "peer was removed (TrustProvider::remove_node) and not mentioned by any later report, and is not pre-trusted",
                                   "history": self.hist_detail(upto)}),
                        );
                    }
                }
                Know::Ambiguous => mon.count("skipped.ex-anchor-without-reports", 1),
                Know::Known => {}
            }
        }
    }
}

fn st_of(name: &str) -> St {
    match name {
        "success" => St::Correct,
        "failure" => St::Failed,
        "unavailable" => St::Unavail,
        "corrupted" => St::Corrupt,
        _ => St::Proto,
    }
}

/// A pair looked like "lo-side scores below hi-side". Engines are not bit-reproducible (HashMap order can
/// flip the engine's convergence test), so the verdict stands only if it survives more engines per side (min/max over all of them).
async fn confirmed_lower(mon: &Monitor, h: &Hist, p: u32, lo_extra: Option<St>, lo_seen: f64, hi_extra: Option<St>, hi_seen: f64) -> bool {
    let pid = &h.ids[p as usize];
    let (mut lo_max, mut hi_min) = (lo_seen, hi_seen);
    // A flip of the convergence test moves scores by ~1e-6..1e-4. A gap that small is re-examined on five more
    // engines per side: a history that sits on the threshold shows both outcomes on both sides with probability
    // >= 1 - 0.25^6, and then the gap closes. Larger gaps get one more engine per side.
    let rounds = if (hi_seen - lo_seen).abs() < 1e-2 { 5 } else { 1 };
    for _ in 0..rounds {
        match (replay(h, lo_extra.map(|s| (p, s))).await, replay(h, hi_extra.map(|s| (p, s))).await) {
            (Some(a), Some(b)) => {
                lo_max = lo_max.max(score(&a, pid));
                hi_min = hi_min.min(score(&b, pid));
            }
            _ => {
                mon.count("skipped.slow-compute", 1);
                return false;
            }
        }
    }
    if lo_max < hi_min - MONO_TOL {
        true
    } else {
        mon.count("skipped.pair-not-stable-across-engines", 1);
        false
    }
}

/// The engine stops its power iteration when one more round moves no score by more than 1e-4. A
/// report can shift the round at which that happens, and with it every score by up to that much.
/// A wrong-way move no larger than the solver's own tolerance is one finding of its own (recorded in
/// known_findings.json), kept apart from the rule-specific signatures that larger moves are reported under.
fn mono_sig(rule: &str, gap: f64) -> String {
    if gap.abs() <= 1e-4 {
        "monotone/report-moves-score-the-wrong-way/within-solver-tolerance(<=1e-4)".to_string()
    } else {
        rule.to_string()
    }
}

fn score(map: &HashMap<NodeId, f64>, id: &NodeId) -> f64 {
    map.get(id).copied().unwrap_or(0.0)
}

/// run one history: base engine with per-compute judgements, replay, twins, metamorphic pairs
async fn run_history(mon: &Monitor, h: &Hist, rng: &mut Rng, idx: u64) {
    let cx = Ctx { mon, h };
    let eng = new_engine(h);
    let mut model = Model::new(h);
    let mut last: Option<HashMap<NodeId, f64>> = None;
    // empty engine: every query is 0 except configured anchors (not judged before a compute)
    cx.judge_queries(&eng, &model, None, 0, rng, "start");
    let mut slow = false;
    for (k, op) in h.ops.iter().enumerate() {
        let out = apply(&eng, &h.ids, op).await;
        model.note(op);
        match op {
            Op::Compute => {
                let Some((map, wall)) = out else { continue };
                mon.count("computes", 1);
                if wall > SLOW {
                    mon.count("skipped.slow-compute", 1);
                    slow = true;
                    last = None;
                    continue;
                }
                model.note_scored(h, &map);
                cx.judge_map(&model, &map, k + 1);
                cx.judge_queries(&eng, &model, Some(&map), k + 1, rng, "compute");
                last = Some(map);
            }
            Op::Remove(_) => {
                mon.count("ops.remove_node", 1);
                cx.judge_queries(&eng, &model, last.as_ref(), k + 1, rng, "remove_node");
            }
            Op::Lt { prov, .. } => mon.count(if *prov { "ops.update_trust(provider)" } else { "ops.update_local_trust" }, 1),
            Op::Stat { .. } => mon.count("ops.update_node_stats", 1),
            Op::AddPre(_) => mon.count("ops.add_pre_trusted", 1),
            Op::RemPre(_) => mon.count("ops.remove_pre_trusted", 1),
        }
    }
    // final compute of the base engine
    let Some((base, wall)) = apply(&eng, &h.ids, &Op::Compute).await else { return };
    mon.count("computes", 1);
    if wall > SLOW || slow {
        mon.count("skipped.slow-compute", 1);
        return;
    }
    let nops = h.ops.len();
    model.note_scored(h, &base);
    cx.judge_map(&model, &base, nops);
    cx.judge_queries(&eng, &model, Some(&base), nops, rng, "compute");
    if base.values().any(|s| !s.is_finite()) {
        return; // already reported; comparisons below would be meaningless
    }
    let nb = n_bucket(base.len());
    let nontrivial = model.nontrivial();

    // ---- equal histories give equal scores: second engine (more engines for the directed probe, or to
    //      confirm a difference: HashMap order is not reproducible, so a difference must show as a spread)
    let mut rounds = 1 + h.extra_replays;
    let mut done = 0;
    let mut worst = 0.0f64;
    let mut worst_pair: Option<HashMap<NodeId, f64>> = None;
    while done < rounds {
        done += 1;
        match replay(h, None).await {
            None => mon.count("skipped.slow-compute", 1),
            Some(second) => {
                mon.eval();
                mon.count("replays.judged", 1);
                if nontrivial {
                    mon.case((nb, model.kinds, "replay"));
                }
                let ka: BTreeSet<&[u8; 32]> = base.keys().map(|k| k.as_bytes()).collect();
                let kb: BTreeSet<&[u8; 32]> = second.keys().map(|k| k.as_bytes()).collect();
                if ka != kb {
                    mon.violation("replay/scored-node-set-differs", json!({"first": ka.len(), "second": kb.len(), "history": cx.hist_detail(nops)}));
                    break;
                }
                let w = base.iter().map(|(k, s)| (s - score(&second, k)).abs()).fold(0.0f64, f64::max);
                if w > worst {
                    worst = w;
                    worst_pair = Some(second);
                }
                if w > EQ_TOL && rounds < 6 {
                    rounds = 6; // look at a few more engines to report the spread
                }
            }
        }
    }
    if worst > EQ_TOL {
        let class = if worst <= 1e-3 { "small(<=1e-3)" } else { "large(>1e-3)" };
        mon.violation(
            &format!("replay/score-differs/{class}"),
            json!({"max_abs_diff": worst, "engines_compared": done, "nodes": base.len(), "history": cx.hist_detail(nops),
                   "first": cx.scores_json(&base), "other": worst_pair.as_ref().map(|m| cx.scores_json(m))}),
        );
    }

    // ---- equal histories give equal scores: twins in isomorphic positions
    if let Some((a, b)) = h.twin {
        mon.eval();
        let (sa, sb) = (score(&base, &h.ids[a as usize]), score(&base, &h.ids[b as usize]));
        if nontrivial && sa > 0.0 {
            mon.case((nb, model.kinds, "twin"));
        }
        mon.count("twins.judged", 1);
        if sa > 0.0 {
            mon.count("twins.with_positive_score", 1);
        }
        if (sa - sb).abs() > EQ_TOL {
            mon.violation(
                "twin/isomorphic-nodes-score-differs",
                json!({"a": short(&h.ids, a), "b": short(&h.ids, b), "score_a": sa, "score_b": sb, "history": cx.hist_detail(nops)}),
            );
        }
    }

    // ---- metamorphic pairs: one more report about peer p
    let npeers = if h.class >= 3 { 1 } else { 3 };
    let scored = model.must_be_scored();
    let scored_v: Vec<u32> = scored.iter().copied().collect();
    let no_stats_with_edges: Vec<u32> = scored_v.iter().copied().filter(|i| !model.stat_nodes.contains(i)).collect();
    let pre_v: Vec<u32> = model.pre.iter().copied().collect::<BTreeSet<u32>>().into_iter().collect();
    for _ in 0..npeers {
        if mon.time_up() {
            break;
        }
        let p: u32 = match rng.below(10) {
            0 if !pre_v.is_empty() => *rng.pick(&pre_v),
            1 | 2 if !no_stats_with_edges.is_empty() => *rng.pick(&no_stats_with_edges),
            3 => rng.below(h.ids.len() as u64) as u32,
            _ if !scored_v.is_empty() => *rng.pick(&scored_v),
            _ => rng.below(h.ids.len() as u64) as u32,
        };
        if h.twin.map(|(a, b)| p == a || p == b).unwrap_or(false) && rng.chance(0.5) {
            continue;
        }
        let pid = &h.ids[p as usize];
        let prior = if model.resp_nodes.contains(&p) {
            "prior-responses"
        } else if model.stat_nodes.contains(&p) {
            "prior-stats-without-responses"
        } else {
            "no-prior-stats"
        };
        let standing = if model.pre.contains(&p) {
            "anchor"
        } else if model.edges.iter().any(|(f, t)| *t == p && *f != p) {
            "has-inbound-statements"
        } else if model.state[p as usize] == Know::Known {
            "no-inbound-statements"
        } else {
            "unknown-peer"
        };
        let s0 = score(&base, pid);
        let mut got: HashMap<&'static str, f64> = HashMap::new();
        let mut undecided = false;
        for (name, st) in [("success", St::Correct), ("failure", St::Failed), ("unavailable", St::Unavail), ("corrupted", St::Corrupt), ("protocol", St::Proto)] {
            match replay(h, Some((p, st))).await {
                Some(m) if m.values().all(|s| s.is_finite()) => {
                    got.insert(name, score(&m, pid));
                }
                Some(_) => undecided = true, // NaN maps are reported by the well-formedness rule of their own run
                None => {
                    mon.count("skipped.slow-compute", 1);
                    undecided = true;
                }
            }
        }
        if undecided {
            continue;
        }
        mon.count(&format!("pairs.peer.{prior}"), 1);
        let detail = |what: &str, with: f64, other: (&str, f64)| {
            json!({"what": what, "peer": short(&h.ids, p), "peer_prior_statistics": prior, "peer_standing": standing,
                   "score_without_report": s0, "score_with_report": with, other.0: other.1,
                   "scored_nodes": base.len(), "history": cx.hist_detail(nops), "base_scores": cx.scores_json(&base)})
        };
        // one more success never lowers
        mon.eval();
        if nontrivial {
            mon.case((nb, model.kinds, "mono-success", prior, standing));
        }
        let s_ok = got["success"];
        if s_ok < s0 - MONO_TOL && confirmed_lower(mon, h, p, Some(St::Correct), s_ok, None, s0).await {
            mon.violation(&mono_sig(&format!("monotone-success/{prior}"), s0 - s_ok), detail("H + CorrectResponse(p) lowered p's score", s_ok, ("drop", s0 - s_ok)));
        }
        if s_ok > s0 + MONO_TOL {
            mon.count("pairs.success_raised", 1);
        } else {
            mon.count("pairs.success_unchanged_or_lower", 1);
        }
        // one more failure never raises (three failure reports share the rule)
        for name in ["failure", "unavailable", "corrupted", "protocol"] {
            mon.eval();
            if nontrivial {
                mon.case((nb, model.kinds, "mono-failure", name, prior, standing));
            }
            let s_f = got[name];
            if s_f > s0 + MONO_TOL && confirmed_lower(mon, h, p, None, s0, Some(st_of(name)), s_f).await {
                mon.violation(&mono_sig(&format!("monotone-failure/{name}/{prior}"), s_f - s0), detail("H + failure report about p raised p's score", s_f, ("rise", s_f - s0)));
            }
            if s_f < s0 - MONO_TOL {
                mon.count("pairs.failure_lowered", 1);
            }
        }
        // severe reports cost at least a plain failure
        for name in ["corrupted", "protocol"] {
            mon.eval();
            if nontrivial {
                mon.case((nb, model.kinds, "severity", name, prior, standing));
            }
            if got[name] > got["failure"] + MONO_TOL && confirmed_lower(mon, h, p, Some(St::Failed), got["failure"], Some(st_of(name)), got[name]).await {
                mon.violation(
                    &mono_sig(&format!("severity/{name}-cheaper-than-failure/{prior}"), got[name] - got["failure"]),
                    detail("severe report left p with a higher score than a plain failure", got[name], ("score_with_plain_failure", got["failure"])),
                );
            }
            if got[name] < got["failure"] - MONO_TOL {
                mon.count("pairs.severe_cost_strictly_more", 1);
            }
        }
        // ---- interaction reports naming p (update_local_trust rater -> p) ----
        // the rater is a node the history already knows; raters that have only ever complained
        // (all their statements are failures) are preferred: their trust mass has no edge to flow along
        {
            let mut tally: HashMap<u32, (u32, u32)> = HashMap::new();
            for op in &h.ops {
                if let Op::Lt { from, ok, .. } = op {
                    let e = tally.entry(*from).or_insert((0, 0));
                    if *ok {
                        e.0 += 1;
                    } else {
                        e.1 += 1;
                    }
                }
            }
            let known: Vec<u32> = (0..h.ids.len() as u32).filter(|r| *r != p && model.state[*r as usize] == Know::Known && base.contains_key(&h.ids[*r as usize])).collect();
            let complainers: Vec<u32> = known.iter().copied().filter(|r| tally.get(r).is_some_and(|(ok, bad)| *ok == 0 && *bad > 0)).collect();
            let rater = if !complainers.is_empty() && rng.chance(0.6) { Some(*rng.pick(&complainers)) } else if !known.is_empty() { Some(*rng.pick(&known)) } else { None };
            if let Some(r) = rater {
                let rkind = if complainers.contains(&r) { "rater-only-ever-complained" } else if tally.contains_key(&r) { "rater-with-statements" } else { "rater-without-statements" };
                let with_ok = replay_lt(h, Some((r, p, true))).await;
                let with_bad = replay_lt(h, Some((r, p, false))).await;
                if let (Some(a), Some(b)) = (with_ok, with_bad) {
                    if a.values().chain(b.values()).all(|v| v.is_finite()) {
                        let (s_ok, s_bad) = (score(&a, pid), score(&b, pid));
                        mon.count(&format!("pairs.interaction.{rkind}"), 1);
                        mon.eval();
                        if nontrivial {
                            mon.case((nb, "mono-interaction", rkind, standing));
                        }
                        let detail = |what: &str, with: f64| {
                            json!({"what": what, "peer": short(&h.ids, p), "rater": short(&h.ids, r), "rater_kind": rkind, "peer_standing": standing,
                                   "score_without_report": s0, "score_with_report": with, "scored_nodes": base.len(),
                                   "history": cx.hist_detail(nops), "base_scores": cx.scores_json(&base)})
                        };
                        // An interaction report can change WHO is in the computation (a node first named by it) and
                        // with that the start vector and the round at which the power iteration stops (L1 step
                        // < 1e-4): scores are only defined up to that tolerance. Moves below 5e-4 are counted,
                        // not judged.
                        if (s_ok - s0).abs() <= INTERACTION_TOL && (s_bad - s0).abs() <= INTERACTION_TOL && (s_ok < s0 - MONO_TOL || s_bad > s0 + MONO_TOL) {
                            mon.count("skipped.interaction-pair-move-below-engine-convergence-tolerance", 1);
                        }
                        // In arbitrary histories these pairs are only OBSERVED: a report that first names a peer
                        // changes the population, and when all real mass sits on nodes whose statistics factor
                        // is 0 the final normalisation amplifies convergence residue to O(1). The judged version
                        // of this rule runs on statistics-free graphs over a fixed population (interaction_lane).
                        let _ = &detail;
                        if s_ok < s0 - INTERACTION_TOL {
                            mon.count("observed.general-history.interaction-success-lowered", 1);
                        }
                        if s_bad > s0 + INTERACTION_TOL {
                            mon.count("observed.general-history.interaction-failure-raised", 1);
                        }
                    }
                } else {
                    mon.count("skipped.slow-compute", 1);
                }
            }
        }
        if idx % 53 == 7 && nontrivial && base.len() <= 12 && mon.want_sample() {
            mon.sample(json!({"kind": "metamorphic pair", "peer": short(&h.ids, p), "peer_prior_statistics": prior, "peer_standing": standing,
                "score_H": s0, "score_H_plus": got.iter().map(|(k, v)| format!("{k}={v:.6}")).collect::<Vec<_>>(),
                "history": cx.hist_detail(nops), "scores_H": cx.scores_json(&base)}));
        }
    }
}


/// Interaction reports (update_local_trust rater -> p) on statistics-free graphs over a fixed
/// population: rater and peer are already part of the computation, so one more report changes one
/// matrix row and nothing else. One more success must not lower p, one more failure must not raise
/// it (beyond the engine's own convergence tolerance).
async fn interaction_lane(mon: &Monitor, rng: &mut Rng) {
    let n = rng.urange(3, 9) as u32;
    let ids: Vec<NodeId> = (0..n).map(|_| NodeId::from_bytes(rng.arr32())).collect();
    let n_pre = rng.urange(0, 2.min(n as usize - 1));
    let init_pre: Vec<u32> = (0..n_pre as u32).collect();
    let mut ops: Vec<Op> = Vec::new();
    // every node appears in at least one statement so the population is fixed. Three kinds of node:
    // i%4==2 only ever reports failures, i%4==3 makes no statement at all (it is only rated), the
    // rest rate normally. The judged report can thus be a rater's very first statement.
    let silent = |i: u32| i % 4 == 3;
    let complainer = |i: u32| i % 4 == 2;
    for i in 0..n {
        if silent(i) {
            // make sure somebody names it
            let from = (i + 1) % n;
            let from = if silent(from) { (from + 1) % n } else { from };
            ops.push(Op::Lt { from, to: i, ok: !complainer(from), prov: false });
            continue;
        }
        let to = (i + 1 + rng.below(n as u64 - 1) as u32) % n;
        ops.push(Op::Lt { from: i, to, ok: !complainer(i), prov: false });
    }
    for _ in 0..rng.urange(0, 14) {
        let from = rng.below(n as u64) as u32;
        if silent(from) {
            continue;
        }
        let to = rng.below(n as u64) as u32;
        let ok = if complainer(from) { false } else { rng.chance(0.75) };
        ops.push(Op::Lt { from, to, ok, prov: false });
    }
    let h = Hist { ids, init_pre, ops, twin: None, class: 99, extra_replays: 0 };
    let Some(base) = replay_lt(&h, None).await else { return };
    if !base.values().all(|v| v.is_finite()) {
        return;
    }
    for _ in 0..3 {
        let p = rng.below(n as u64) as u32;
        let r = (p + 1 + rng.below(n as u64 - 1) as u32) % n;
        let pid = &h.ids[p as usize];
        let s0 = score(&base, pid);
        let rkind = if r % 4 == 2 { "rater-only-ever-complained" } else if r % 4 == 3 { "rater-first-statement" } else { "rater-with-successes" };
        let (Some(a), Some(b)) = (replay_lt(&h, Some((r, p, true))).await, replay_lt(&h, Some((r, p, false))).await) else { continue };
        let (s_ok, s_bad) = (score(&a, pid), score(&b, pid));
        mon.eval();
        mon.case(("interaction-lane", n, n_pre, rkind, s0 > 1.0 / n as f64));
        mon.count(&format!("interaction_lane.pairs.{rkind}"), 1);
        let detail = |what: &str, with: f64| {
            json!({"what": what, "peer": short(&h.ids, p), "rater": short(&h.ids, r), "rater_kind": rkind, "anchors": n_pre,
                   "score_without_report": s0, "score_with_report": with, "history": ops_json(&h.ops)})
        };
        if s_ok < s0 - INTERACTION_TOL && confirmed_lower_lt(mon, &h, p, Some((r, p, true)), s_ok, None, s0).await {
            mon.violation(&format!("monotone-success/interaction-report/{rkind}"), detail("H + one more successful interaction with p lowered p's score", s_ok));
        }
        mon.eval();
        if s_bad > s0 + INTERACTION_TOL && confirmed_lower_lt(mon, &h, p, None, s0, Some((r, p, false)), s_bad).await {
            mon.violation(&format!("monotone-failure/interaction-report/{rkind}"), detail("H + one more failed interaction with p raised p's score", s_bad));
        }
    }
}

/// `remove_node` returns at once and finishes in a background task. A computation that starts in
/// between still sees the node; once both have finished the node must be unknown all the same:
/// its query returns 0 and no later computation brings it back.
async fn removal_overlap_lane(mon: &Monitor, h: &Hist, rng: &mut Rng) {
    let eng = new_engine(h);
    let mut pre: BTreeSet<u32> = h.init_pre.iter().copied().collect();
    for op in &h.ops {
        match op {
            Op::AddPre(x) => {
                pre.insert(*x);
            }
            Op::RemPre(x) => {
                pre.remove(x);
            }
            _ => {}
        }
        if let Some((_, wall)) = apply(&eng, &h.ids, op).await {
            if wall > SLOW {
                return;
            }
        }
    }
    let m0 = eng.compute_global_trust().await;
    let cands: Vec<u32> = (0..h.ids.len() as u32).filter(|i| !pre.contains(i) && m0.get(&h.ids[*i as usize]).is_some_and(|s| *s > 0.0)).collect();
    if cands.is_empty() {
        mon.count("removal_overlap.skipped.no-scored-non-anchor", 1);
        return;
    }
    let x = *rng.pick(&cands);
    let id = &h.ids[x as usize];
    let before = eng.get_trust(id);
    // no yield between the removal and the computation
    eng.remove_node(id);
    let m1 = eng.compute_global_trust().await;
    settle().await;
    settle().await;
    mon.eval();
    mon.case(("removal-overlap", n_bucket(m0.len()), m1.contains_key(id)));
    mon.count("removal_overlap.runs", 1);
    let g1 = eng.get_trust(id);
    let m2 = eng.compute_global_trust().await;
    settle().await;
    let g2 = eng.get_trust(id);
    if g1 != 0.0 || g2 != 0.0 || m2.contains_key(id) {
        let cx = Ctx { mon, h };
        mon.violation(
            "get-trust/removed-peer-nonzero/computation-overlapping-the-removal",
            json!({"peer": short(&h.ids, x), "score_before_removal": before, "overlapping_computation_scored_it": m1.contains_key(id),
                   "get_trust_after_both_finished": g1, "get_trust_after_next_computation": g2, "next_computation_scored_it": m2.contains_key(id),
                   "history": cx.hist_detail(h.ops.len())}),
        );
    }
}

fn big(rng: &mut Rng) -> u64 {
    match rng.below(9) {
        0 => 0,
        1 => 1,
        2 => rng.range(2, 100),
        3 => 3600,
        4 => 86_400,
        5 => rng.range(86_000, 90_000),
        6 => 1 << 20,
        7 => 1 << 40,
        _ => rng.range(0, 1 << 40),
    }
}

fn gen_stat(rng: &mut Rng) -> St {
    match rng.weighted(&[10, 26, 14, 6, 6, 6, 8, 8, 8]) {
        0 => St::Uptime(big(rng)),
        1 => St::Correct,
        2 => St::Failed,
        3 => St::Unavail,
        4 => St::Corrupt,
        5 => St::Proto,
        6 => St::Storage(big(rng)),
        7 => St::Bandwidth(big(rng)),
        _ => St::Cycles(big(rng)),
    }
}

fn gen_history(rng: &mut Rng) -> Hist {
    // 0: empty / tiny, 1: small, 2: medium, 3: >100 scored nodes (7-round regime), 4: >500 (4-round regime)
    let class = rng.weighted(&[6, 46, 34, 9, 5]);
    let n = match class {
        0 => rng.urange(1, 2),
        1 => rng.urange(3, 8),
        2 => rng.urange(9, 60),
        3 => rng.urange(105, 300),
        _ => rng.urange(505, 600),
    };
    let want_twin = class >= 1 && rng.chance(0.4);
    let mut ids: Vec<NodeId> = (0..n).map(|_| NodeId::from_bytes(rng.arr32())).collect();
    let mut init_pre: Vec<u32> = Vec::new();
    let npre = match rng.below(4) {
        0 => 0,
        1 => 1,
        _ => rng.urange(0, (n / 3).clamp(1, 8)),
    };
    for _ in 0..npre {
        let p = rng.below(n as u64) as u32;
        if !init_pre.contains(&p) {
            init_pre.push(p);
        }
    }
    let nops = match class {
        0 => rng.urange(0, 6),
        1 => rng.urange(3, 60),
        2 => rng.urange(15, 260),
        3 => rng.urange(n * 2, n * 4),
        _ => rng.urange(n * 3 / 2, n * 3),
    };
    let mut ops: Vec<Op> = Vec::with_capacity(nops + n);
    // hubs make in-degree skewed; `sparse` histories leave isolated / stat-only nodes
    let hub = rng.below(n as u64) as u32;
    let ok_p = *rng.pick(&[0.5, 0.8, 0.95, 1.0]);
    let prov_p = *rng.pick(&[0.0, 0.0, 0.3, 1.0]);
    let self_p = *rng.pick(&[0.0, 0.05, 0.2]);
    let w_compute = if class >= 3 { 1 } else { 4 };
    let w_remove = if class >= 3 { 1 } else { 4 };
    if class >= 3 {
        // make sure the scored population really exceeds the regime threshold
        for i in 0..n as u32 {
            if rng.chance(0.7) {
                let to = if rng.chance(0.2) { hub } else { rng.below(n as u64) as u32 };
                ops.push(Op::Lt { from: i, to, ok: rng.chance(ok_p), prov: false });
            } else {
                ops.push(Op::Stat { node: i, st: gen_stat(rng) });
            }
        }
    }
    for _ in 0..nops {
        let pickn = |rng: &mut Rng| -> u32 {
            if rng.chance(0.15) {
                hub
            } else {
                rng.below(n as u64) as u32
            }
        };
        match rng.weighted(&[48, 32, 4, 2, w_remove, w_compute]) {
            0 => {
                let from = pickn(rng);
                let to = if rng.chance(self_p) { from } else { pickn(rng) };
                // repeated reports on one edge exercise the moving average
                let reps = if rng.chance(0.1) { rng.urange(2, 12) } else { 1 };
                for _ in 0..reps {
                    ops.push(Op::Lt { from, to, ok: rng.chance(ok_p), prov: rng.chance(prov_p) });
                }
            }
            1 => ops.push(Op::Stat { node: pickn(rng), st: gen_stat(rng) }),
            2 => ops.push(Op::AddPre(pickn(rng))),
            3 => {
                let x = if !init_pre.is_empty() && rng.chance(0.6) { *rng.pick(&init_pre) } else { pickn(rng) };
                ops.push(Op::RemPre(x));
            }
            4 => ops.push(Op::Remove(pickn(rng))),
            _ => ops.push(Op::Compute),
        }
    }
    // twins: node `a` and a fresh node `b`; every op mentioning a is followed by its image under a<->b
    let mut twin = None;
    if want_twin {
        let a = rng.below(n as u64) as u32;
        let b = ids.len() as u32;
        ids.push(NodeId::from_bytes(rng.arr32()));
        if init_pre.contains(&a) {
            init_pre.push(b);
        }
        let sw = |x: u32| if x == a { b } else { x };
        let mut out = Vec::with_capacity(ops.len() * 2);
        let cross = rng.chance(0.3);
        for op in ops {
            let img = match &op {
                Op::Lt { from, to, ok, prov } if *from == a || *to == a => Some(Op::Lt { from: sw(*from), to: sw(*to), ok: *ok, prov: *prov }),
                Op::Stat { node, st } if *node == a => Some(Op::Stat { node: b, st: *st }),
                Op::AddPre(x) if *x == a => Some(Op::AddPre(b)),
                Op::RemPre(x) if *x == a => Some(Op::RemPre(b)),
                Op::Remove(x) if *x == a => Some(Op::Remove(b)),
                _ => None,
            };
            out.push(op);
            if let Some(i) = img {
                out.push(i);
                if cross && rng.chance(0.1) {
                    // the twins also rate each other, symmetrically
                    let ok = rng.chance(0.8);
                    out.push(Op::Lt { from: a, to: b, ok, prov: false });
                    out.push(Op::Lt { from: b, to: a, ok, prov: false });
                }
            }
        }
        ops = out;
        twin = Some((a, b));
    }
    Hist { ids, init_pre, ops, twin, class, extra_replays: 0 }
}

/// tiny hand-written histories run first so that the smallest witnesses are the recorded ones
fn directed() -> Vec<Hist> {
    let mk = |n: usize, pre: &[u32], ops: Vec<Op>| {
        let mut r = Rng::new(0xC10 + n as u64 + ops.len() as u64);
        Hist { ids: (0..n).map(|_| NodeId::from_bytes(r.arr32())).collect(), init_pre: pre.to_vec(), ops, twin: None, class: 1, extra_replays: 0 }
    };
    let lt = |from, to, ok| Op::Lt { from, to, ok, prov: false };
    vec![
        // empty engine
        mk(2, &[], vec![]),
        // anchor vouches for n1, n1 vouches for n2 (no statistics anywhere)
        mk(3, &[0], vec![lt(0, 1, true), lt(1, 2, true)]),
        // same without anchors
        mk(3, &[], vec![lt(0, 1, true), lt(1, 2, true), lt(2, 0, true)]),
        // everybody has response statistics already
        mk(3, &[0], vec![
            lt(0, 1, true), lt(1, 2, true), lt(2, 0, true),
            Op::Stat { node: 0, st: St::Correct }, Op::Stat { node: 1, st: St::Correct }, Op::Stat { node: 1, st: St::Failed }, Op::Stat { node: 2, st: St::Correct },
        ]),
        // removal of a node that has statistics, then a fresh compute
        mk(3, &[], vec![
            lt(0, 1, true), lt(1, 2, true), lt(2, 0, true), Op::Stat { node: 2, st: St::Correct }, Op::Compute, Op::Remove(2), Op::Compute,
        ]),
        // removal of a node that has no statistics
        mk(3, &[], vec![lt(0, 1, true), lt(1, 2, true), lt(2, 0, true), Op::Stat { node: 0, st: St::Correct }, Op::Compute, Op::Remove(2), Op::Compute]),
        // an anchor that loses its status before ever being mentioned by a report
        mk(3, &[0], vec![Op::RemPre(0), lt(1, 2, true), Op::Stat { node: 1, st: St::Correct }, Op::Stat { node: 2, st: St::Correct }]),
        // n0 and n2 are only known through statements involving n1, which is then removed
        mk(5, &[], vec![lt(0, 1, true), lt(1, 2, true), lt(3, 4, true), Op::Stat { node: 3, st: St::Correct }, Op::Compute, Op::Remove(1), Op::Compute]),
        // order-dependence probe: on this graph the L1 step of the power iteration is 0.5, 0.1, 0.01, 0.001, 0.0001 —
        // the fifth lands on the engine's convergence threshold, so summation order decides the round count
        {
            let e = [(0, 1), (0, 4), (0, 5), (1, 1), (1, 2), (1, 3), (2, 1), (2, 3), (2, 5), (3, 0), (3, 1), (3, 2), (3, 3), (3, 4), (3, 5), (4, 0), (4, 2), (4, 3), (5, 2), (5, 3), (5, 5)];
            let mut hst = mk(6, &[1, 2, 5], e.iter().map(|(a, b)| lt(*a, *b, true)).collect());
            hst.extra_replays = 40;
            hst
        },
        // the same graph with one success on record for everybody: one more success leaves every factor unchanged, so
        // H and H+success differ only by the order-dependent round count — the pair rule must not blame monotonicity
        {
            let e = [(0, 1), (0, 4), (0, 5), (1, 1), (1, 2), (1, 3), (2, 1), (2, 3), (2, 5), (3, 0), (3, 1), (3, 2), (3, 3), (3, 4), (3, 5), (4, 0), (4, 2), (4, 3), (5, 2), (5, 3), (5, 5)];
            let mut ops: Vec<Op> = e.iter().map(|(a, b)| lt(*a, *b, true)).collect();
            ops.extend((0..6).map(|i| Op::Stat { node: i, st: St::Correct }));
            mk(6, &[1, 2, 5], ops)
        },
        // only failures reported: nobody has positive standing
        mk(2, &[], vec![Op::Stat { node: 0, st: St::Failed }, Op::Stat { node: 1, st: St::Corrupt }]),
    ]
}

fn main() {
    let mon = Monitor::new("C10", "exploration");
    mon.set_rule("case = one judgement on one seeded history (computed map, per-peer queries, second-engine replay, twin pair) or one metamorphic pair (H vs H + one report about peer p); non-trivial when the history still mentions >=3 nodes, >=1 pairwise statement and >=1 statistics report (twin cases additionally need a positive score); distinct by (scored-node bucket, set of op kinds used, judgement kind [+ report kind, p's prior statistics, p's standing])");
    mon.assume("interaction-report pairs (update_local_trust rater->p) are judged on statistics-free graphs over a fixed population with a tolerance of 5e-4 (five times the engine's convergence threshold); in arbitrary histories they are only observed and counted");
    mon.assume("time decay is inactive: the engine measures std::time::Instant hours since its last compute, which is 0 within a run");
    mon.assume("a pre-trusted id that lost its anchor status and has no reports, and ids whose only statements involved a removed node, are not judged by get_trust (the property does not say whether they are still known)");
    mon.assume("a peer removed with TrustProvider::remove_node and not mentioned afterwards counts as unknown (trait doc: 'Remove a node from the trust system'; get_trust comment: '0.0 for unknown/removed nodes')");

    // directed minimal histories (single thread, before the shards, so their witnesses are kept)
    {
        let rt = checks::rt(true);
        let mut rng = Rng::new(vkit::splitmix(mon.seed, 999));
        rt.block_on(async {
            for (i, h) in directed().iter().enumerate() {
                run_history(&mon, h, &mut rng, i as u64).await;
                mon.count("histories.directed", 1);
            }
        });
    }

    let per_shard = mon.by_tier(1000u64, 15_000);
    vkit::run_shards(mon.shards(), mon.seed, |_i, mut rng| {
        let rt = checks::rt(true);
        rt.block_on(async {
            for k in 0..per_shard {
                if mon.time_up() {
                    mon.count("stopped.time_up", 1);
                    break;
                }
                if k % 4 == 0 {
                    for _ in 0..6 {
                        interaction_lane(&mon, &mut rng).await;
                    }
                }
                let h = gen_history(&mut rng);
                run_history(&mon, &h, &mut rng, k).await;
                if k % 3 == 1 {
                    removal_overlap_lane(&mon, &h, &mut rng).await;
                }
                mon.count("histories", 1);
                mon.count(&format!("histories.class{}", h.class), 1);
                if k % 211 == 3 && h.class == 1 && mon.want_sample() {
                    // a plain written-out history with the scores it produced
                    let eng = new_engine(&h);
                    for op in &h.ops {
                        apply(&eng, &h.ids, op).await;
                    }
                    let m = eng.compute_global_trust().await;
                    let cx = Ctx { mon: &mon, h: &h };
                    mon.sample(json!({"kind": "history", "history": cx.hist_detail(h.ops.len()), "scores": cx.scores_json(&m),
                        "sum": m.values().sum::<f64>(), "twin": h.twin.map(|(a, b)| format!("n{a}~n{b}"))}));
                }
            }
        });
    });
    mon.finish();
}
