//! C09 — a peer record verifies only if its owner signed exactly it, cached or not.
//!
//! Oracle (restates the property, not the code):
//!  * every presented record carries its provenance: the exact field values a signing event
//!    covered (`signed`) and whether the signature bytes are still those the event produced.
//!    Direct verification may say Ok only if NO field of the presented record differs from
//!    `signed` (plain `==` on the field values, never the library's encoding) and the user id
//!    is the one derived from the embedded key.
//!  * the cached verdict of each presentation must equal the direct verdict recomputed for
//!    that same presentation, for every history / capacity / clear / eviction order.
//!  * construction is judged against the documented bounds written here as literals
//!    (name 1..=255, endpoints 1..=16, ttl 1..=86 400).

use saorsa_core::peer_record::{EndpointId, NatType, PeerDHTRecord, PeerEndpoint, SignatureCache, UserId};
use saorsa_core::quantum_crypto::ant_quic_integration::{MlDsaPublicKey, MlDsaSecretKey, MlDsaSignature};
use saorsa_core::quantum_crypto::generate_ml_dsa_keypair;
use saorsa_core::NetworkAddress;
use serde_json::{json, Value};
use std::collections::BTreeMap;
use std::net::{Ipv4Addr, Ipv6Addr, SocketAddr, SocketAddrV4, SocketAddrV6};
use std::sync::Arc;
use vkit::{hex8, Monitor, Rng};

// ---------------------------------------------------------------- reference snapshot

/// The values of all signed-over fields at the moment of a signing event.
#[derive(Clone)]
struct Fields {
    version: u8,
    user_id: [u8; 32],
    pk: Vec<u8>,
    seq: u64,
    name: Option<String>,
    endpoints: Vec<PeerEndpoint>,
    timestamp: u64,
    ttl: u32,
}

fn fields_of(r: &PeerDHTRecord) -> Fields {
    Fields {
        version: r.version,
        user_id: r.user_id.hash,
        pk: r.public_key.as_bytes().to_vec(),
        seq: r.sequence_number,
        name: r.name.clone(),
        endpoints: r.endpoints.clone(),
        timestamp: r.timestamp,
        ttl: r.ttl,
    }
}

fn sock_differs_only_in_v6_scope_flow(a: &SocketAddr, b: &SocketAddr) -> bool {
    match (a, b) {
        (SocketAddr::V6(x), SocketAddr::V6(y)) => x.ip() == y.ip() && x.port() == y.port() && x != y,
        _ => false,
    }
}

/// which sub-feature of the endpoint list differs (first difference wins)
fn endpoints_diff(a: &[PeerEndpoint], b: &[PeerEndpoint]) -> Option<&'static str> {
    if a == b {
        return None;
    }
    if a.len() != b.len() {
        return Some("endpoints.count");
    }
    let mut unmatched: Vec<&PeerEndpoint> = b.iter().collect();
    let mut all_found = true;
    for e in a {
        if let Some(p) = unmatched.iter().position(|x| *x == e) {
            unmatched.swap_remove(p);
        } else {
            all_found = false;
            break;
        }
    }
    if all_found {
        return Some("endpoints.order");
    }
    for (x, y) in a.iter().zip(b.iter()) {
        if x == y {
            continue;
        }
        return Some(if x.endpoint_id != y.endpoint_id {
            "endpoints.endpoint_id"
        } else if x.external_address.socket_addr != y.external_address.socket_addr {
            if sock_differs_only_in_v6_scope_flow(&x.external_address.socket_addr, &y.external_address.socket_addr) {
                "endpoints.address-v6-scope-flow"
            } else {
                "endpoints.address"
            }
        } else if x.external_address.four_words != y.external_address.four_words {
            "endpoints.four_words"
        } else if x.nat_type != y.nat_type {
            "endpoints.nat_type"
        } else if x.coordinator_nodes != y.coordinator_nodes {
            "endpoints.coordinator_nodes"
        } else if x.device_info != y.device_info {
            "endpoints.device_info"
        } else {
            "endpoints.last_updated"
        });
    }
    Some("endpoints.other")
}

fn ep_str(e: &PeerEndpoint) -> String {
    let scope = match &e.external_address.socket_addr {
        SocketAddr::V6(v) => format!(" scope_id={} flowinfo={}", v.scope_id(), v.flowinfo()),
        _ => String::new(),
    };
    format!(
        "{} {}{} fw={:?} {:?} coord={:?} dev={:?} upd={}",
        e.endpoint_id,
        e.external_address.socket_addr,
        scope,
        e.external_address.four_words.as_ref().map(|w| short(w, 16)),
        e.nat_type,
        e.coordinator_nodes.iter().take(4).map(|c| short(c, 8)).collect::<Vec<_>>(),
        e.device_info.as_ref().map(|d| short(d, 8)),
        e.last_updated
    )
}

/// first position where the endpoint lists differ, written out
fn first_endpoint_difference(a: &[PeerEndpoint], b: &[PeerEndpoint]) -> Option<Value> {
    if a == b {
        return None;
    }
    let i = a.iter().zip(b.iter()).position(|(x, y)| x != y).unwrap_or(a.len().min(b.len()));
    Some(json!({"index": i, "signed_count": a.len(), "presented_count": b.len(),
                "signed": a.get(i).map(ep_str), "presented": b.get(i).map(ep_str)}))
}

/// names of the fields of `r` that differ from what was signed
fn diff(s: &Fields, r: &PeerDHTRecord) -> Vec<&'static str> {
    let mut d = Vec::new();
    if s.version != r.version {
        d.push("version");
    }
    if s.user_id != r.user_id.hash {
        d.push("user_id");
    }
    if s.pk.as_slice() != r.public_key.as_bytes() {
        d.push("public_key");
    }
    if s.seq != r.sequence_number {
        d.push("sequence_number");
    }
    if s.name != r.name {
        let empty_vs_none = matches!((&s.name, &r.name), (None, Some(x)) | (Some(x), None) if x.is_empty());
        d.push(if empty_vs_none { "name:none<->empty" } else { "name" });
    }
    if let Some(e) = endpoints_diff(&s.endpoints, &r.endpoints) {
        d.push(e);
    }
    if s.timestamp != r.timestamp {
        d.push("timestamp");
    }
    if s.ttl != r.ttl {
        d.push("ttl");
    }
    d
}

// ---------------------------------------------------------------- workload items

#[derive(Clone)]
struct Item {
    rec: PeerDHTRecord,
    /// the field values the signing event that produced (the ancestor of) `rec.signature` covered
    signed: Option<Arc<Fields>>,
    /// signature bytes are exactly what that signing event produced
    sig_intact: bool,
    class: &'static str,
}

struct Key {
    pk: MlDsaPublicKey,
    sk: MlDsaSecretKey,
    id: UserId,
}

fn gen_key() -> Option<Key> {
    let (pk, sk) = generate_ml_dsa_keypair().ok()?;
    let id = UserId::from_public_key(&pk);
    Some(Key { pk, sk, id })
}

fn rand_word(rng: &mut Rng, lo: usize, hi: usize) -> String {
    let n = rng.urange(lo, hi);
    (0..n).map(|_| (b'a' + rng.below(26) as u8) as char).collect()
}

fn rand_name(rng: &mut Rng) -> Option<String> {
    match rng.below(8) {
        0 | 1 => None,
        2 => Some(rand_word(rng, 1, 1)),
        3 => Some(rand_word(rng, 255, 255)),
        4 => Some(format!("{}-ü{}", rand_word(rng, 1, 8), rand_word(rng, 1, 8))),
        _ => Some(rand_word(rng, 2, 40)),
    }
}

fn rand_sock(rng: &mut Rng) -> SocketAddr {
    let port = rng.range(1, 65535) as u16;
    match rng.below(5) {
        0 | 1 => {
            let b = rng.bytes(4);
            SocketAddr::V4(SocketAddrV4::new(Ipv4Addr::new(b[0], b[1], b[2], b[3]), port))
        }
        2 | 3 => {
            let b = rng.bytes(16);
            let mut a = [0u8; 16];
            a.copy_from_slice(&b);
            a[0] = 0x20;
            SocketAddr::V6(SocketAddrV6::new(Ipv6Addr::from(a), port, 0, 0))
        }
        _ => {
            // link-local with a zone
            let b = rng.bytes(8);
            let mut a = [0u8; 16];
            a[0] = 0xfe;
            a[1] = 0x80;
            a[8..].copy_from_slice(&b);
            SocketAddr::V6(SocketAddrV6::new(Ipv6Addr::from(a), port, 0, rng.range(1, 9) as u32))
        }
    }
}

fn rand_endpoint(rng: &mut Rng) -> PeerEndpoint {
    let mut u = [0u8; 16];
    rng.fill(&mut u);
    let sock = rand_sock(rng);
    let external_address = if rng.chance(0.1) {
        NetworkAddress::new(sock)
    } else {
        NetworkAddress {
            socket_addr: sock,
            four_words: if rng.chance(0.6) {
                Some(format!("{}-{}-{}-{}", rand_word(rng, 3, 7), rand_word(rng, 3, 7), rand_word(rng, 3, 7), rand_word(rng, 3, 7)))
            } else {
                None
            },
        }
    };
    let nat = [NatType::NoNat, NatType::FullCone, NatType::RestrictedCone, NatType::PortRestricted, NatType::Symmetric, NatType::Unknown];
    PeerEndpoint {
        endpoint_id: EndpointId::from_uuid(uuid::Uuid::from_bytes(u)),
        external_address,
        nat_type: *rng.pick(&nat),
        coordinator_nodes: (0..rng.below(4)).map(|_| rand_word(rng, 0, 12)).collect(),
        device_info: match rng.below(3) {
            0 => None,
            1 => Some(String::new()),
            _ => Some(rand_word(rng, 1, 20)),
        },
        last_updated: 1_700_000_000 + rng.below(100_000),
    }
}

fn rand_endpoints(rng: &mut Rng) -> Vec<PeerEndpoint> {
    let n = match rng.below(10) {
        0 => 16,
        1 | 2 | 3 => 1,
        _ => rng.urange(2, 5),
    };
    (0..n).map(|_| rand_endpoint(rng)).collect()
}

fn rand_ttl(rng: &mut Rng) -> u32 {
    match rng.below(6) {
        0 => 1,
        1 => 86_400,
        2 => 300,
        _ => rng.range(2, 86_399) as u32,
    }
}

fn rand_seq(rng: &mut Rng) -> u64 {
    match rng.below(8) {
        0 => 0,
        1 => u64::MAX,
        _ => rng.below(1000),
    }
}

fn rand_ts(rng: &mut Rng) -> u64 {
    match rng.below(10) {
        0 => 0,
        1 => u64::MAX,
        _ => 1_700_000_000 + rng.below(50),
    }
}

/// a record built through the public constructor, then signed by `signer`
fn signed_record(
    signer: &Key,
    user_id: UserId,
    seq: u64,
    ts: u64,
    name: Option<String>,
    eps: Vec<PeerEndpoint>,
    ttl: u32,
    class: &'static str,
) -> Option<Item> {
    let mut rec = PeerDHTRecord::new(user_id, signer.pk.clone(), seq, name, eps, ttl).ok()?;
    rec.timestamp = ts;
    rec.sign(&signer.sk).ok()?;
    let signed = Some(Arc::new(fields_of(&rec)));
    Some(Item { rec, signed, sig_intact: true, class })
}

fn flip_bit(b: &mut [u8], rng: &mut Rng) {
    let i = rng.usize_below(b.len());
    b[i] ^= 1 << rng.below(8);
}

/// payload mutants keep (user_id, sequence, timestamp); signature kept as is
const PAYLOAD_MUT: &[&str] = &[
    "name.change", "name.drop-or-add", "name.none<->empty", "name.case", "ttl.pm1", "ttl.random",
    "endpoints.drop", "endpoints.add", "endpoints.dup", "endpoints.order", "endpoints.port", "endpoints.ip",
    "endpoints.nat", "endpoints.coord", "endpoints.device", "endpoints.last_updated", "endpoints.uuid",
    "endpoints.four_words", "endpoints.v6-scope", "public_key.swap", "public_key.bitflip", "version",
];
const TRIPLE_MUT: &[&str] = &["seq.pm1", "seq.random", "timestamp.pm1", "timestamp.random", "user_id.bitflip", "user_id.other-owner"];
const SIG_MUT: &[&str] = &["sig.bitflip", "sig.zero", "sig.random", "sig.of-other-record", "unsigned.placeholder"];

/// Apply the named mutation. Returns None when it does not apply to this record (caller
/// picks another). The label is only workload bookkeeping: the oracle works from `diff`.
fn mutate(rng: &mut Rng, base: &Item, m: &'static str, keys: &[Key], others: &[Item]) -> Option<Item> {
    let mut it = base.clone();
    it.class = m;
    let r = &mut it.rec;
    match m {
        "name.change" => match r.name.as_mut() {
            Some(n) => {
                if n.len() < 200 && rng.chance(0.5) {
                    n.push('x');
                } else {
                    let mut cs: Vec<char> = n.chars().collect();
                    let i = rng.usize_below(cs.len().max(1));
                    if cs.is_empty() {
                        cs.push('q');
                    } else {
                        cs[i] = if cs[i] == 'z' { 'y' } else { 'z' };
                    }
                    *n = cs.into_iter().collect();
                }
            }
            None => r.name = Some(rand_word(rng, 1, 10)),
        },
        "name.drop-or-add" => {
            r.name = match r.name {
                Some(_) => None,
                None => Some(rand_word(rng, 1, 30)),
            }
        }
        "name.none<->empty" => match &r.name {
            None => r.name = Some(String::new()),
            Some(n) if n.is_empty() => r.name = None,
            _ => return None,
        },
        "name.case" => {
            let n = r.name.as_ref()?;
            let up = n.to_uppercase();
            if &up == n {
                return None;
            }
            r.name = Some(up);
        }
        "ttl.pm1" => r.ttl = if rng.chance(0.5) { r.ttl.wrapping_add(1) } else { r.ttl.wrapping_sub(1) },
        "ttl.random" => {
            let t = rng.next_u64() as u32;
            if t == r.ttl {
                return None;
            }
            r.ttl = t;
        }
        "endpoints.drop" => {
            if r.endpoints.len() < 2 {
                return None;
            }
            let i = rng.usize_below(r.endpoints.len());
            r.endpoints.remove(i);
        }
        "endpoints.add" => {
            let e = rand_endpoint(rng);
            let i = rng.usize_below(r.endpoints.len() + 1);
            r.endpoints.insert(i, e);
        }
        "endpoints.dup" => {
            let i = rng.usize_below(r.endpoints.len());
            let e = r.endpoints[i].clone();
            r.endpoints.push(e);
        }
        "endpoints.order" => {
            if r.endpoints.len() < 2 {
                return None;
            }
            let before = r.endpoints.clone();
            r.endpoints.rotate_left(1);
            if before == r.endpoints {
                return None;
            }
        }
        "endpoints.v6-scope" => {
            // only the zone / flow label of an IPv6 address changes
            let j = r.endpoints.iter().position(|e| e.external_address.socket_addr.is_ipv6())?;
            if let SocketAddr::V6(v6) = &mut r.endpoints[j].external_address.socket_addr {
                if rng.chance(0.7) {
                    v6.set_scope_id(v6.scope_id().wrapping_add(1 + rng.below(5) as u32));
                } else {
                    v6.set_flowinfo(v6.flowinfo() ^ (1 + rng.below(1000) as u32));
                }
            }
        }
        _ if m.starts_with("endpoints.") => {
            let i = rng.usize_below(r.endpoints.len());
            let e = &mut r.endpoints[i];
            match m {
                "endpoints.port" => {
                    let p = e.external_address.socket_addr.port();
                    e.external_address.socket_addr.set_port(p ^ (1 << rng.below(16)));
                }
                "endpoints.ip" => {
                    let mut s = rand_sock(rng);
                    s.set_port(e.external_address.socket_addr.port());
                    if s == e.external_address.socket_addr {
                        return None;
                    }
                    e.external_address.socket_addr = s;
                }
                "endpoints.nat" => {
                    e.nat_type = if e.nat_type == NatType::Symmetric { NatType::NoNat } else { NatType::Symmetric };
                }
                "endpoints.coord" => match rng.below(3) {
                    0 if !e.coordinator_nodes.is_empty() => {
                        e.coordinator_nodes.pop();
                    }
                    1 if !e.coordinator_nodes.is_empty() => {
                        e.coordinator_nodes[0].push('!');
                    }
                    _ => e.coordinator_nodes.push(rand_word(rng, 0, 6)),
                },
                "endpoints.device" => {
                    e.device_info = match e.device_info.take() {
                        None => Some(String::new()),
                        Some(s) if s.is_empty() => None,
                        Some(s) => Some(format!("{s}~")),
                    }
                }
                "endpoints.last_updated" => e.last_updated = e.last_updated.wrapping_add(if rng.chance(0.5) { 1 } else { u64::MAX }),
                "endpoints.uuid" => {
                    let mut b = *e.endpoint_id.uuid.as_bytes();
                    flip_bit(&mut b, rng);
                    e.endpoint_id = EndpointId::from_uuid(uuid::Uuid::from_bytes(b));
                }
                "endpoints.four_words" => {
                    e.external_address.four_words = match e.external_address.four_words.take() {
                        None => Some("a-b-c-d".to_string()),
                        Some(w) if rng.chance(0.3) => {
                            let _ = w;
                            None
                        }
                        Some(w) => Some(format!("{w}s")),
                    }
                }
                _ => return None,
            }
        }
        "public_key.swap" => {
            let k = rng.pick(keys);
            if k.pk.as_bytes() == r.public_key.as_bytes() {
                return None;
            }
            r.public_key = k.pk.clone();
        }
        "public_key.bitflip" => {
            let mut b = r.public_key.as_bytes().to_vec();
            flip_bit(&mut b, rng);
            r.public_key = MlDsaPublicKey::from_bytes(&b).ok()?;
        }
        "version" => r.version = r.version.wrapping_add(1 + rng.below(254) as u8),
        "seq.pm1" => r.sequence_number = if rng.chance(0.5) { r.sequence_number.wrapping_add(1) } else { r.sequence_number.wrapping_sub(1) },
        "seq.random" => r.sequence_number ^= 1 << rng.below(64),
        "timestamp.pm1" => r.timestamp = if rng.chance(0.5) { r.timestamp.wrapping_add(1) } else { r.timestamp.wrapping_sub(1) },
        "timestamp.random" => r.timestamp ^= 1 << rng.below(64),
        "user_id.bitflip" => flip_bit(&mut r.user_id.hash, rng),
        "user_id.other-owner" => {
            let k = rng.pick(keys);
            if k.id == r.user_id {
                return None;
            }
            r.user_id = k.id.clone();
        }
        "sig.bitflip" => {
            flip_bit(&mut r.signature.0[..], rng);
            it.sig_intact = false;
        }
        "sig.zero" | "unsigned.placeholder" => {
            r.signature = MlDsaSignature(Box::new([0u8; 3309]));
            it.signed = None;
            it.sig_intact = false;
        }
        "sig.random" => {
            let b = rng.bytes(3309);
            r.signature = MlDsaSignature::from_bytes(&b).ok()?;
            it.signed = None;
            it.sig_intact = false;
        }
        "sig.of-other-record" => {
            // a genuine signature lifted from another signed record
            let o = rng.pick(others);
            if !o.sig_intact || o.rec.signature.as_bytes() == r.signature.as_bytes() {
                return None;
            }
            r.signature = o.rec.signature.clone();
            it.signed = o.signed.clone();
        }
        _ => return None,
    }
    Some(it)
}

// ---------------------------------------------------------------- judging

fn short(s: &str, n: usize) -> String {
    if s.chars().count() <= n {
        s.to_string()
    } else {
        format!("{}…({}B)", s.chars().take(n).collect::<String>(), s.len())
    }
}

fn rec_json(it: &Item) -> Value {
    let r = &it.rec;
    json!({
        "class": it.class,
        "user_id": hex8(&r.user_id.hash),
        "key_fp": hex8(blake3::hash(r.public_key.as_bytes()).as_bytes()),
        "user_id_is_derived_from_key": r.user_id == UserId::from_public_key(&r.public_key),
        "version": r.version, "sequence_number": r.sequence_number, "timestamp": r.timestamp, "ttl": r.ttl,
        "name": r.name.as_ref().map(|n| short(n, 24)),
        "endpoints": r.endpoints.len(),
        "endpoint0": r.endpoints.first().map(ep_str),
        "sig_fp": hex8(blake3::hash(r.signature.as_bytes()).as_bytes()),
        "signature_bytes_as_produced_by_signer": it.sig_intact,
        "fields_differing_from_what_was_signed": it.signed.as_ref().map(|s| json!(diff(s, r))).unwrap_or(json!("no signing event for this signature")),
    })
}

#[derive(Clone, Copy, PartialEq, Eq)]
enum Verdict {
    Ok,
    Err,
    Panic,
}

/// Direct-verification rule. Returns the observed verdict.
fn judge_direct(mon: &Monitor, loc: &mut Local, it: &Item) -> Verdict {
    let got = match vkit::catch(|| it.rec.verify_signature()) {
        Ok(Ok(())) => Verdict::Ok,
        Ok(Err(_)) => Verdict::Err,
        Err(_) => Verdict::Panic,
    };
    mon.eval();
    let d: Vec<&'static str> = it.signed.as_ref().map(|s| diff(s, &it.rec)).unwrap_or_default();
    let bound = it.rec.user_id == UserId::from_public_key(&it.rec.public_key);
    let covered = it.signed.is_some() && it.sig_intact && d.is_empty();
    let may_accept = covered && bound;
    loc.bump(if may_accept { "oracle.may-accept" } else { "oracle.must-reject" });
    match got {
        Verdict::Ok => loc.bump("direct.accept"),
        Verdict::Err => loc.bump("direct.reject"),
        Verdict::Panic => loc.bump("direct.panic"),
    }
    if got != Verdict::Ok {
        if may_accept {
            // completeness is not part of the property ("only if"); remembered for the vacuity guard
            loc.bump("genuine.rejected-direct");
        }
        return got;
    }
    if may_accept {
        loc.bump("genuine.accepted-direct");
        return got;
    }
    // accepted although the oracle says it must not be
    if it.signed.is_none() {
        mon.violation("direct-accepts/no-signing-event", json!({"what": "a record whose signature bytes no key holder produced (zero / random) verified", "record": rec_json(it)}));
    } else if !d.is_empty() {
        if d == ["version"] {
            // format version is not in the property's field list: observation only
            loc.bump("info.version-mutant-accepted");
        } else {
            // acceptance with several altered fields shows each of them uncovered: one signature per
            // field keeps signatures stable (no seed-dependent combinations)
            for f in d.iter().filter(|f| **f != "version") {
                mon.violation(
                    &format!("direct-accepts/field-altered:{f}"),
                    json!({"what": "verify_signature Ok although the presented record differs from what was signed", "differs": d, "record": rec_json(it),
                           "signed_name": it.signed.as_ref().map(|s| s.name.as_ref().map(|n| short(n, 24))),
                           "signed_ttl": it.signed.as_ref().map(|s| s.ttl), "signed_seq": it.signed.as_ref().map(|s| s.seq), "signed_ts": it.signed.as_ref().map(|s| s.timestamp),
                           "endpoint_difference": it.signed.as_ref().and_then(|s| first_endpoint_difference(&s.endpoints, &it.rec.endpoints))}),
                );
            }
        }
    } else if !it.sig_intact {
        // same fields, other signature bytes that also verify: signature-scheme malleability, C08's subject
        loc.bump("info.sig-mutant-accepted");
    } else if !bound {
        mon.violation(
            "direct-accepts/user-id-not-derived-from-key",
            json!({"what": "verify_signature Ok on a record self-signed by a key whose derived id is not the record's user_id",
                   "record": rec_json(it), "id_derived_from_embedded_key": hex8(&UserId::from_public_key(&it.rec.public_key).hash)}),
        );
    }
    got
}

/// per-shard counters, flushed once
#[derive(Default)]
struct Local {
    c: BTreeMap<String, u64>,
}
impl Local {
    fn bump(&mut self, k: &str) {
        if let Some(v) = self.c.get_mut(k) {
            *v += 1;
        } else {
            self.c.insert(k.to_string(), 1);
        }
    }
    fn flush(&mut self, mon: &Monitor) {
        for (k, v) in std::mem::take(&mut self.c) {
            mon.count(&k, v);
        }
    }
}

/// identity of a presented record (all fields + signature), independent of the library's encoding
fn fingerprint(r: &PeerDHTRecord) -> [u8; 32] {
    let mut h = blake3::Hasher::new();
    h.update(&[r.version]);
    h.update(&r.user_id.hash);
    h.update(r.public_key.as_bytes());
    h.update(&r.sequence_number.to_le_bytes());
    h.update(format!("{:?}|{:?}|", r.name, r.endpoints).as_bytes());
    h.update(&r.timestamp.to_le_bytes());
    h.update(&r.ttl.to_le_bytes());
    h.update(r.signature.as_bytes());
    *h.finalize().as_bytes()
}

struct Seen {
    /// index into the history trail
    line: usize,
    fp: [u8; 32],
    triple: ([u8; 32], u64, u64),
    direct_ok: bool,
}

/// `small`: 2..=5 presentations biased towards exact repeats — gives minimal witnesses and
/// guarantees repeat-of-an-invalid-record cases the larger histories only hit by chance
fn history(mon: &Monitor, loc: &mut Local, rng: &mut Rng, keys: &[Key], hidx: u64, small: bool) {
    // ---- signed material for this history
    let n_bases = if small { 1 } else { rng.urange(1, 4) };
    let mut signed: Vec<Item> = Vec::new();
    for _ in 0..n_bases {
        let owner = rng.pick(keys);
        let (seq, ts) = (rand_seq(rng), rand_ts(rng));
        let Some(g) = signed_record(owner, owner.id.clone(), seq, ts, rand_name(rng), rand_endpoints(rng), rand_ttl(rng), "genuine") else {
            mon.count("skipped.sign-failed", 1);
            continue;
        };
        // the owner signs another payload under the same (sequence, timestamp): also genuine
        if rng.chance(0.35) {
            if let Some(x) = signed_record(owner, owner.id.clone(), seq, ts, rand_name(rng), rand_endpoints(rng), rand_ttl(rng), "genuine.resigned-same-seq-ts") {
                signed.push(x);
            }
        }
        // an attacker signs, with its own key, a record that claims the owner's id (same sequence / timestamp)
        if rng.chance(0.5) {
            let att = rng.pick(keys);
            if att.id != owner.id {
                let (name, eps, ttl) = if rng.chance(0.5) {
                    (g.rec.name.clone(), g.rec.endpoints.clone(), g.rec.ttl)
                } else {
                    (rand_name(rng), rand_endpoints(rng), rand_ttl(rng))
                };
                if let Some(x) = signed_record(att, owner.id.clone(), seq, ts, name, eps, ttl, "forged.foreign-id-own-key") {
                    signed.push(x);
                }
            }
        }
        if rng.chance(0.15) {
            let att = rng.pick(keys);
            if let Some(x) = signed_record(att, UserId::from_bytes(rng.arr32()), seq, ts, rand_name(rng), rand_endpoints(rng), rand_ttl(rng), "forged.random-id-own-key") {
                signed.push(x);
            }
        }
        signed.push(g);
    }
    if signed.is_empty() {
        return;
    }
    let genuine_idx: Vec<usize> = signed.iter().enumerate().filter(|(_, i)| i.class.starts_with("genuine")).map(|(i, _)| i).collect();
    let forged_idx: Vec<usize> = signed.iter().enumerate().filter(|(_, i)| i.class.starts_with("forged")).map(|(i, _)| i).collect();

    // ---- the cache
    let cap = match rng.below(12) {
        0 => 16,
        1 => 1000,
        _ => rng.urange(1, 8),
    };
    let cap_class = if cap <= 8 { cap } else { 99 };
    let mut cache = SignatureCache::new(cap);
    let n = match rng.below(4) {
        _ if small => rng.urange(2, 5),
        0 => rng.urange(5, 20),
        _ => rng.urange(5, 200),
    };
    let mut seen: Vec<Seen> = Vec::new();
    let mut presented: Vec<Item> = Vec::new();
    let mut trail: Vec<String> = Vec::new();
    let want_sample = !small && hidx % 37 == 3 && mon.want_sample();

    for step in 0..n {
        if step % 16 == 0 && mon.time_up() {
            break;
        }
        if rng.chance(0.01) {
            cache.clear();
            seen.clear();
            loc.bump("cache.clear");
            trail.push("clear".into());
        }
        // ---- choose what to present
        let kind = if small { rng.weighted(&[15, 25, 15, 10, 10, 25, 0]) } else { rng.weighted(&[22, 34, 10, 10, 8, 12, 4]) };
        let mut it: Option<Item> = None;
        for _try in 0..6 {
            let base = rng.pick(&signed);
            let pm: &'static str = *rng.pick(PAYLOAD_MUT);
            let tm: &'static str = *rng.pick(TRIPLE_MUT);
            let sm: &'static str = *rng.pick(SIG_MUT);
            it = match kind {
                0 if !genuine_idx.is_empty() => Some(signed[*rng.pick(&genuine_idx)].clone()),
                1 => mutate(rng, base, pm, keys, &signed),
                2 => mutate(rng, base, tm, keys, &signed),
                3 if !forged_idx.is_empty() => Some(signed[*rng.pick(&forged_idx)].clone()),
                4 => mutate(rng, base, sm, keys, &signed),
                5 if !presented.is_empty() => Some(rng.pick(&presented).clone()),
                6 => {
                    // two stacked mutations
                    let second: &'static str = if rng.chance(0.5) { *rng.pick(PAYLOAD_MUT) } else { tm };
                    mutate(rng, base, pm, keys, &signed).and_then(|a| {
                        mutate(rng, &a, second, keys, &signed).map(|mut b| {
                            b.class = "double";
                            b
                        })
                    })
                }
                _ => Some(base.clone()),
            };
            if it.is_some() {
                break;
            }
        }
        let Some(it) = it else {
            loc.bump("skipped.mutation-not-applicable");
            continue;
        };
        loc.bump(&format!("present.{}", it.class));

        // ---- direct verdict (reference for the cached one) and the direct rule
        let direct = judge_direct(mon, loc, &it);

        // ---- relation of this presentation to earlier ones in this cache (since the last clear)
        let fp = fingerprint(&it.rec);
        let triple = (it.rec.user_id.hash, it.rec.sequence_number, it.rec.timestamp);
        let d_ok = direct == Verdict::Ok;
        let relation = if seen.iter().any(|s| s.triple == triple && s.fp != fp && s.direct_ok != d_ok) {
            if d_ok {
                "after-invalid-same-id-seq-ts"
            } else {
                "after-valid-same-id-seq-ts"
            }
        } else if seen.iter().any(|s| s.fp == fp) {
            "repeat"
        } else if seen.iter().any(|s| s.triple == triple) {
            "after-same-verdict-same-id-seq-ts"
        } else {
            "fresh"
        };
        loc.bump(&format!("relation.{relation}"));

        // ---- cached verdict
        let cached = match vkit::catch(|| cache.verify_cached(&it.rec)) {
            Ok(Ok(())) => Verdict::Ok,
            Ok(Err(_)) => Verdict::Err,
            Err(_) => Verdict::Panic,
        };
        mon.eval();
        match cached {
            Verdict::Ok => loc.bump("cached.accept"),
            Verdict::Err => loc.bump("cached.reject"),
            Verdict::Panic => loc.bump("cached.panic"),
        }
        if !seen.is_empty() || it.class != "genuine" {
            mon.case((it.class, cap_class, relation));
        }
        trail.push(format!(
            "{} id={} seq={} ts={} sig={} direct={} cached={} [{}]",
            it.class,
            hex8(&it.rec.user_id.hash),
            it.rec.sequence_number,
            it.rec.timestamp,
            hex8(blake3::hash(it.rec.signature.as_bytes()).as_bytes()),
            vname(direct),
            vname(cached),
            relation
        ));
        if direct == Verdict::Panic || cached == Verdict::Panic {
            loc.bump("skipped.panic-no-verdict-comparison");
        } else if cached != direct {
            let dir = if cached == Verdict::Ok { "accepts-invalid" } else { "rejects-valid" };
            // earliest earlier presentation that shares (id, seq, ts) — the concrete interfering record
            let earlier = seen.iter().position(|s| s.triple == triple && s.fp != fp);
            mon.violation(
                &format!("cache-verdict/{dir}/{relation}"),
                json!({"what": "verify_cached verdict differs from verify_signature on the same presentation",
                       "capacity": cap, "step": step, "direct": vname(direct), "cached": vname(cached),
                       "presented": rec_json(&it),
                       "earlier_presentation_sharing_id_seq_ts": earlier.map(|i| json!({"presentations_ago": trail.len() - 1 - seen[i].line, "was": trail[seen[i].line]})),
                       "history_len_so_far": trail.len(),
                       "history_tail": trail.iter().rev().take(10).rev().collect::<Vec<_>>()}),
            );
        }
        seen.push(Seen { line: trail.len() - 1, fp, triple, direct_ok: d_ok });
        if presented.len() < 64 {
            presented.push(it);
        } else {
            let i = rng.usize_below(64);
            presented[i] = it;
        }
    }
    if want_sample && trail.len() >= 5 {
        mon.sample(json!({"capacity": cap, "presentations": trail.len(), "signed_material": signed.iter().map(|s| s.class).collect::<Vec<_>>(),
                          "first_presentations": trail.iter().take(10).collect::<Vec<_>>()}));
    }
    loc.bump(if small { "histories.small" } else { "histories" });
}

fn vname(v: Verdict) -> &'static str {
    match v {
        Verdict::Ok => "Ok",
        Verdict::Err => "Err",
        Verdict::Panic => "panic",
    }
}

// ---------------------------------------------------------------- construction bounds

#[derive(Clone, Copy, PartialEq, Eq, Hash, Debug)]
enum B {
    In,
    /// inside, on the edge
    Edge,
    /// first value outside
    JustOut,
    FarOut,
    /// the documentation does not decide (byte length vs character count)
    Ambiguous,
}

fn name_class(n: &Option<String>) -> (B, &'static str) {
    match n {
        None => (B::In, "name-none"),
        Some(s) => {
            let (bytes, chars) = (s.len(), s.chars().count());
            if bytes == 0 {
                (B::JustOut, "name-empty")
            } else if chars > 255 {
                if chars == 256 {
                    (B::JustOut, "name-256")
                } else {
                    (B::FarOut, "name-over-256")
                }
            } else if bytes > 255 {
                (B::Ambiguous, "name-multibyte-over-255-bytes")
            } else if bytes == 255 || bytes == 1 {
                (B::Edge, "name-edge")
            } else {
                (B::In, "name-in")
            }
        }
    }
}
fn eps_class(n: usize) -> (B, &'static str) {
    match n {
        0 => (B::JustOut, "endpoints-0"),
        1 | 16 => (B::Edge, "endpoints-edge"),
        2..=15 => (B::In, "endpoints-in"),
        17 => (B::JustOut, "endpoints-17"),
        _ => (B::FarOut, "endpoints-over-17"),
    }
}
fn ttl_class(t: u32) -> (B, &'static str) {
    match t {
        0 => (B::JustOut, "ttl-0"),
        1 | 86_400 => (B::Edge, "ttl-edge"),
        2..=86_399 => (B::In, "ttl-in"),
        86_401 => (B::JustOut, "ttl-86401"),
        _ => (B::FarOut, "ttl-over-86401"),
    }
}

fn judge_bounds(mon: &Monitor, loc: &mut Local, key: &Key, name: Option<String>, eps: Vec<PeerEndpoint>, ttl: u32, seq: u64) {
    let (nb, nl) = name_class(&name);
    let (eb, el) = eps_class(eps.len());
    let (tb, tl) = ttl_class(ttl);
    let (name_dbg, n_eps) = (name.as_ref().map(|n| json!({"bytes": n.len(), "chars": n.chars().count(), "text": short(n, 12)})), eps.len());
    let got = vkit::catch(|| PeerDHTRecord::new(key.id.clone(), key.pk.clone(), seq, name, eps, ttl).is_ok());
    let out = |b: B| matches!(b, B::JustOut | B::FarOut);
    let any_out = out(nb) || out(eb) || out(tb);
    let ambiguous = nb == B::Ambiguous;
    if [nb, eb, tb].iter().any(|b| matches!(b, B::Edge | B::JustOut)) {
        mon.case(("bounds", nl, el, tl));
    }
    let detail = || json!({"name": name_dbg, "endpoints": n_eps, "ttl": ttl, "classes": [nl, el, tl]});
    match got {
        Err(p) => {
            mon.eval();
            loc.bump("bounds.panic");
            mon.violation("bounds/constructor-panicked", json!({"panic": short(&p, 120), "input": detail()}));
        }
        Ok(accepted) => {
            if any_out {
                mon.eval();
                loc.bump(if accepted { "bounds.out.accepted" } else { "bounds.out.refused" });
                if accepted {
                    let which: Vec<&str> = [(nb, nl), (eb, el), (tb, tl)].iter().filter(|(b, _)| out(*b)).map(|(_, l)| *l).collect();
                    mon.violation(&format!("bounds/accepted-out-of-bounds/{}", which.join("+")), detail());
                }
            } else if ambiguous {
                loc.bump("skipped.bounds-name-bytes-vs-chars-ambiguous");
            } else {
                mon.eval();
                loc.bump(if accepted { "bounds.in.accepted" } else { "bounds.in.refused" });
                if !accepted {
                    // the documented bounds are intervals: a value inside them is a documented-valid input
                    mon.violation(&format!("bounds/refused-in-bounds/{nl}+{el}+{tl}"), detail());
                }
            }
        }
    }
}

fn bounds_table(mon: &Monitor, loc: &mut Local, rng: &mut Rng, key: &Key, full: bool) {
    let ep = rand_endpoint(rng);
    let names: Vec<Option<String>> = vec![
        None,
        Some(String::new()),
        Some("a".into()),
        Some("ab".into()),
        Some("n".repeat(254)),
        Some("n".repeat(255)),
        Some("n".repeat(256)),
        Some("n".repeat(257)),
        Some("n".repeat(1000)),
        Some("n".repeat(70_000)),
        Some("é".repeat(127)),               // 254 bytes
        Some(format!("{}x", "é".repeat(127))), // 255 bytes, 128 chars
        Some("é".repeat(128)),               // 256 bytes, 128 chars: ambiguous
        Some("é".repeat(256)),               // 256 chars
        Some("\u{0}".into()),
    ];
    let counts = [0usize, 1, 2, 15, 16, 17, 18, 64];
    let ttls = [0u32, 1, 2, 300, 86_399, 86_400, 86_401, 86_402, 1 << 31, u32::MAX];
    if full {
        for n in &names {
            for c in counts {
                for t in ttls {
                    judge_bounds(mon, loc, key, n.clone(), vec![ep.clone(); c], t, rng.below(10));
                }
            }
        }
    }
    // seeded points around the edges with distinct endpoints
    for _ in 0..mon.by_tier(300, 3000) {
        let n = match rng.below(6) {
            0 => None,
            1 => Some(rand_word(rng, 250, 260)),
            2 => Some(rand_word(rng, 0, 3)),
            3 => {
                let k = rng.urange(120, 135);
                Some("ü".repeat(k))
            }
            _ => rand_name(rng),
        };
        let c = match rng.below(4) {
            0 => rng.urange(0, 2),
            1 => rng.urange(14, 19),
            _ => rng.urange(0, 24),
        };
        let t = match rng.below(5) {
            0 => rng.range(0, 3) as u32,
            1 => rng.range(86_397, 86_404) as u32,
            2 => rng.next_u64() as u32,
            _ => rand_ttl(rng),
        };
        let eps: Vec<PeerEndpoint> = (0..c).map(|_| rand_endpoint(rng)).collect();
        judge_bounds(mon, loc, key, n, eps, t, rand_seq(rng));
    }
}

fn main() {
    let mon = Monitor::new("C09", "exploration");
    mon.set_rule("case = one presentation of a record to one SignatureCache (direct verdict judged against signing provenance, cached verdict against the direct one) or one constructor call; a presentation is non-trivial when the cache has seen >=1 earlier presentation since its last clear or the record is not a plain genuine one; distinct by (mutant class, capacity 1..8|big, relation to earlier presentations: fresh / repeat / shares (id,seq,ts) with same- or opposite-verdict record); a constructor call is non-trivial when some argument sits on or next to a bound; distinct by (name, endpoints, ttl) class");
    mon.assume("ML-DSA-65 key generation draws OS randomness: a replay reproduces the same classes and histories, not the same key bytes");
    mon.assume("a bit-flipped / foreign signature that still verifies over unchanged fields is signature-scheme malleability (C08), counted, not judged here");
    mon.assume("the record format version is not in the property's field list: a version mutant that verifies is counted, not judged");
    mon.assume("name bound is read as: empty and >255 characters are out, <=255 bytes is in, between (multibyte) is undecided and skipped");
    let per_shard = mon.by_tier(500u64, 6_000);
    vkit::run_shards(mon.shards(), mon.seed, |i, mut rng| {
        let mut loc = Local::default();
        let keys: Vec<Key> = (0..5).filter_map(|_| gen_key()).collect();
        if keys.len() < 2 {
            mon.inconclusive("ML-DSA key generation failed");
            return;
        }
        for h in 0..per_shard {
            if h == 6 {
                bounds_table(&mon, &mut loc, &mut rng, &keys[0], i == 0);
            }
            if mon.time_up() {
                break;
            }
            history(&mon, &mut loc, &mut rng, &keys, h, h < 6 || h % 10 == 0);
        }
        loc.flush(&mon);
    });
    if mon.counter("genuine.accepted-direct") == 0 {
        mon.inconclusive("no genuine record was ever accepted by verify_signature: the soundness checks would be vacuous");
    }
    if mon.counter("bounds.in.accepted") == 0 {
        mon.inconclusive("no in-bounds construction succeeded");
    }
    mon.finish();
}
