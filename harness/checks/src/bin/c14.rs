//! C14 — join and request rate limits hold for every arrival pattern.
//!
//! Oracle: a token bucket + fixed window per key, kept as INTERVALS. The limiters read
//! `Instant::now()` themselves, so every call is bracketed by two readings (b, a) and the
//! model only knows that the limiter's clock value lies in [b, a]. With
//! p = tokens - rate*(now - t0) (which only changes by consumption and by the cap at burst),
//! upper/lower bounds on p do not accumulate clock error. A call is must-admit when the lower
//! token bound is >= 1 and the window count is surely < max, must-deny when the upper bound is
//! < 1 or the window count is surely >= max, otherwise undecidable (counted, never judged).

use saorsa_core::rate_limit::{Engine, EngineConfig, JoinRateLimitError, JoinRateLimiter, JoinRateLimiterConfig};
use saorsa_core::validation::{RateLimitConfig, RateLimiter};
use serde_json::{json, Value};
use std::collections::HashMap;
use std::net::{IpAddr, Ipv4Addr, Ipv6Addr};
use std::time::{Duration, Instant};
use vkit::{Monitor, Rng};

const EPS: f64 = 1e-6; // tokens; covers f64 rounding of elapsed*rate sums in the limiter
const TEPS: f64 = 2e-9; // seconds; Duration comparison vs f64 comparison at the window edge

#[derive(Clone, Copy, Debug)]
struct Cfg {
    burst: f64,
    max: u32,
    window: f64,
    rate: f64,
}
impl Cfg {
    fn new(burst: u32, max: u32, window: Duration) -> Cfg {
        let w = window.as_secs_f64();
        Cfg { burst: burst as f64, max, window: w, rate: max as f64 / w }
    }
    fn shape(&self) -> &'static str {
        if self.burst == 0.0 || self.max == 0 {
            "zero"
        } else if self.burst < self.max as f64 {
            "burst<max"
        } else if self.burst == self.max as f64 {
            "burst=max"
        } else {
            "burst>max"
        }
    }
    fn json(&self) -> Value {
        json!({"burst": self.burst, "max_requests": self.max, "window_s": self.window})
    }
}

#[derive(Clone, Copy, PartialEq, Eq, Debug, Hash)]
enum Must {
    Admit,
    Deny,
    Either,
}
impl Must {
    fn name(self) -> &'static str {
        match self {
            Must::Admit => "must-admit",
            Must::Deny => "must-deny",
            Must::Either => "undecidable",
        }
    }
}

/// what happened to this bucket in a call, as far as the property lets us know
#[derive(Clone, Copy, PartialEq, Eq)]
enum Post {
    /// the bucket admitted (a token was surely taken)
    Admitted,
    /// this very bucket refused (nothing taken)
    Denied,
    /// part of a composite call that was refused somewhere: a token may or may not have been taken
    MaybeTaken,
}

#[derive(Clone, Debug)]
struct Bk {
    p_lo: f64,
    p_hi: f64,
    ws_lo: f64,
    ws_hi: f64,
    wc_lo: u32,
    wc_hi: u32,
    attempts: u64,
    admitted: u64,
    first_b: f64,
    /// token bounds at the last call (for witnesses)
    t_lo: f64,
    t_hi: f64,
    /// since the last proven touch there was a composite refusal that may never have reached this
    /// bucket: it may be created / may re-open its window only at its next real touch
    pending: bool,
    saved: (f64, f64, u32, u32),
    reset_in_pre: bool,
}

impl Bk {
    /// bucket created full at some instant in [b, a]
    fn new(c: &Cfg, b: f64, a: f64) -> Bk {
        Bk { p_lo: c.burst - c.rate * a, p_hi: c.burst - c.rate * b, ws_lo: b, ws_hi: a, wc_lo: 0, wc_hi: 0, attempts: 0, admitted: 0, first_b: b, t_lo: c.burst, t_hi: c.burst, pending: false, saved: (b, a, 0, 0), reset_in_pre: false }
    }
    /// advance to a call bracketed by [b, a]; returns the verdict and why
    fn pre(&mut self, c: &Cfg, b: f64, a: f64) -> (Must, &'static str) {
        self.saved = (self.ws_lo, self.ws_hi, self.wc_lo, self.wc_hi);
        self.reset_in_pre = false;
        if self.pending {
            // the bucket may be (re)started by this very call
            self.ws_hi = self.ws_hi.max(a);
            self.wc_lo = 0;
        }
        // fixed window: re-opened by the first call later than `window` after it opened
        if b - self.ws_hi > c.window + TEPS {
            self.reset_in_pre = true;
            self.ws_lo = b;
            self.ws_hi = a;
            self.wc_lo = 0;
            self.wc_hi = 0;
        } else if a - self.ws_lo > c.window - TEPS {
            // cannot tell whether it re-opened
            self.ws_hi = a;
            self.wc_lo = 0;
        }
        self.t_lo = (self.p_lo + c.rate * b).min(c.burst).max(0.0);
        self.t_hi = (self.p_hi + c.rate * a).min(c.burst);
        self.p_lo = self.p_lo.min(c.burst - c.rate * a);
        self.p_hi = self.p_hi.min(c.burst - c.rate * b);
        if self.wc_lo >= c.max {
            (Must::Deny, "window")
        } else if self.t_hi < 1.0 - EPS {
            (Must::Deny, "tokens")
        } else if self.t_lo >= 1.0 + EPS && self.wc_hi < c.max {
            (Must::Admit, "-")
        } else {
            (Must::Either, "-")
        }
    }
    fn post(&mut self, c: &Cfg, b: f64, a: f64, what: Post) {
        self.attempts += 1;
        match what {
            Post::Admitted => {
                self.admitted += 1;
                // it had >= 1 token and window room
                self.p_lo = self.p_lo.max(1.0 - c.rate * a);
                self.p_hi = self.p_hi.max(self.p_lo);
                self.p_lo -= 1.0;
                self.p_hi -= 1.0;
                if c.max >= 1 {
                    self.wc_hi = self.wc_hi.min(c.max - 1);
                    self.wc_lo = self.wc_lo.min(self.wc_hi);
                }
                self.wc_lo += 1;
                self.wc_hi += 1;
            }
            Post::Denied => {
                if self.wc_hi < c.max {
                    // the window was not the reason, so it had < 1 token
                    self.p_hi = self.p_hi.min(1.0 - c.rate * b);
                    self.p_lo = self.p_lo.min(self.p_hi);
                }
            }
            Post::MaybeTaken => {
                self.p_lo -= 1.0;
                if self.reset_in_pre {
                    // the re-opening assumed in pre() only happened if the call reached this bucket
                    self.ws_lo = self.saved.0;
                    self.ws_hi = a;
                    self.wc_lo = 0;
                    self.wc_hi = self.wc_hi.max(self.saved.3);
                }
                self.wc_hi = (self.wc_hi + 1).min(c.max.max(self.wc_hi));
                self.pending = true;
            }
        }
        if what != Post::MaybeTaken {
            self.pending = false;
        }
        // tokens are never negative
        self.p_lo = self.p_lo.max(-c.rate * a);
        self.p_hi = self.p_hi.max(self.p_lo);
    }
    fn json(&self) -> Value {
        json!({"tokens_lo": self.t_lo, "tokens_hi": self.t_hi, "window_count_lo": self.wc_lo, "window_count_hi": self.wc_hi, "attempts": self.attempts, "admitted": self.admitted})
    }
}

struct Clock {
    t0: Instant,
}
impl Clock {
    fn s(&self, i: Instant) -> f64 {
        i.duration_since(self.t0).as_secs_f64()
    }
}

fn pause(rng: &mut Rng, c: &Cfg) {
    // let refill happen: wait for about 0.2..3 tokens' worth when that is short, else just jitter
    let tok = 0.2 + rng.f64() * 2.8;
    let mut d = if c.rate > 0.0 { tok / c.rate } else { 1.0 };
    if d > 0.002 {
        d = 0.00002 + rng.f64() * 0.0001;
    }
    let until = Instant::now() + Duration::from_secs_f64(d);
    if d > 0.0003 {
        std::thread::sleep(Duration::from_secs_f64(d));
    } else {
        while Instant::now() < until {
            std::hint::spin_loop();
        }
    }
}

fn random_cfg(rng: &mut Rng) -> (u32, u32, Duration) {
    let max = *rng.pick(&[1u32, 1, 2, 3, 5, 10, 10, 50, 100, 1000, 5000]);
    let burst = match rng.below(6) {
        0 => max,
        1 => (max / 2).max(1),
        2 => max.saturating_mul(3),
        3 => 1,
        4 => rng.range(1, 40) as u32,
        _ => *rng.pick(&[0u32, 2, 5, 20, 100]),
    };
    let window = match rng.below(7) {
        0 => Duration::from_millis(rng.range(2, 30)),
        1 => Duration::from_millis(rng.range(30, 400)),
        2 => Duration::from_secs(1),
        3 => Duration::from_secs(60),
        4 => Duration::from_secs(3600),
        5 => Duration::from_micros(rng.range(200, 2000)),
        _ => Duration::from_millis(rng.range(1, 2000)),
    };
    (burst, max, window)
}

fn conc_tag(threads: usize) -> &'static str {
    if threads <= 1 {
        "sequential"
    } else {
        "concurrent"
    }
}

/// judge one call on one exactly-modelled bucket (Engine key / Engine global)
#[allow(clippy::too_many_arguments)]
fn judge_exact(mon: &Monitor, limiter: &'static str, c: &Cfg, bk: &mut Bk, b: f64, a: f64, ok: bool, threads: usize, key_desc: &str, fresh: bool) {
    let (must, why) = bk.pre(c, b, a);
    mon.eval();
    if !fresh {
        mon.case((limiter, must.name(), ok, conc_tag(threads), c.shape(), why));
    }
    match must {
        Must::Either => mon.count("skipped.undecidable-from-two-clock-readings", 1),
        Must::Admit => mon.count("judged.must-admit", 1),
        Must::Deny => mon.count("judged.must-deny", 1),
    }
    let detail = |bk: &Bk, what: &str| json!({"limiter": limiter, "what": what, "config": c.json(), "key": key_desc, "model_before_call": bk.json(), "call_window_s": [b, a], "since_first_attempt_s": a - bk.first_b, "threads": threads});
    if ok && must == Must::Deny {
        mon.violation(&format!("must-deny-admitted/{limiter}/{why}/{}", c.shape()), detail(bk, "admitted although even the most generous reading of the clock leaves no budget"));
    }
    if !ok && must == Must::Admit {
        mon.violation(&format!("must-admit-denied/{limiter}/{}/{}", if fresh { "fresh-key" } else { "seen-key" }, c.shape()), detail(bk, "refused although even the least generous reading of the clock leaves budget"));
    }
    bk.post(c, b, a, if ok { Post::Admitted } else { Post::Denied });
}

/// aggregate bound, independent of the step model: admitted <= burst + rate*elapsed_hi and, when the
/// whole run fits in one window, <= max
fn judge_aggregate(mon: &Monitor, limiter: &'static str, c: &Cfg, admitted: u64, attempts: u64, first_b: f64, last_a: f64, threads: usize) {
    mon.eval();
    let span = last_a - first_b;
    let bound = c.burst + (span * c.rate).ceil() + EPS;
    let detail = || json!({"limiter": limiter, "config": c.json(), "admitted": admitted, "attempts": attempts, "elapsed_hi_s": span, "bound_burst_plus_refill": bound, "threads": threads});
    if admitted as f64 > bound {
        mon.violation(&format!("aggregate-over-budget/{limiter}/{}/{}", conc_tag(threads), c.shape()), detail());
    }
    if span < c.window - TEPS {
        mon.eval();
        if admitted > c.max as u64 {
            mon.violation(&format!("aggregate-over-window-max/{limiter}/{}/{}", conc_tag(threads), c.shape()), detail());
        }
    }
    // the first min(burst, max) attempts can never be refused: tokens only grow with time
    mon.eval();
    let floor = attempts.min(c.burst as u64).min(c.max as u64);
    if admitted < floor {
        mon.violation(&format!("aggregate-under-burst/{limiter}/{}/{}", conc_tag(threads), c.shape()), detail());
    }
}

// ---------------------------------------------------------------- Engine<K>, sequential

fn engine_sequential(mon: &Monitor, rng: &mut Rng) {
    let (burst, max, window) = random_cfg(rng);
    let c = Cfg::new(burst, max, window);
    let clk = Clock { t0: Instant::now() };
    let b0 = Instant::now();
    let eng: Engine<u64> = Engine::new(EngineConfig { window, max_requests: max, burst_size: burst });
    let a0 = Instant::now();
    let mut global = Bk::new(&c, clk.s(b0), clk.s(a0));
    let mut keys: HashMap<u64, Bk> = HashMap::new();
    let nkeys = rng.urange(1, 12) as u64;
    let n = rng.urange(20, mon.by_tier(700, 1500));
    let pattern = rng.below(4);
    let mut log: Vec<String> = Vec::new();
    for i in 0..n {
        let use_global = rng.chance(0.12);
        let key = match pattern {
            0 => 0,
            1 => i as u64 % nkeys,
            2 => {
                if rng.chance(0.8) {
                    0
                } else {
                    rng.below(nkeys)
                }
            }
            _ => rng.below(nkeys),
        };
        if rng.chance(0.06) {
            pause(rng, &c);
        }
        let b = Instant::now();
        let ok = if use_global { eng.try_consume_global() } else { eng.try_consume_key(&key) };
        let a = Instant::now();
        let (b, a) = (clk.s(b), clk.s(a));
        mon.count(if ok { "engine.admitted" } else { "engine.denied" }, 1);
        if use_global {
            judge_exact(mon, "engine-global", &c, &mut global, b, a, ok, 1, "global", false);
        } else {
            let fresh = !keys.contains_key(&key);
            let bk = keys.entry(key).or_insert_with(|| Bk::new(&c, b, a));
            judge_exact(mon, "engine-key", &c, bk, b, a, ok, 1, &format!("key {key} of {nkeys}"), fresh);
        }
        if log.len() < 40 {
            log.push(format!("{:.6}s {} -> {}", a, if use_global { "global".to_string() } else { format!("k{key}") }, if ok { "ok" } else { "denied" }));
        }
    }
    let end = clk.s(Instant::now());
    for bk in keys.values() {
        judge_aggregate(mon, "engine-key", &c, bk.admitted, bk.attempts, bk.first_b, end, 1);
    }
    judge_aggregate(mon, "engine-global", &c, global.admitted, global.attempts, global.first_b, end, 1);
    if mon.want_sample() && n > 100 && keys.values().any(|k| k.admitted > c.burst as u64) {
        mon.sample(json!({"limiter": "Engine<u64>", "config": c.json(), "keys": nkeys, "attempts": n, "elapsed_s": end,
                          "per_key(admitted/attempts)": keys.iter().take(8).map(|(k, b)| format!("k{k}: {}/{}", b.admitted, b.attempts)).collect::<Vec<_>>(), "first_calls": log}));
    }
}

// ---------------------------------------------------------------- Engine<K>, concurrent

fn engine_concurrent(mon: &Monitor, rng: &mut Rng) {
    let (burst, max, window) = random_cfg(rng);
    let c = Cfg::new(burst, max, window);
    let threads = *rng.pick(&[2usize, 2, 3, 4, 6, 8, 12, 16]);
    let clk = Clock { t0: Instant::now() };
    let eng: Engine<String> = Engine::new(EngineConfig { window, max_requests: max, burst_size: burst });
    let per = rng.urange(50, mon.by_tier(500, 1200));
    let hot_share = rng.f64();
    let seeds: Vec<u64> = (0..threads).map(|_| rng.next_u64()).collect();
    // thread i owns keys "t{i}-*" (driven by nobody else: the exact step model applies while all other
    // threads hammer other keys) and everybody hits the key "hot"
    let logs: Vec<Vec<(u32, f64, f64, bool)>> = std::thread::scope(|s| {
        let hs: Vec<_> = (0..threads)
            .map(|ti| {
                let eng = &eng;
                let clk = &clk;
                let c = &c;
                let mut r = Rng::new(seeds[ti]);
                s.spawn(move || {
                    let own: Vec<String> = (0..3).map(|k| format!("t{ti}-{k}")).collect();
                    let hot = "hot".to_string();
                    let mut v = Vec::with_capacity(per);
                    for _ in 0..per {
                        let which = if r.f64() < hot_share { 0u32 } else { 1 + r.below(3) as u32 };
                        if r.chance(0.03) {
                            pause(&mut r, c);
                        }
                        let key = if which == 0 { &hot } else { &own[(which - 1) as usize] };
                        let b = Instant::now();
                        let ok = eng.try_consume_key(key);
                        let a = Instant::now();
                        v.push((which, clk.s(b), clk.s(a), ok));
                    }
                    v
                })
            })
            .collect();
        hs.into_iter().map(|h| h.join().unwrap_or_default()).collect()
    });
    let end = clk.s(Instant::now());
    // own keys: exact model per key
    for (ti, log) in logs.iter().enumerate() {
        let mut own: HashMap<u32, Bk> = HashMap::new();
        for (which, b, a, ok) in log.iter().filter(|e| e.0 != 0) {
            let fresh = !own.contains_key(which);
            let bk = own.entry(*which).or_insert_with(|| Bk::new(&c, *b, *a));
            judge_exact(mon, "engine-key", &c, bk, *b, *a, *ok, threads, &format!("key t{ti}-{} owned by one of {threads} threads", which - 1), fresh);
        }
        for bk in own.values() {
            judge_aggregate(mon, "engine-key", &c, bk.admitted, bk.attempts, bk.first_b, end, threads);
        }
    }
    // hot key: order of the calls is unknown, judge counts over time spans
    let mut hot: Vec<(f64, f64, bool)> = logs.iter().flatten().filter(|e| e.0 == 0).map(|e| (e.1, e.2, e.3)).collect();
    if hot.is_empty() {
        return;
    }
    hot.sort_by(|x, y| x.0.partial_cmp(&y.0).unwrap_or(std::cmp::Ordering::Equal));
    let adm: Vec<(f64, f64)> = hot.iter().filter(|e| e.2).map(|e| (e.0, e.1)).collect();
    let first_b = hot[0].0;
    let last_a = hot.iter().map(|e| e.1).fold(0.0, f64::max);
    judge_aggregate(mon, "engine-hot-key", &c, adm.len() as u64, hot.len() as u64, first_b, last_a, threads);
    mon.case(("engine-hot-key", threads, c.shape(), adm.len() > c.burst as usize));
    // any run of burst+m admissions needs at least m/rate seconds between its outer clock readings
    let bu = c.burst as usize;
    for m in [1usize, 2, 3, 5, 8, 16, 64, 256] {
        let len = bu + m;
        if adm.len() < len {
            break;
        }
        let mut worst: Option<(f64, usize)> = None;
        for i in 0..=(adm.len() - len) {
            let span = adm[i..i + len].iter().map(|e| e.1).fold(0.0, f64::max) - adm[i].0;
            if worst.map(|w| span < w.0).unwrap_or(true) {
                worst = Some((span, i));
            }
        }
        mon.eval();
        if let Some((span, i)) = worst {
            if (len as f64) > c.burst + span * c.rate + 1.0 + EPS {
                // +1: a token may be earned between a racing thread's reading and the limiter's own
                mon.violation(
                    &format!("run-over-budget/engine-hot-key/concurrent/{}", c.shape()),
                    json!({"config": c.json(), "threads": threads, "admissions_in_run": len, "run_span_hi_s": span, "budget": c.burst + span * c.rate, "run_starts_at_s": adm[i].0}),
                );
            }
        }
    }
    if mon.want_sample() && adm.len() > bu && threads >= 4 {
        mon.sample(json!({"limiter": "Engine<String> hot key", "threads": threads, "config": c.json(), "attempts": hot.len(), "admitted": adm.len(), "elapsed_hi_s": last_a - first_b,
                          "budget_burst_plus_refill": c.burst + (last_a - first_b) * c.rate}));
    }
}

// ---------------------------------------------------------------- LRU capacity

/// a key that exhausted its burst comes back after > 100 000 other keys were seen
fn engine_eviction(mon: &Monitor, rng: &mut Rng) {
    let burst = rng.range(1, 5) as u32;
    let window = Duration::from_secs(3600);
    let c = Cfg::new(burst, burst, window);
    let clk = Clock { t0: Instant::now() };
    let eng: Engine<u64> = Engine::new(EngineConfig { window, max_requests: burst, burst_size: burst });
    let victim = u64::MAX;
    let mut bk: Option<Bk> = None;
    let call = |mon: &Monitor, bk: &mut Option<Bk>, phase: &str| {
        let b = Instant::now();
        let ok = eng.try_consume_key(&victim);
        let a = Instant::now();
        let (b, a) = (clk.s(b), clk.s(a));
        let fresh = bk.is_none();
        let m = bk.get_or_insert_with(|| Bk::new(&c, b, a));
        let (must, why) = m.pre(&c, b, a);
        mon.eval();
        mon.case(("engine-key-lru", must.name(), ok, phase.to_string()));
        if ok && must == Must::Deny {
            mon.violation(
                &format!("must-deny-admitted/engine-key/{}", if phase.contains(">=100k") { "after-100k-other-keys" } else { "after-fewer-than-100k-other-keys" }),
                json!({"what": "a key that had spent its whole budget is admitted again once more than 100 000 other keys have been seen (its bucket was evicted and re-created full)",
                       "config": c.json(), "model_before_call": m.json(), "reason": why, "since_first_attempt_s": a - m.first_b, "phase": phase}),
            );
        }
        if !ok && must == Must::Admit {
            mon.violation(&format!("must-admit-denied/engine-key/{}/lru", if fresh { "fresh-key" } else { "seen-key" }), json!({"config": c.json(), "model_before_call": m.json(), "phase": phase}));
        }
        m.post(&c, b, a, if ok { Post::Admitted } else { Post::Denied });
        ok
    };
    for _ in 0..burst + 2 {
        call(mon, &mut bk, "exhaust");
    }
    let others = *rng.pick(&[99_000u64, 100_050, 130_000]);
    for k in 0..others {
        let _ = eng.try_consume_key(&k);
    }
    mon.count("engine.lru-filler-keys", others);
    for _ in 0..burst + 1 {
        call(mon, &mut bk, if others >= 100_000 { "after>=100k-other-keys" } else { "after<100k-other-keys" });
    }
}

// ---------------------------------------------------------------- JoinRateLimiter

#[derive(Clone, Copy, PartialEq, Eq, Hash, Debug)]
enum JKey {
    Global,
    S64([u8; 8]),
    S48([u8; 6]),
    S24([u8; 3]),
}
impl JKey {
    fn level(&self) -> &'static str {
        match self {
            JKey::Global => "global",
            JKey::S64(_) => "/64",
            JKey::S48(_) => "/48",
            JKey::S24(_) => "/24",
        }
    }
}

fn join_keys(ip: &IpAddr) -> Vec<JKey> {
    match ip {
        IpAddr::V6(v) => {
            let o = v.octets();
            let mut a = [0u8; 8];
            a.copy_from_slice(&o[..8]);
            let mut b = [0u8; 6];
            b.copy_from_slice(&o[..6]);
            vec![JKey::Global, JKey::S64(a), JKey::S48(b)]
        }
        IpAddr::V4(v) => {
            let o = v.octets();
            vec![JKey::Global, JKey::S24([o[0], o[1], o[2]])]
        }
    }
}

struct AddrPool {
    p48: Vec<[u8; 6]>,
    p64: Vec<[u8; 8]>,
    p24: Vec<[u8; 3]>,
}
impl AddrPool {
    fn new(rng: &mut Rng) -> AddrPool {
        let n48 = rng.urange(1, 4);
        let mut p48 = Vec::new();
        for _ in 0..n48 {
            let mut x = [0u8; 6];
            rng.fill(&mut x);
            x[0] = 0x20 | (x[0] & 0x0f);
            p48.push(x);
        }
        // two /48 that differ only in their last bit, and /64 that differ only in bit 63/64 neighbourhood
        let mut tw = p48[0];
        tw[5] ^= 1;
        p48.push(tw);
        let mut p64 = Vec::new();
        for x in &p48 {
            for _ in 0..rng.urange(1, 4) {
                let mut y = [0u8; 8];
                y[..6].copy_from_slice(x);
                y[6] = rng.below(256) as u8;
                y[7] = rng.below(4) as u8;
                p64.push(y);
            }
        }
        let mut p24 = Vec::new();
        for _ in 0..rng.urange(1, 4) {
            p24.push([rng.range(1, 223) as u8, rng.below(256) as u8, rng.below(256) as u8]);
        }
        let mut t = p24[0];
        t[2] ^= 1;
        p24.push(t);
        AddrPool { p48, p64, p24 }
    }
    fn pick(&self, rng: &mut Rng, v4_share: f64) -> IpAddr {
        if rng.chance(v4_share) {
            let p = if rng.chance(0.85) { *rng.pick(&self.p24) } else { [rng.range(1, 223) as u8, rng.below(256) as u8, rng.below(256) as u8] };
            let rnd = rng.below(256) as u8;
            let host = *rng.pick(&[0u8, 1, 2, 127, 128, 254, 255, rnd]);
            IpAddr::V4(Ipv4Addr::new(p[0], p[1], p[2], host))
        } else {
            let mut o = [0u8; 16];
            // IPv6 sources that embed an IPv4 address (::a.b.c.d and ::ffff:a.b.c.d): IPv6 addresses of one
            // /64 and one /48 like any other, whatever their low 32 bits spell
            if rng.chance(0.12) {
                let p = *rng.pick(&self.p24);
                o[12] = p[0];
                o[13] = p[1];
                o[14] = rng.below(8) as u8;
                o[15] = rng.below(4) as u8 + 1;
                if rng.chance(0.5) {
                    o[10] = 0xff;
                    o[11] = 0xff;
                }
                return IpAddr::V6(Ipv6Addr::from(o));
            }
            match rng.below(10) {
                0..=5 => o[..8].copy_from_slice(&rng.pick(&self.p64[..])[..]),
                6..=7 => {
                    // fresh /64 inside a known /48
                    o[..6].copy_from_slice(&rng.pick(&self.p48[..])[..]);
                    o[6] = rng.below(256) as u8;
                    o[7] = rng.below(256) as u8;
                }
                _ => {
                    rng.fill(&mut o[..8]);
                    o[0] = 0x20 | (o[0] & 0x0f);
                }
            }
            match rng.below(4) {
                0 => o[15] = 1,
                1 => {
                    let (_, t) = o.split_at_mut(8);
                    rng.fill(t)
                }
                2 => o[8..].copy_from_slice(&[0xff; 8]),
                _ => {}
            }
            IpAddr::V6(Ipv6Addr::from(o))
        }
    }
}

struct JoinModel {
    cg: Cfg,
    c64: Cfg,
    c48: Cfg,
    c24: Cfg,
    bk: HashMap<JKey, Bk>,
}
impl JoinModel {
    fn cfg(&self, k: &JKey) -> Cfg {
        match k {
            JKey::Global => self.cg,
            JKey::S64(_) => self.c64,
            JKey::S48(_) => self.c48,
            JKey::S24(_) => self.c24,
        }
    }
}

fn join_cfg(rng: &mut Rng) -> JoinRateLimiterConfig {
    if rng.chance(0.35) {
        return JoinRateLimiterConfig::default();
    }
    JoinRateLimiterConfig {
        max_joins_per_64_per_hour: *rng.pick(&[1u32, 1, 2, 3, 10]),
        max_joins_per_48_per_hour: *rng.pick(&[1u32, 5, 5, 8, 30]),
        max_joins_per_24_per_hour: *rng.pick(&[1u32, 3, 3, 6, 20]),
        max_global_joins_per_minute: *rng.pick(&[1u32, 10, 100, 100, 6000, 600_000, 6_000_000]),
        global_burst_size: *rng.pick(&[0u32, 1, 3, 10, 10, 50, 400]),
    }
}

fn err_level(e: &JoinRateLimitError) -> &'static str {
    match e {
        JoinRateLimitError::GlobalLimitExceeded { .. } => "global",
        JoinRateLimitError::Subnet64LimitExceeded { .. } => "/64",
        JoinRateLimitError::Subnet48LimitExceeded { .. } => "/48",
        JoinRateLimitError::Subnet24LimitExceeded { .. } => "/24",
    }
}

/// judge one join attempt given its clock bracket; shared by the sequential and the replayed-concurrent path
fn judge_join(mon: &Monitor, m: &mut JoinModel, ip: &IpAddr, b: f64, a: f64, res: &Result<(), &'static str>, threads: usize, is_default: bool) {
    let keys = join_keys(ip);
    let mut all_admit = true;
    let mut deny: Option<(&'static str, &'static str, Value, Cfg)> = None;
    let mut seen_before = false;
    let mut weakest: Option<(&'static str, Value, Cfg)> = None;
    for k in &keys {
        let c = m.cfg(k);
        let fresh = !m.bk.contains_key(k);
        // the global bucket exists since construction; subnet buckets since their first attempt
        let bk = m.bk.entry(*k).or_insert_with(|| Bk::new(&c, b, a));
        if !fresh && *k != JKey::Global {
            seen_before = true;
        }
        let (must, why) = bk.pre(&c, b, a);
        match must {
            Must::Admit => {}
            Must::Deny => {
                all_admit = false;
                if deny.is_none() {
                    deny = Some((k.level(), why, bk.json(), c));
                }
            }
            Must::Either => {
                all_admit = false;
                weakest = Some((k.level(), bk.json(), c));
            }
        }
    }
    let _ = weakest;
    let must = if deny.is_some() {
        Must::Deny
    } else if all_admit {
        Must::Admit
    } else {
        Must::Either
    };
    mon.eval();
    let ok = res.is_ok();
    let fam = if ip.is_ipv4() { "v4" } else { "v6" };
    if seen_before {
        mon.case(("join", must.name(), ok, conc_tag(threads), fam, res.err().unwrap_or("-"), deny.as_ref().map(|d| d.0).unwrap_or("-")));
    }
    match must {
        Must::Either => mon.count("skipped.undecidable-from-two-clock-readings", 1),
        Must::Admit => mon.count("judged.must-admit", 1),
        Must::Deny => mon.count("judged.must-deny", 1),
    }
    let cfgtag = if is_default { "default-config" } else { "custom-config" };
    if ok {
        if let Some((level, why, model, c)) = &deny {
            mon.violation(
                &format!("must-deny-admitted/join/{level}/{why}/{cfgtag}"),
                json!({"what": "join admitted although this prefix (or the global bucket) had no budget left", "ip": ip.to_string(), "level": level, "level_config": c.json(), "model_before_call": model, "threads": threads}),
            );
        }
    } else if must == Must::Admit {
        mon.violation(
            &format!("must-admit-denied/join/by-{}/{}/{cfgtag}", res.err().unwrap_or("?"), if seen_before { "seen-prefix" } else { "fresh-prefixes" }),
            json!({"what": "join refused although every bucket it touches surely had budget (attempts so far counted as if each had taken a token)", "ip": ip.to_string(),
                   "buckets": keys.iter().map(|k| json!({"level": k.level(), "model": m.bk[k].json()})).collect::<Vec<_>>(), "threads": threads}),
        );
    }
    for k in &keys {
        let c = m.cfg(k);
        if let Some(bk) = m.bk.get_mut(k) {
            bk.post(&c, b, a, if ok { Post::Admitted } else { Post::MaybeTaken });
        }
    }
    mon.count(if ok { "join.admitted" } else { "join.denied" }, 1);
    if let Err(l) = res {
        mon.count(&format!("join.denied-by.{l}"), 1);
    }
}

fn join_model(cfg: &JoinRateLimiterConfig, b: f64, a: f64) -> JoinModel {
    let h = Duration::from_secs(3600);
    let cg = Cfg::new(cfg.global_burst_size, cfg.max_global_joins_per_minute, Duration::from_secs(60));
    let mut m = JoinModel {
        cg,
        c64: Cfg::new(cfg.max_joins_per_64_per_hour, cfg.max_joins_per_64_per_hour, h),
        c48: Cfg::new(cfg.max_joins_per_48_per_hour, cfg.max_joins_per_48_per_hour, h),
        c24: Cfg::new(cfg.max_joins_per_24_per_hour, cfg.max_joins_per_24_per_hour, h),
        bk: HashMap::new(),
    };
    // the property gives the global budget from the start: burst + refill since construction at the latest
    m.bk.insert(JKey::Global, Bk::new(&cg, b, a));
    m
}

fn join_final_counts(mon: &Monitor, m: &JoinModel, end: f64, threads: usize, is_default: bool) {
    // the statement itself: per prefix admitted <= configured number, globally <= burst + refill
    for (k, bk) in &m.bk {
        let c = m.cfg(k);
        mon.eval();
        let bound = if *k == JKey::Global { c.burst + ((end - bk.first_b) * c.rate).ceil() } else { c.max as f64 };
        if bk.admitted as f64 > bound + EPS {
            mon.violation(
                &format!("count-over-limit/join/{}/{}/{}", k.level(), conc_tag(threads), if is_default { "default-config" } else { "custom-config" }),
                json!({"level": k.level(), "admitted": bk.admitted, "attempts": bk.attempts, "limit": bound, "level_config": c.json(), "elapsed_hi_s": end - bk.first_b}),
            );
        }
    }
}

fn join_sequential(mon: &Monitor, rng: &mut Rng) {
    let cfg = join_cfg(rng);
    let is_default = cfg.max_global_joins_per_minute == 100 && cfg.global_burst_size == 10 && cfg.max_joins_per_64_per_hour == 1 && cfg.max_joins_per_48_per_hour == 5 && cfg.max_joins_per_24_per_hour == 3;
    let clk = Clock { t0: Instant::now() };
    let b0 = Instant::now();
    let lim = JoinRateLimiter::new(cfg.clone());
    let a0 = Instant::now();
    let mut m = join_model(&cfg, clk.s(b0), clk.s(a0));
    let pool = AddrPool::new(rng);
    let v4 = *rng.pick(&[0.0, 0.3, 0.5, 1.0]);
    let n = rng.urange(5, mon.by_tier(120, 260));
    let mut log = Vec::new();
    for _ in 0..n {
        let ip = pool.pick(rng, v4);
        if rng.chance(0.05) {
            pause(rng, &m.cg);
        }
        let b = Instant::now();
        let r = lim.check_join_allowed(&ip);
        let a = Instant::now();
        let res = r.as_ref().map(|_| ()).map_err(err_level);
        judge_join(mon, &mut m, &ip, clk.s(b), clk.s(a), &res, 1, is_default);
        if log.len() < 30 {
            log.push(format!("{ip} -> {}", match &res {
                Ok(()) => "ok".to_string(),
                Err(l) => format!("denied by {l}"),
            }));
        }
    }
    let end = clk.s(Instant::now());
    join_final_counts(mon, &m, end, 1, is_default);
    if mon.want_sample() && n > 40 && is_default {
        mon.sample(json!({"limiter": "JoinRateLimiter (default config)", "attempts": n, "first_attempts": log}));
    }
}

fn join_concurrent(mon: &Monitor, rng: &mut Rng) {
    let cfg = join_cfg(rng);
    let is_default = cfg.max_global_joins_per_minute == 100 && cfg.global_burst_size == 10 && cfg.max_joins_per_64_per_hour == 1 && cfg.max_joins_per_48_per_hour == 5 && cfg.max_joins_per_24_per_hour == 3;
    let threads = *rng.pick(&[2usize, 3, 4, 8, 16]);
    let clk = Clock { t0: Instant::now() };
    let b0 = Instant::now();
    let lim = JoinRateLimiter::new(cfg.clone());
    let a0 = Instant::now();
    let pool = AddrPool::new(rng);
    let v4 = *rng.pick(&[0.0, 0.4, 1.0]);
    let per = rng.urange(5, 60);
    let plans: Vec<Vec<IpAddr>> = (0..threads).map(|_| (0..per).map(|_| pool.pick(rng, v4)).collect()).collect();
    let logs: Vec<Vec<(IpAddr, f64, f64, Result<(), &'static str>)>> = std::thread::scope(|s| {
        let hs: Vec<_> = plans
            .iter()
            .map(|plan| {
                let lim = &lim;
                let clk = &clk;
                s.spawn(move || {
                    plan.iter()
                        .map(|ip| {
                            let b = Instant::now();
                            let r = lim.check_join_allowed(ip);
                            let a = Instant::now();
                            (*ip, clk.s(b), clk.s(a), r.map_err(|e| err_level(&e)))
                        })
                        .collect::<Vec<_>>()
                })
            })
            .collect();
        hs.into_iter().map(|h| h.join().unwrap_or_default()).collect()
    });
    let end = clk.s(Instant::now());
    // order unknown: only the counts the statement speaks of are judged
    let mut m = join_model(&cfg, clk.s(b0), clk.s(a0));
    let mut attempts_per: HashMap<JKey, u64> = HashMap::new();
    for (ip, b, a, res) in logs.iter().flatten() {
        for k in join_keys(ip) {
            let c = m.cfg(&k);
            let bk = m.bk.entry(k).or_insert_with(|| Bk::new(&c, *b, *a));
            bk.attempts += 1;
            bk.first_b = bk.first_b.min(*b);
            if res.is_ok() {
                bk.admitted += 1;
            }
            *attempts_per.entry(k).or_insert(0) += 1;
        }
        mon.count(if res.is_ok() { "join.admitted" } else { "join.denied" }, 1);
    }
    for (k, bk) in &m.bk {
        if bk.attempts >= 2 {
            mon.case(("join-concurrent", k.level(), threads, bk.admitted >= m.cfg(k).max as u64, is_default));
        }
    }
    join_final_counts(mon, &m, end, threads, is_default);
    // an address whose prefixes nobody else used, while the global bucket cannot have run dry, must get in
    let total = logs.iter().flatten().count() as f64;
    for (ip, _b, _a, res) in logs.iter().flatten() {
        let ks = join_keys(ip);
        let alone = ks.iter().filter(|k| **k != JKey::Global).all(|k| attempts_per[k] == 1);
        if alone && total <= m.cg.burst.min(m.cg.max as f64) && ks.iter().all(|k| m.cfg(k).max >= 1 && m.cfg(k).burst >= 1.0) {
            mon.eval();
            if let Err(l) = res {
                mon.violation(&format!("must-admit-denied/join/by-{l}/fresh-prefixes/concurrent"), json!({"ip": ip.to_string(), "threads": threads, "total_attempts": total, "global": m.cg.json()}));
            }
        }
    }
}

// ---------------------------------------------------------------- validation::RateLimiter (per-IP limiter of the accept loop)

fn check_ip_scenario(mon: &Monitor, rng: &mut Rng) {
    let default = rng.chance(0.3);
    let (burst, max, window) = if default { (100, 1000, Duration::from_secs(60)) } else { random_cfg(rng) };
    let c = Cfg::new(burst, max, window);
    let clk = Clock { t0: Instant::now() };
    let lim = if default { RateLimiter::new(RateLimitConfig::default()) } else { RateLimiter::new(RateLimitConfig { window, max_requests: max, burst_size: burst, ..Default::default() }) };
    let nips = rng.urange(2, 8);
    let ips: Vec<IpAddr> = (0..nips)
        .map(|i| if rng.chance(0.5) { IpAddr::V4(Ipv4Addr::new(10, 0, (i / 200) as u8, (i % 200) as u8 + 1)) } else { IpAddr::V6(Ipv6Addr::new(0x2001, 0xdb8, rng.below(4) as u16, 0, 0, 0, 0, i as u16 + 1)) })
        .collect();
    // per address: its own bucket, and `share` = a private copy of the shared bucket charged by every
    // attempt of this address only (what the shared bucket would hold if nobody else existed, at worst)
    let mut keys: HashMap<IpAddr, Bk> = HashMap::new();
    let mut share: HashMap<IpAddr, Bk> = HashMap::new();
    let n = rng.urange(10, mon.by_tier(500, 1200));
    // one address does most of the talking; the others show up now and then, some only late
    let late_from = rng.urange(0, n);
    let cfgtag = if default { "default-config" } else { "custom-config" };
    for i in 0..n {
        let ip = if rng.chance(0.75) || i < late_from { ips[0] } else { *rng.pick(&ips[1..]) };
        if rng.chance(0.04) {
            pause(rng, &c);
        }
        let b = Instant::now();
        let r = lim.check_ip(&ip);
        let a = Instant::now();
        let (b, a) = (clk.s(b), clk.s(a));
        let ok = r.is_ok();
        let by_global = match &r {
            Err(e) => e.to_string().contains("global"),
            Ok(()) => false,
        };
        mon.count(if ok { "check_ip.admitted" } else if by_global { "check_ip.denied-by-global" } else { "check_ip.denied-by-ip" }, 1);
        let fresh = !keys.contains_key(&ip);
        let others: Vec<String> = keys.iter().filter(|(k, v)| **k != ip && v.attempts > 0).map(|(k, v)| format!("{k}: {}/{}", v.admitted, v.attempts)).collect();
        let bk = keys.entry(ip).or_insert_with(|| Bk::new(&c, b, a));
        let sh = share.entry(ip).or_insert_with(|| Bk::new(&c, b, a));
        let (must, why) = bk.pre(&c, b, a);
        let (must_sh, _) = sh.pre(&c, b, a);
        mon.eval();
        if !fresh {
            mon.case(("check_ip", must.name(), must_sh.name(), ok, by_global, c.shape(), !others.is_empty()));
        }
        match must {
            Must::Either => mon.count("skipped.undecidable-from-two-clock-readings", 1),
            Must::Admit => mon.count("judged.must-admit", 1),
            Must::Deny => mon.count("judged.must-deny", 1),
        }
        if ok && must == Must::Deny {
            mon.violation(&format!("must-deny-admitted/check_ip/{why}/{}", c.shape()), json!({"ip": ip.to_string(), "config": c.json(), "model_before_call": bk.json()}));
        }
        if !ok && must == Must::Admit {
            if !by_global {
                mon.violation(&format!("must-admit-denied/check_ip/by-own-bucket/{cfgtag}"), json!({"ip": ip.to_string(), "config": c.json(), "own_model_before_call": bk.json()}));
            } else if must_sh == Must::Admit && !others.is_empty() {
                // all traffic of this address so far fits in one bucket of this size, so the refusal is
                // caused by what OTHER addresses sent
                mon.violation(
                    &format!("cross-key/check_ip/refused-for-other-addresses-traffic/{cfgtag}"),
                    json!({"what": "an address whose own traffic is within one bucket's budget is refused because other addresses emptied the shared bucket (it has the same size as a single address' bucket)",
                           "ip": ip.to_string(), "first_attempt_of_this_ip": fresh, "config": c.json(), "own_bucket_model": bk.json(), "shared_bucket_if_alone_model": sh.json(), "other_ips(admitted/attempts)": others}),
                );
            } else {
                mon.count("skipped.shared-bucket-refusal-explainable-by-own-traffic", 1);
            }
        }
        // a refusal may have happened before or after the address' own bucket was charged
        bk.post(&c, b, a, if ok { Post::Admitted } else if by_global { Post::MaybeTaken } else { Post::Denied });
        sh.post(&c, b, a, if ok { Post::Admitted } else { Post::MaybeTaken });
    }
    let end = clk.s(Instant::now());
    for bk in keys.values() {
        // upper bounds only (the lower one is what the cross-key rule is about)
        mon.eval();
        let span = end - bk.first_b;
        if bk.admitted as f64 > c.burst + (span * c.rate).ceil() + EPS || (span < c.window - TEPS && bk.admitted > c.max as u64) {
            mon.violation(&format!("aggregate-over-budget/check_ip/sequential/{}", c.shape()), json!({"config": c.json(), "admitted": bk.admitted, "elapsed_hi_s": span}));
        }
    }
    if mon.want_sample() && default && keys.len() >= 2 {
        mon.sample(json!({"limiter": "validation::RateLimiter (default config)", "attempts": n, "per_ip(admitted/attempts)": keys.iter().map(|(k, v)| format!("{k}: {}/{}", v.admitted, v.attempts)).collect::<Vec<_>>()}));
    }
}

fn main() {
    let mon = Monitor::new("C14", "exploration");
    mon.set_rule("case = one attempt on one limiter (Engine key/global, JoinRateLimiter, validation::RateLimiter::check_ip); non-trivial when the key/prefix/address was seen before; distinct by (limiter, must-admit/must-deny/undecidable, outcome, sequential/concurrent, config shape, refusing level or reason); concurrent hot keys and join prefixes are additionally judged on counts per time span");
    mon.assume("Instant::now() read immediately before and after a call brackets the limiter's own reading; verdicts that depend on where inside the bracket it fell are skipped and counted");
    mon.assume("window = 0 (infinite rate) is not generated; token comparisons carry 1e-6 tolerance for the limiter's f64 accumulation");
    mon.assume("TransportHandle built through the verif seam uses a disabled limiter (u32::MAX/4), so the accept-loop limiter is exercised as validation::RateLimiter with the production default and random configs");
    let rounds = mon.by_tier(180u64, 520);
    vkit::run_shards(mon.shards(), mon.seed, |i, mut rng| {
        for k in 0..rounds {
            if mon.time_up() {
                break;
            }
            for _ in 0..4 {
                engine_sequential(&mon, &mut rng);
            }
            engine_concurrent(&mon, &mut rng);
            for _ in 0..6 {
                join_sequential(&mon, &mut rng);
            }
            join_concurrent(&mon, &mut rng);
            for _ in 0..3 {
                check_ip_scenario(&mon, &mut rng);
            }
            if k % 64 == (i as u64 % 64) && k < 640 {
                engine_eviction(&mon, &mut rng);
            }
            mon.count("rounds", 1);
        }
    });
    mon.finish();
}
