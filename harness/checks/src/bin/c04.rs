//! C04 — replies reach only the matching request from the contacted peer; no leaks.
//! Three pending tables, one adversary: (A) DHT RPC in DhtNetworkManager, (B) /rr/
//! request-response in TransportHandle, (C) DhtCoreEngine::retrieve. Every reply frame
//! carries a unique token, so each request's outcome identifies the frame that completed it.

use memnet::*;
use saorsa_core::dht::core_engine::{DhtCoreEngine, DhtKey, DhtRequestWrapper, DhtResponseWrapper, NodeCapacity, NodeId, NodeInfo};
use saorsa_core::dht::network_integration::DhtResponse;
use saorsa_core::dht_network_manager::{DHTNode, DhtMessageType, DhtNetworkOperation, DhtNetworkResult};
use saorsa_core::network::{NetworkSender, P2PEvent};
use saorsa_core::transport_handle::TransportHandle;
use saorsa_core::verif_hooks;
use serde_json::json;
use std::collections::{HashMap, HashSet};
use std::sync::Arc;
use std::time::Duration;
use vkit::{Monitor, Rng};

const REQ_TO: Duration = Duration::from_secs(2);

#[derive(Clone, Copy, Debug, PartialEq, Eq, Hash)]
enum Act {
    Right,       // right id, right sender
    WrongSender, // right id, another connected peer
    Stranger,    // right id, a sender that is not connected at all
    UnknownId,   // fresh random id, right sender
    ReplayOther, // id of another (possibly finished) request, right sender of THIS request
    NoResult,    // (A only) Response envelope with result None
    AsRequest,   // (B only) same id but is_response=false: must surface as an event, never complete
}

#[derive(Clone, Debug)]
struct Planned {
    at: Duration, // virtual time after issue
    act: Act,
    token: String,
}

#[derive(Debug, Clone, PartialEq)]
enum Outcome {
    Reply(String),
    Timeout,
    SendError(String),
    Cancelled,
    OtherErr(String),
    Pending,
}

fn plan_for(rng: &mut Rng, table: char, tok: &mut u64) -> (Vec<Planned>, Option<Duration>) {
    // tokio's timer wheel has 1 ms resolution: two events inside the same millisecond may fire in
    // either order. Every event of a request (frames, cancellation) therefore sits on its own
    // multiple of 4 ms, and nothing is placed within 12 ms of the request timeout (2000 ms).
    let mut v = Vec::new();
    let n = rng.urange(0, 5);
    let mut used: HashSet<u64> = HashSet::new();
    let mut slot = |rng: &mut Rng, lo: u64, hi: u64| -> u64 {
        loop {
            let k = rng.range(lo / 4, hi / 4);
            let ms = k * 4;
            if (ms as i64 - 2000).abs() < 12 || !used.insert(k) {
                continue;
            }
            return ms;
        }
    };
    for _ in 0..n {
        let act = match rng.below(10) {
            0..=3 => Act::Right,
            4 => Act::WrongSender,
            5 => Act::Stranger,
            6 => Act::UnknownId,
            7 => Act::ReplayOther,
            8 => {
                if table == 'A' {
                    Act::NoResult
                } else if table == 'B' {
                    Act::AsRequest
                } else {
                    Act::UnknownId
                }
            }
            _ => Act::Right,
        };
        let ms = if rng.chance(0.8) { slot(rng, 4, 1900) } else { slot(rng, 2100, 2900) };
        *tok += 1;
        v.push(Planned { at: Duration::from_millis(ms), act, token: format!("tok-{table}-{}", *tok) });
    }
    v.sort_by_key(|p| p.at);
    let cancel = if rng.chance(0.2) { Some(Duration::from_millis(slot(rng, 4, 2500))) } else { None };
    (v, cancel)
}

/// what the property demands for this plan
fn expected(plan: &[Planned], cancel: Option<Duration>, timeout: Duration) -> Outcome {
    let first_right = plan.iter().find(|p| p.act == Act::Right && p.at < timeout);
    match (first_right, cancel) {
        (Some(p), Some(c)) if p.at < c => Outcome::Reply(p.token.clone()),
        (Some(_), Some(_)) => Outcome::Cancelled,
        (Some(p), None) => Outcome::Reply(p.token.clone()),
        (None, Some(c)) if c < timeout => Outcome::Cancelled,
        (None, _) => Outcome::Timeout,
    }
}

fn judge(mon: &Monitor, table: &str, plan: &[Planned], cancel: Option<Duration>, got: &Outcome, exp: &Outcome, all_tokens: &HashMap<String, (usize, Act)>, me: usize, ctx: serde_json::Value) {
    mon.eval();
    let adversarial = plan.iter().any(|p| p.act != Act::Right) || cancel.is_some() || plan.iter().filter(|p| p.act == Act::Right).count() > 1;
    if adversarial {
        let mut acts: Vec<_> = plan.iter().map(|p| format!("{:?}", p.act)).collect();
        acts.dedup();
        mon.case((table.to_string(), acts, cancel.is_some(), std::mem::discriminant(got)));
    }
    let oc = match got {
        Outcome::Reply(_) => "reply",
        Outcome::Timeout => "timeout",
        Outcome::SendError(_) => "send-error",
        Outcome::Cancelled => "cancelled",
        Outcome::OtherErr(_) => "other-error",
        Outcome::Pending => "pending",
    };
    mon.count(&format!("{table}.outcome.{oc}"), 1);
    if adversarial && mon.want_sample() {
        mon.sample(json!({"table": table, "plan": plan.iter().map(|p| format!("{:?}@{}us token={}", p.act, p.at.as_micros(), p.token)).collect::<Vec<_>>(),
            "cancel_us": cancel.map(|c| c.as_micros() as u64), "observed": format!("{got:?}"), "expected": format!("{exp:?}")}));
    }
    if got == exp {
        return;
    }
    // a cancellation racing a reply at the same instant cannot happen (distinct instants), so any difference is real
    let sig = match (got, exp) {
        (Outcome::Reply(t), _) => match all_tokens.get(t) {
            Some((owner, act)) if *owner == me => match act {
                Act::Right => format!("{table}/completed-by-a-later-copy-or-after-deadline"),
                a => format!("{table}/completed-by-{a:?}-frame"),
            },
            Some((_, _)) => format!("{table}/completed-by-frame-meant-for-another-request"),
            None => format!("{table}/completed-by-unknown-bytes"),
        },
        (Outcome::Timeout, Outcome::Reply(_)) => format!("{table}/matching-reply-not-delivered"),
        (Outcome::Pending, _) => format!("{table}/request-never-completed"),
        (Outcome::OtherErr(_), Outcome::Reply(_)) => format!("{table}/matching-reply-turned-into-error"),
        (Outcome::OtherErr(_), Outcome::Timeout) => format!("{table}/error-instead-of-timeout"),
        (g, e) => format!("{table}/outcome-{}-expected-{}", name(g), name(e)),
    };
    mon.violation(&sig, json!({"table": table, "plan": plan.iter().map(|p| format!("{:?}@{}us", p.act, p.at.as_micros())).collect::<Vec<_>>(), "cancel_us": cancel.map(|c| c.as_micros() as u64), "got": format!("{got:?}"), "expected": format!("{exp:?}"), "ctx": ctx}));
}
fn name(o: &Outcome) -> &'static str {
    match o {
        Outcome::Reply(_) => "reply",
        Outcome::Timeout => "timeout",
        Outcome::SendError(_) => "send-error",
        Outcome::Cancelled => "cancelled",
        Outcome::OtherErr(_) => "other-error",
        Outcome::Pending => "pending",
    }
}

struct Pup {
    tid: [u8; 32],
    hex: String,
    rx: tokio::sync::mpsc::UnboundedReceiver<(String, Vec<u8>)>,
}

async fn setup(rng: &mut Rng, npup: usize) -> Option<(Arc<Hub>, SimNode, Vec<Pup>)> {
    let hub = Hub::new(rng.next_u64());
    let cfg = NodeCfg { request_timeout: REQ_TO, connection_timeout: Duration::from_secs(1), ..Default::default() };
    let x = spawn_node(&hub, rng.arr32(), sim_addr(0), &cfg).await.ok()?;
    let mut pups = Vec::new();
    for j in 0..npup {
        let tid = rng.arr32();
        let addr = sim_addr(1 + j);
        let rx = hub.register_puppet(tid, addr);
        x.mgr.connect_to_peer(&addr.to_string()).await.ok()?;
        pups.push(Pup { tid, hex: hex::encode(tid), rx });
    }
    settle(Duration::from_millis(10)).await;
    Some((hub, x, pups))
}

// ------------------------------------------------------------------ table A
async fn table_a(mon: &Monitor, rng: &mut Rng, tok: &mut u64) {
    let npup = rng.urange(2, 4);
    let Some((hub, x, mut pups)) = setup(rng, npup).await else {
        mon.inconclusive("setup failed");
        return;
    };
    let nreq = rng.urange(1, mon.by_tier(24, 60));
    // a congested link: putting a frame on the wire takes virtual time, so a caller can give up mid-send
    let stall = if rng.chance(0.35) { Duration::from_millis(40) } else { Duration::ZERO };
    hub.set_fault(&x.tid_hex, FaultPlan { send_stall: stall, ..Default::default() });
    let mut keys = Vec::new();
    let mut handles = Vec::new();
    let mut targets = Vec::new();
    let mut cancelled_in_send = 0usize;
    for i in 0..nreq {
        let key = rng.arr32();
        let p = rng.usize_below(npup);
        keys.push(key);
        targets.push(p);
        let mgr = x.mgr.clone();
        let peer = pups[p].hex.clone();
        let op = if i % 3 == 0 { DhtNetworkOperation::FindValue { key } } else { DhtNetworkOperation::FindNode { key } };
        let h = tokio::spawn(async move { mgr.send_request(&peer, op).await });
        if !stall.is_zero() && rng.chance(0.3) {
            let ah = h.abort_handle();
            let at = Duration::from_millis(rng.range(1, 36));
            cancelled_in_send += 1;
            tokio::spawn(async move {
                tokio::time::sleep(at).await;
                ah.abort();
            });
        }
        handles.push(h);
    }
    // let the request frames reach the puppets' inboxes
    tokio::time::sleep(stall).await;
    for _ in 0..20 {
        tokio::task::yield_now().await;
    }
    mon.count("A.cancelled_during_send", cancelled_in_send as u64);
    let issue_t = hub.now();
    let mut ids: HashMap<[u8; 32], (String, DhtNetworkOperation, String)> = HashMap::new(); // key -> (msg id, payload, source)
    for p in pups.iter_mut() {
        while let Ok((_from, frame)) = p.rx.try_recv() {
            if let (_, _, Some(m)) = summarize(&frame) {
                if let (_, Some(k)) = op_name(&m.payload) {
                    ids.insert(k, (m.message_id.clone(), m.payload.clone(), m.source.clone()));
                }
            }
        }
    }
    mon.count("A.requests_issued", nreq as u64);
    mon.count("A.request_frames_seen", ids.len() as u64);
    // plans
    let mut plans = Vec::new();
    let mut all_tokens: HashMap<String, (usize, Act)> = HashMap::new();
    let stranger = rng.arr32();
    for i in 0..nreq {
        let (plan, cancel) = plan_for(rng, 'A', tok);
        for pl in &plan {
            all_tokens.insert(pl.token.clone(), (i, pl.act));
        }
        plans.push((plan, cancel));
    }
    for i in 0..nreq {
        let Some((mid, payload, source)) = ids.get(&keys[i]).cloned() else { continue };
        let right = &pups[targets[i]];
        for pl in &plans[i].0 {
            let (sender_tid, sender_hex, id) = match pl.act {
                Act::Right | Act::NoResult => (right.tid, right.hex.clone(), mid.clone()),
                Act::WrongSender => {
                    let q = &pups[(targets[i] + 1) % npup];
                    (q.tid, q.hex.clone(), mid.clone())
                }
                Act::Stranger => (stranger, hex::encode(stranger), mid.clone()),
                Act::UnknownId => (right.tid, right.hex.clone(), format!("{:032x}", rng.next_u64())),
                Act::ReplayOther => {
                    let j = rng.usize_below(nreq);
                    match ids.get(&keys[j]) {
                        Some((other, _, _)) if j != i && targets[j] != targets[i] => (right.tid, right.hex.clone(), other.clone()),
                        _ => (right.tid, right.hex.clone(), format!("{:032x}", rng.next_u64())),
                    }
                }
                Act::AsRequest => continue,
            };
            let result = if pl.act == Act::NoResult {
                None
            } else {
                Some(DhtNetworkResult::NodesFound {
                    key: keys[i],
                    nodes: vec![DHTNode { peer_id: pl.token.clone(), address: String::new(), distance: None, reliability: 1.0, cached_dht_key: None }],
                })
            };
            // the strongest impostor names the contacted peer inside the payload (message source and
            // wire 'from'); only the authenticated connection it arrives on gives it away
            let claimed_hex = if matches!(pl.act, Act::WrongSender | Act::Stranger) && rng.chance(0.5) {
                mon.count("A.adversarial.claims-contacted-peer-in-payload", 1);
                right.hex.clone()
            } else {
                sender_hex.clone()
            };
            let frame = dht_response_frame(&claimed_hex, &id, &source, payload.clone(), result, DhtMessageType::Response);
            mon.count(&format!("A.adversarial.{:?}", pl.act), 1);
            hub.inject(sender_tid, &x.tid_hex, frame, pl.at);
        }
        if let Some(c) = plans[i].1 {
            let h = handles[i].abort_handle();
            tokio::spawn(async move {
                tokio::time::sleep(c).await;
                h.abort();
            });
        }
    }
    // run past every deadline
    tokio::time::sleep(Duration::from_secs(4)).await;
    for _ in 0..20 {
        tokio::task::yield_now().await;
    }
    let mut any_cancel = false;
    let mut seen_tokens: HashMap<String, usize> = HashMap::new();
    for (i, h) in handles.into_iter().enumerate() {
        let got = if !h.is_finished() {
            h.abort();
            Outcome::Pending
        } else {
            match h.await {
                Err(e) if e.is_cancelled() => Outcome::Cancelled,
                Err(e) => Outcome::OtherErr(format!("join: {e}")),
                Ok(Ok(DhtNetworkResult::NodesFound { nodes, .. })) => Outcome::Reply(nodes.first().map(|n| n.peer_id.clone()).unwrap_or_default()),
                Ok(Ok(other)) => Outcome::OtherErr(format!("variant {}", result_name(&other))),
                Ok(Err(e)) => {
                    let s = e.to_string();
                    if s.to_lowercase().contains("timeout") || s.to_lowercase().contains("timed out") {
                        Outcome::Timeout
                    } else {
                        Outcome::OtherErr(s)
                    }
                }
            }
        };
        if !ids.contains_key(&keys[i]) {
            mon.count("A.skipped.request-frame-not-observed", 1);
            continue;
        }
        if plans[i].1.is_some() {
            any_cancel = true;
        }
        let exp = expected(&plans[i].0, plans[i].1, REQ_TO);
        if let Outcome::Reply(t) = &got {
            if let Some(prev) = seen_tokens.insert(t.clone(), i) {
                mon.violation("A/one-frame-completed-two-requests", json!({"token": t, "requests": [prev, i]}));
            }
        }
        judge(mon, "A", &plans[i].0, plans[i].1, &got, &exp, &all_tokens, i, json!({"issued_at_ms": issue_t.as_millis() as u64, "nreq": nreq, "npup": npup}));
    }
    let left = x.mgr.verif_active_operations_len();
    mon.eval();
    if !any_cancel && cancelled_in_send == 0 {
        mon.case(("A-leak", nreq.min(8), left));
        if left != 0 {
            mon.violation("A/pending-entry-survives-completed-requests", json!({"left": left, "nreq": nreq}));
        }
    } else {
        // entries of dropped futures are aged with the real clock (std Instant); judged in the real-time lane
        mon.count("A.skipped.leak-after-cancellation-under-paused-clock", 1);
    }
    let _ = tokio::time::timeout(Duration::from_secs(60), x.mgr.stop()).await;
    let _ = x.transport.stop().await;
}

// ------------------------------------------------------------------ table B
async fn table_b(mon: &Monitor, rng: &mut Rng, tok: &mut u64) {
    let npup = rng.urange(2, 4);
    let Some((hub, x, mut pups)) = setup(rng, npup).await else {
        mon.inconclusive("setup failed");
        return;
    };
    let mut events = x.transport.subscribe_events();
    let flood = rng.chance(0.25);
    let nreq = if flood { rng.urange(257, mon.by_tier(300, 400)) } else { rng.urange(1, mon.by_tier(30, 80)) };
    let to = REQ_TO;
    let stall = if !flood && rng.chance(0.35) { Duration::from_millis(40) } else { Duration::ZERO };
    hub.set_fault(&x.tid_hex, FaultPlan { send_stall: stall, ..Default::default() });
    let mut handles = Vec::new();
    let mut targets = Vec::new();
    let mut max_len = 0usize;
    let mut cancelled_in_send = 0usize;
    for i in 0..nreq {
        let p = rng.usize_below(npup);
        targets.push(p);
        let t = x.transport.clone();
        let peer = pups[p].hex.clone();
        let payload = format!("req-{i}").into_bytes();
        let h = tokio::spawn(async move { t.send_request(&peer, "p", payload, to).await });
        if !stall.is_zero() && rng.chance(0.3) {
            let ah = h.abort_handle();
            let at = Duration::from_millis(rng.range(1, 36));
            cancelled_in_send += 1;
            tokio::spawn(async move {
                tokio::time::sleep(at).await;
                ah.abort();
            });
        }
        handles.push(h);
        if i % 16 == 0 {
            tokio::task::yield_now().await;
            max_len = max_len.max(x.transport.verif_active_requests_len().await);
        }
    }
    tokio::time::sleep(stall).await;
    mon.count("B.cancelled_during_send", cancelled_in_send as u64);
    for _ in 0..40 {
        tokio::task::yield_now().await;
        max_len = max_len.max(x.transport.verif_active_requests_len().await);
    }
    mon.eval();
    mon.case(("B-cap", flood, max_len.min(300)));
    if max_len > 256 {
        mon.violation("B/more-than-256-simultaneously-pending", json!({"observed": max_len, "issued": nreq}));
    }
    // request frames seen by the puppets: payload -> message id
    let mut ids: HashMap<usize, String> = HashMap::new();
    for p in pups.iter_mut() {
        while let Ok((_from, frame)) = p.rx.try_recv() {
            if let Some((proto, data, _f, _ts)) = verif_hooks::decode_wire_message(&frame) {
                if proto == "/rr/p" {
                    if let Some((mid, false, payload)) = TransportHandle::parse_request_envelope(&data) {
                        if let Some(i) = String::from_utf8_lossy(&payload).strip_prefix("req-").and_then(|s| s.parse::<usize>().ok()) {
                            ids.insert(i, mid);
                        }
                    }
                }
            }
        }
    }
    mon.count("B.requests_issued", nreq as u64);
    mon.count("B.request_frames_seen", ids.len() as u64);
    let mut plans = Vec::new();
    let mut all_tokens: HashMap<String, (usize, Act)> = HashMap::new();
    let stranger = rng.arr32();
    for i in 0..nreq {
        let (plan, cancel) = plan_for(rng, 'B', tok);
        for pl in &plan {
            all_tokens.insert(pl.token.clone(), (i, pl.act));
        }
        plans.push((plan, cancel));
    }
    let mut as_request_tokens: HashSet<String> = HashSet::new();
    for i in 0..nreq {
        let Some(mid) = ids.get(&i).cloned() else { continue };
        let right = &pups[targets[i]];
        for pl in &plans[i].0 {
            let (sender_tid, sender_hex, id, is_resp) = match pl.act {
                Act::Right => (right.tid, right.hex.clone(), mid.clone(), true),
                Act::WrongSender => {
                    let q = &pups[(targets[i] + 1) % npup];
                    (q.tid, q.hex.clone(), mid.clone(), true)
                }
                Act::Stranger => (stranger, hex::encode(stranger), mid.clone(), true),
                Act::UnknownId => (right.tid, right.hex.clone(), format!("{:032x}", rng.next_u64()), true),
                Act::ReplayOther => {
                    let j = rng.usize_below(nreq);
                    match ids.get(&j) {
                        Some(other) if j != i && targets[j] != targets[i] => (right.tid, right.hex.clone(), other.clone(), true),
                        _ => (right.tid, right.hex.clone(), format!("{:032x}", rng.next_u64()), true),
                    }
                }
                Act::AsRequest => {
                    as_request_tokens.insert(pl.token.clone());
                    (right.tid, right.hex.clone(), mid.clone(), false)
                }
                Act::NoResult => continue,
            };
            let env = verif_hooks::encode_rr_envelope(&id, is_resp, pl.token.clone().into_bytes()).unwrap_or_default();
            // the payload claims to be from somebody else: the claimed `from` must be irrelevant
            let frame = verif_hooks::encode_wire_message("/rr/p", env, &right.hex, now_secs()).unwrap_or_default();
            let _ = sender_hex;
            mon.count(&format!("B.adversarial.{:?}", pl.act), 1);
            hub.inject(sender_tid, &x.tid_hex, frame, pl.at);
        }
        if let Some(c) = plans[i].1 {
            let h = handles[i].abort_handle();
            tokio::spawn(async move {
                tokio::time::sleep(c).await;
                h.abort();
            });
        }
    }
    tokio::time::sleep(Duration::from_secs(4)).await;
    for _ in 0..20 {
        tokio::task::yield_now().await;
    }
    let mut too_many = 0usize;
    let mut seen_tokens: HashMap<String, usize> = HashMap::new();
    for (i, h) in handles.into_iter().enumerate() {
        let got = if !h.is_finished() {
            h.abort();
            Outcome::Pending
        } else {
            match h.await {
                Err(e) if e.is_cancelled() => Outcome::Cancelled,
                Err(e) => Outcome::OtherErr(format!("join: {e}")),
                Ok(Ok(resp)) => Outcome::Reply(String::from_utf8_lossy(&resp.data).to_string()),
                Ok(Err(e)) => {
                    let s = e.to_string();
                    if s.contains("timed out") {
                        Outcome::Timeout
                    } else if s.contains("Too many active requests") {
                        too_many += 1;
                        Outcome::SendError(s)
                    } else {
                        Outcome::OtherErr(s)
                    }
                }
            }
        };
        if matches!(got, Outcome::SendError(_)) {
            // refused at the cap before anything was sent: no frame may exist for it
            mon.eval();
            if ids.contains_key(&i) {
                mon.violation("B/refused-at-cap-but-request-frame-was-sent", json!({"i": i}));
            }
            continue;
        }
        if !ids.contains_key(&i) {
            mon.count("B.skipped.request-frame-not-observed", 1);
            continue;
        }
        let exp = expected(&plans[i].0, plans[i].1, to);
        if let Outcome::Reply(t) = &got {
            if let Some(prev) = seen_tokens.insert(t.clone(), i) {
                mon.violation("B/one-frame-completed-two-requests", json!({"token": t, "requests": [prev, i]}));
            }
        }
        judge(mon, "B", &plans[i].0, plans[i].1, &got, &exp, &all_tokens, i, json!({"nreq": nreq, "npup": npup, "flood": flood}));
    }
    mon.count("B.refused_at_cap", too_many as u64);
    if flood {
        mon.eval();
        // with more than 256 issued at once, exactly the excess must have been refused
        let admitted = ids.len();
        if admitted > 256 {
            mon.violation("B/more-than-256-admitted-at-once", json!({"admitted": admitted}));
        }
        if admitted + too_many != nreq {
            mon.count("B.note.flood-accounting-mismatch", 1);
        }
    }
    // events: responses (matched or not) never surface; AsRequest frames must surface with the connection's id
    let mut surfaced_resp = 0usize;
    let mut surfaced_req: HashSet<String> = HashSet::new();
    while let Ok(ev) = events.try_recv() {
        if let P2PEvent::Message { topic, source, data } = ev {
            if topic == "/rr/p" {
                if let Some((_mid, is_resp, payload)) = TransportHandle::parse_request_envelope(&data) {
                    let t = String::from_utf8_lossy(&payload).to_string();
                    if is_resp {
                        surfaced_resp += 1;
                        let _ = source;
                    } else {
                        surfaced_req.insert(t);
                    }
                }
            }
        }
    }
    mon.eval();
    if surfaced_resp > 0 {
        mon.violation("B/response-envelope-broadcast-as-event", json!({"count": surfaced_resp}));
    }
    if nreq <= 80 {
        // (the event channel holds 4096 entries; small runs cannot have lagged)
        for t in &as_request_tokens {
            let (i, _) = all_tokens[t];
            if ids.contains_key(&i) && !surfaced_req.contains(t) {
                mon.violation("B/request-envelope-not-surfaced", json!({"token": t}));
                break;
            }
        }
    }
    let left = x.transport.verif_active_requests_len().await;
    mon.eval();
    let cancelled = plans.iter().filter(|p| p.1.is_some()).count();
    mon.case(("B-leak", cancelled.min(4), cancelled_in_send.min(4), left.min(4)));
    if left != 0 {
        let f = if cancelled_in_send > 0 { "after-future-dropped-during-send" } else if cancelled > 0 { "after-dropped-future" } else { "after-completed-requests" };
        mon.violation(&format!("B/pending-entry-survives/{f}"), json!({"left": left, "cancelled": cancelled, "nreq": nreq}));
    }
    let _ = tokio::time::timeout(Duration::from_secs(60), x.mgr.stop()).await;
    let _ = x.transport.stop().await;
}

// ------------------------------------------------------------------ table C
struct RecSender {
    me: String,
    sent: parking_lot::Mutex<Vec<(String, Vec<u8>)>>,
    fail_for: parking_lot::Mutex<HashSet<String>>,
    stall: Duration,
}
#[async_trait::async_trait]
impl NetworkSender for RecSender {
    async fn send_message(&self, peer_id: &String, _protocol: &str, data: Vec<u8>) -> saorsa_core::error::P2pResult<()> {
        if !self.stall.is_zero() {
            tokio::time::sleep(self.stall).await;
        }
        if self.fail_for.lock().contains(peer_id) {
            return Err(saorsa_core::error::P2PError::Network(saorsa_core::error::NetworkError::PeerNotFound(peer_id.clone().into())));
        }
        self.sent.lock().push((peer_id.clone(), data));
        Ok(())
    }
    fn local_peer_id(&self) -> &String {
        &self.me
    }
}

async fn table_c(mon: &Monitor, rng: &mut Rng, tok: &mut u64) {
    let local = rng.arr32();
    let Ok(mut eng) = DhtCoreEngine::verif_new_log_only(NodeId::from_bytes(local)) else {
        mon.inconclusive("engine ctor failed");
        return;
    };
    let stall = if rng.chance(0.3) { Duration::from_millis(40) } else { Duration::ZERO };
    let sender = Arc::new(RecSender { me: "me".into(), sent: Default::default(), fail_for: Default::default(), stall });
    eng.set_transport(sender.clone());
    let npeers = rng.urange(1, 6);
    let mut peer_ids = Vec::new();
    for i in 0..npeers {
        let id = rng.arr32();
        peer_ids.push(id);
        let _ = eng.add_node(NodeInfo { id: NodeId::from_bytes(id), address: format!("peer-{i}"), last_seen: std::time::SystemTime::now(), capacity: NodeCapacity::default() }).await;
    }
    if rng.chance(0.2) {
        sender.fail_for.lock().insert(hex::encode(peer_ids[0]));
    }
    let eng = Arc::new(eng);
    let key = rng.arr32();
    let e2 = eng.clone();
    let h = tokio::spawn(async move { e2.retrieve(&DhtKey::from_bytes(key)).await });
    let cancel_in_send = !stall.is_zero() && rng.chance(0.4);
    if cancel_in_send {
        tokio::time::sleep(Duration::from_millis(rng.range(1, 39))).await;
        h.abort();
        for _ in 0..10 {
            tokio::task::yield_now().await;
        }
        let left = eng.verif_pending_len().await;
        mon.eval();
        mon.case(("C-cancel-in-send", left.min(3)));
        mon.count("C.cancelled_during_send", 1);
        if left != 0 {
            mon.violation("C/pending-entry-survives/after-future-dropped-during-send", json!({"left": left}));
        }
        return;
    }
    tokio::time::sleep(stall).await;
    for _ in 0..10 {
        tokio::task::yield_now().await;
    }
    let sent = sender.sent.lock().clone();
    let reqs: Vec<(String, String)> = sent.iter().filter_map(|(p, d)| postcard::from_bytes::<DhtRequestWrapper>(d).ok().map(|w| (p.clone(), w.id))).collect();
    mon.count("C.request_frames_seen", reqs.len() as u64);
    // adversary: per outstanding request a plan; tokens are the values
    let timeout = Duration::from_secs(5);
    let mut valid_tokens: HashSet<String> = HashSet::new();
    let mut invalid_tokens: HashSet<String> = HashSet::new();
    let cancel = if rng.chance(0.2) { Some(Duration::from_millis(4 * rng.range(1, 1400) + 2)) } else { None };
    let mut n_adv = 0;
    for (_p, id) in &reqs {
        for k in 0..rng.urange(0, 3) {
            *tok += 1;
            let token = format!("tok-C-{}", *tok);
            // own 4 ms slot per event (1 ms timer resolution), away from the 5 s query timeout
            let at = Duration::from_millis(4 * (if rng.chance(0.8) { rng.range(1, 1200) } else { rng.range(1280, 1450) }) + 0 * k as u64);
            let kind = rng.below(4);
            let (rid, valid) = match kind {
                0 | 1 => (id.clone(), true),
                2 => (format!("{:032x}", rng.next_u64()), false),
                _ => (id.clone(), true),
            };
            let in_time = at < timeout && cancel.map_or(true, |c| at < c);
            if valid && in_time {
                valid_tokens.insert(token.clone());
            } else {
                invalid_tokens.insert(token.clone());
            }
            n_adv += 1;
            let e3 = eng.clone();
            tokio::spawn(async move {
                tokio::time::sleep(at).await;
                e3.handle_response(DhtResponseWrapper { id: rid, response: DhtResponse::RetrieveReply { value: Some(token.into_bytes()) } }).await;
            });
        }
    }
    if let Some(c) = cancel {
        let ah = h.abort_handle();
        tokio::spawn(async move {
            tokio::time::sleep(c).await;
            ah.abort();
        });
    }
    tokio::time::sleep(Duration::from_secs(7)).await;
    for _ in 0..10 {
        tokio::task::yield_now().await;
    }
    mon.eval();
    if n_adv > 0 || cancel.is_some() {
        mon.case(("C", reqs.len(), n_adv.min(6), cancel.is_some()));
    }
    if !h.is_finished() {
        mon.violation("C/retrieve-never-completed", json!({"requests": reqs.len()}));
        h.abort();
    } else {
        match h.await {
            Err(_) => mon.count("C.outcome.cancelled", 1),
            Ok(Ok(Some(v))) => {
                mon.count("C.outcome.value", 1);
                let t = String::from_utf8_lossy(&v).to_string();
                // per request only the FIRST right-id reply may win; a later duplicate of the same id is invalid too,
                // which we cannot tell apart here without ordering, so accept any in-time right-id token
                if !valid_tokens.contains(&t) {
                    let why = if invalid_tokens.contains(&t) { "late-or-unknown-id-reply" } else { "unknown-bytes" };
                    mon.violation(&format!("C/completed-by-{why}"), json!({"token": t}));
                }
            }
            Ok(Ok(None)) => {
                mon.count("C.outcome.none", 1);
                // with an in-time right-id reply for some request, the value must be returned
                if !valid_tokens.is_empty() && cancel.is_none() {
                    mon.violation("C/matching-reply-not-delivered", json!({"valid": valid_tokens.len()}));
                }
            }
            Ok(Err(e)) => mon.count(&format!("C.outcome.err.{}", e.to_string().len().min(1)), 1),
        }
    }
    let left = eng.verif_pending_len().await;
    mon.eval();
    if left != 0 {
        let f = if cancel.is_some() { "after-dropped-future" } else { "after-completed-retrieve" };
        mon.violation(&format!("C/pending-entry-survives/{f}"), json!({"left": left, "requests": reqs.len()}));
    }
}

// ------------------------------------------------------------------ real-time lane for table A's sweep
fn realtime_leak_lane(mon: &Monitor, seed: u64) {
    let rt = tokio::runtime::Builder::new_multi_thread().worker_threads(4).enable_all().build().expect("rt");
    rt.block_on(async {
        let mut rng = Rng::new(seed ^ 0xA11CE);
        let hub = Hub::new(rng.next_u64());
        let to = Duration::from_millis(60);
        let cfg = NodeCfg { request_timeout: to, connection_timeout: Duration::from_millis(200), ..Default::default() };
        let Ok(x) = spawn_node(&hub, rng.arr32(), sim_addr(0), &cfg).await else { return };
        let tid = rng.arr32();
        let addr = sim_addr(1);
        let _rx = hub.register_puppet(tid, addr);
        let _ = x.mgr.connect_to_peer(&addr.to_string()).await;
        let ph = hex::encode(tid);
        hub.set_fault(&x.tid_hex, FaultPlan { send_stall: Duration::from_millis(15), ..Default::default() });
        let rounds = mon.by_tier(3, 12);
        for round in 0..rounds {
            let mut hs = Vec::new();
            for _ in 0..rng.urange(4, 40) {
                let m = x.mgr.clone();
                let p = ph.clone();
                let k = rng.arr32();
                hs.push(tokio::spawn(async move { m.send_request(&p, DhtNetworkOperation::FindNode { key: k }).await }));
            }
            tokio::time::sleep(Duration::from_millis(rng.range(1, 30))).await;
            let mut dropped = 0;
            for h in &hs {
                if rng.chance(0.5) {
                    h.abort();
                    dropped += 1;
                }
            }
            // quiescence: every future resolved or dropped (joined, so that a task the loaded machine
            // scheduled late cannot still be legitimately pending), 2x timeout (+ generous margin)
            // of REAL time, one trigger request
            for h in hs {
                let _ = tokio::time::timeout(Duration::from_secs(30), h).await;
            }
            tokio::time::sleep(to * 2 + Duration::from_millis(400)).await;
            let _ = x.mgr.send_request(&ph, DhtNetworkOperation::Ping).await;
            let left = x.mgr.verif_active_operations_len();
            mon.eval();
            mon.case(("A-realtime-sweep", round, dropped.min(8)));
            mon.count("A.realtime.rounds", 1);
            if left != 0 {
                mon.violation("A/pending-entry-survives-sweep-after-dropped-future", json!({"left": left, "dropped": dropped}));
            }
        }
        let _ = x.mgr.stop().await;
        let _ = x.transport.stop().await;
    });
}

// ------------------------------------------------------------------ real-time lane: a live request and another request's sweep
/// Table A ages its entries with the real clock from BEFORE the send. A request whose send was slow
/// (congested link) is legitimately pending until send-done + timeout; an unrelated request started
/// in that window runs the expiry sweep. The live request must still end with its reply or its
/// timeout - never with an error manufactured by the other request.
fn realtime_live_sweep_lane(mon: &Monitor, seed: u64) {
    let rt = tokio::runtime::Builder::new_multi_thread().worker_threads(4).enable_all().build().expect("rt");
    rt.block_on(async {
        let worlds = mon.by_tier(4u64, 12);
        let mut hs = Vec::new();
        for wi in 0..worlds {
            hs.push(async move {
                let mut rng = Rng::new(vkit::splitmix(seed, 0x51EE9 + wi));
                let hub = Hub::new(rng.next_u64());
                let to = Duration::from_millis(1500);
                let stall = Duration::from_millis(rng.range(300, 700));
                let cfg = NodeCfg { request_timeout: to, connection_timeout: Duration::from_millis(500), ..Default::default() };
                let Ok(x) = spawn_node(&hub, rng.arr32(), sim_addr(0), &cfg).await else { return };
                let (ta, tb) = (rng.arr32(), rng.arr32());
                let (aa, ab) = (sim_addr(1), sim_addr(2));
                let mut rxa = hub.register_puppet(ta, aa);
                let _rxb = hub.register_puppet(tb, ab);
                if x.mgr.connect_to_peer(&aa.to_string()).await.is_err() || x.mgr.connect_to_peer(&ab.to_string()).await.is_err() {
                    return;
                }
                hub.set_fault(&x.tid_hex, FaultPlan { send_stall: stall, ..Default::default() });
                let (ha, hb) = (hex::encode(ta), hex::encode(tb));
                let key = rng.arr32();
                let t0 = std::time::Instant::now();
                let m1 = x.mgr.clone();
                let pa = ha.clone();
                let r1 = tokio::spawn(async move {
                    let r = m1.send_request(&pa, DhtNetworkOperation::FindNode { key }).await;
                    (r, std::time::Instant::now())
                });
                // the request frame reaches the puppet when the slow send completes
                let mut seen: Option<(String, DhtNetworkOperation, String)> = None;
                let mut send_done = Duration::ZERO;
                while t0.elapsed() < to {
                    if let Ok((_f, frame)) = rxa.try_recv() {
                        if let (_, _, Some(m)) = summarize(&frame) {
                            seen = Some((m.message_id.clone(), m.payload.clone(), m.source.clone()));
                            send_done = t0.elapsed();
                            break;
                        }
                    }
                    tokio::time::sleep(Duration::from_millis(5)).await;
                }
                let Some((mid, payload, source)) = seen else {
                    mon.count("A.live-sweep.skipped.request-frame-not-observed", 1);
                    return;
                };
                // an unrelated request inside the live window (after one timeout since R1 was issued)
                let r2_at = to + Duration::from_millis(rng.range(60, 250));
                tokio::time::sleep(r2_at.saturating_sub(t0.elapsed())).await;
                let r2_age = t0.elapsed();
                let m2 = x.mgr.clone();
                let r2 = tokio::spawn(async move { m2.send_request(&hb, DhtNetworkOperation::Ping).await });
                // the contacted peer's genuine reply, still inside R1's window (send-done + timeout)
                let token = format!("tok-live-{wi}");
                let reply_in = Duration::from_millis(rng.range(40, 120));
                let frame = dht_response_frame(
                    &ha,
                    &mid,
                    &source,
                    payload,
                    Some(DhtNetworkResult::NodesFound { key, nodes: vec![DHTNode { peer_id: token.clone(), address: String::new(), distance: None, reliability: 1.0, cached_dht_key: None }] }),
                    DhtMessageType::Response,
                );
                hub.inject(ta, &x.tid_hex, frame, reply_in);
                let out = tokio::time::timeout(Duration::from_secs(20), r1).await;
                let _ = tokio::time::timeout(Duration::from_secs(20), r2).await;
                mon.eval();
                mon.count("A.live-sweep.worlds", 1);
                // judged only when the machine kept the schedule: the send finished well inside one timeout and
                // the second request started well before two (so no entry of a live request can look expired)
                let on_schedule = send_done + Duration::from_millis(300) < to && r2_age + Duration::from_millis(400) < to * 2;
                if !on_schedule {
                    mon.count("A.live-sweep.skipped.machine-too-slow", 1);
                } else if let Ok(Ok((res, done_at))) = out {
                    mon.case(("A-live-sweep", (stall.as_millis() / 100) as u64, (r2_age.as_millis() / 100) as u64));
                    let ended = done_at.duration_since(t0);
                    let kind = match &res {
                        Ok(DhtNetworkResult::NodesFound { nodes, .. }) if nodes.first().is_some_and(|n| n.peer_id == token) => "reply",
                        Ok(_) => "other-result",
                        Err(e) if e.to_string().to_lowercase().contains("timeout") || e.to_string().to_lowercase().contains("timed out") => "timeout",
                        Err(_) => "error",
                    };
                    mon.count(&format!("A.live-sweep.outcome.{kind}"), 1);
                    if kind == "error" || kind == "other-result" {
                        mon.violation(
                            "A/live-request-ended-by-another-requests-sweep",
                            json!({"send_took_ms": send_done.as_millis() as u64, "timeout_ms": to.as_millis() as u64, "other_request_started_at_ms": r2_age.as_millis() as u64,
                                   "ended_at_ms": ended.as_millis() as u64, "result": format!("{:?}", res.as_ref().map(|_| "ok").map_err(|e| e.to_string()))}),
                        );
                    }
                } else {
                    mon.violation("A/request-never-completed", json!({"lane": "live-sweep"}));
                }
                let _ = tokio::time::timeout(Duration::from_secs(20), x.mgr.stop()).await;
                let _ = tokio::time::timeout(Duration::from_secs(20), x.transport.stop()).await;
            });
        }
        futures::future::join_all(hs).await;
    });
}

fn main() {
    let mon = Monitor::new("C04", "exploration");
    mon.set_rule("case = one request life-cycle in one of three pending tables (A: DHT RPC, B: /rr/ request-response, C: core-engine retrieve) with a seeded adversarial delivery plan (wrong sender, stranger, unknown/replayed id, duplicate, late, result-less, dropped future); non-trivial when at least one adversarial frame or a cancellation is aimed at it; distinct by (table, adversarial classes, cancellation, outcome) plus leak/cap observations");
    mon.assume("in-memory link below TransportHandle, paused clock; every event of a request sits on its own 4 ms slot (tokio timers resolve 1 ms) and at least 12 ms away from the request timeout, so delivery order is unambiguous");
    mon.assume("table C has no notion of a sender, so 'from the contacted peer' is not judged there; for C any in-time reply carrying the request id may win");
    mon.assume("table A entries of dropped futures are aged by std::time::Instant: that sub-check runs in a real-time lane (request timeout 60 ms, wait 2x+400 ms, one trigger request)");
    mon.assume("live-sweep lane (real time): request timeout 1.5 s, send 0.3-0.7 s, a second request 60-250 ms after one timeout; judged only when the machine kept that schedule (send done 300 ms inside one timeout, second request 400 ms inside two)");
    let per_shard = mon.by_tier(400u64, 40_000);
    vkit::run_shards(mon.shards(), mon.seed, |i, mut rng| {
        let mut tok = (i as u64) << 40;
        for k in 0..per_shard {
            if mon.time_up() {
                break;
            }
            let rt = checks::rt(true);
            match k % 3 {
                0 => rt.block_on(table_a(&mon, &mut rng, &mut tok)),
                1 => rt.block_on(table_b(&mon, &mut rng, &mut tok)),
                _ => rt.block_on(table_c(&mon, &mut rng, &mut tok)),
            }
            mon.count("scenarios", 1);
        }
    });
    realtime_leak_lane(&mon, mon.seed);
    realtime_live_sweep_lane(&mon, mon.seed);
    mon.finish();
}
