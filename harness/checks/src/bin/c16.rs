//! C16 — failing or distrusted peers are sidelined exactly as the stated policy says.
//!
//! Three components are monitored, each against a small reference model that restates the
//! property text (never the implementation):
//!
//!  A. `EvictionManager` / `NodeLivenessState`: seeded success / failure / trust-update / mark /
//!     forget histories over many peers and threshold configurations. Model = per-peer
//!     (consecutive failures since last success, last trust score, explicit mark). The candidate
//!     set reported by `get_eviction_candidates()` and the per-peer views must equal
//!     {failures >= threshold} ∪ {trust < threshold} ∪ {marked}.
//!  B. `DhtCoreEngine`: add → evict / fail → query → re-add. Every closest-node answer
//!     (`find_nodes`, FindNode / FindValue replies, `store()` receipts, peers dialled by
//!     `retrieve()` through a recording `NetworkSender`) is checked for peers that were evicted or
//!     failed and not added again. Only presence/absence is judged here (exactness of the answer is
//!     C02's business).
//!  C. `TrustAwarePeerSelector` (directly, with a harness `TrustProvider`) and the engine's storage /
//!     query selection (with a real `EigenTrustEngine` as trust source): floor, membership,
//!     distinctness, count, and the pairwise ranking predicate on the FULL 256-bit XOR distance.
//!     With selection disabled the engine's choice is compared with the engine's own `find_nodes`
//!     answer for the same key.

use async_trait::async_trait;
use checks::keys::*;
use saorsa_core::adaptive::{NodeId as ANodeId, TrustProvider};
use saorsa_core::dht::core_engine::{DhtCoreEngine, DhtKey, DhtRequestWrapper, NodeCapacity, NodeId, NodeInfo};
use saorsa_core::dht::network_integration::{DhtMessage, DhtResponse};
use saorsa_core::dht::routing_maintenance::close_group_validator::CloseGroupFailure;
use saorsa_core::dht::routing_maintenance::{EvictionManager, EvictionReason, MaintenanceConfig, NodeLivenessState};
use saorsa_core::dht::trust_peer_selector::{TrustAwarePeerSelector, TrustSelectionConfig};
use saorsa_core::{EigenTrustEngine, NetworkSender, P2PError};
use serde_json::{json, Value};
use std::collections::{BTreeMap, BTreeSet, HashMap, HashSet};
use std::sync::Arc;
use std::time::SystemTime;
use vkit::{hex8, Monitor, Rng};

/// replication factor / number of storage targets asked for by `store()` and `retrieve()`
const K: usize = 8;

fn ninfo(id: [u8; 32], tag: usize) -> NodeInfo {
    NodeInfo {
        id: NodeId::from_bytes(id),
        // not an IP: the admission gates (C13) are skipped
        address: format!("peer-{tag}"),
        last_seen: SystemTime::now(),
        capacity: NodeCapacity::default(),
    }
}

// ── thread-local buffering of counters / case signatures (the Monitor's maps are behind one lock) ──
thread_local! {
    static TALLY: std::cell::RefCell<HashMap<String, u64>> = std::cell::RefCell::new(HashMap::new());
    static SEEN: std::cell::RefCell<HashSet<u64>> = std::cell::RefCell::new(HashSet::new());
    static VIO_SENT: std::cell::RefCell<HashMap<String, u32>> = std::cell::RefCell::new(HashMap::new());
}
/// one written-out sample per component (the Monitor keeps five)
static SAMPLE_SLOTS: [std::sync::atomic::AtomicBool; 5] = [const { std::sync::atomic::AtomicBool::new(false) }; 5];
fn take_slot(i: usize) -> bool {
    !SAMPLE_SLOTS[i].swap(true, std::sync::atomic::Ordering::Relaxed)
}
fn tally(k: &str, n: u64) {
    TALLY.with(|t| {
        let mut t = t.borrow_mut();
        match t.get_mut(k) {
            Some(v) => *v += n,
            None => {
                t.insert(k.to_string(), n);
            }
        }
    });
}
fn flush_tally(mon: &Monitor) {
    TALLY.with(|t| {
        for (k, v) in t.borrow_mut().drain() {
            mon.count(&k, v);
        }
    });
}
fn case_once<H: std::hash::Hash>(mon: &Monitor, sig: H) {
    use std::hash::Hasher;
    let mut h = std::collections::hash_map::DefaultHasher::new();
    sig.hash(&mut h);
    let v = h.finish();
    if SEEN.with(|s| s.borrow_mut().insert(v)) {
        mon.case(v);
    }
}

fn fmt_f(x: f64) -> String {
    format!("{x:?}")
}

// ───────────────────────────── A. eviction policy ─────────────────────────────

#[derive(Clone, Default)]
struct PeerModel {
    /// consecutive failures since the last success (or since the peer was forgotten)
    fails: u64,
    trust: Option<f64>,
    marked: Option<EvictionReason>,
    last: &'static str,
}

impl PeerModel {
    fn by_failures(&self, thr: u32) -> bool {
        self.fails >= thr as u64
    }
    fn by_trust(&self, tthr: f64) -> bool {
        self.trust.map(|t| t < tthr).unwrap_or(false)
    }
    fn candidate(&self, thr: u32, tthr: f64) -> bool {
        self.marked.is_some() || self.by_failures(thr) || self.by_trust(tthr)
    }
    fn why(&self, thr: u32, tthr: f64) -> String {
        let mut v = Vec::new();
        if self.marked.is_some() {
            v.push("marked");
        }
        if self.by_failures(thr) {
            v.push("failures");
        }
        if self.by_trust(tthr) {
            v.push("trust");
        }
        v.join("+")
    }
}

fn reason_kind(r: &EvictionReason) -> &'static str {
    match r {
        EvictionReason::ConsecutiveFailures(_) => "failures",
        EvictionReason::LowTrust(_) => "trust",
        EvictionReason::CloseGroupRejection => "rejection",
        EvictionReason::Stale => "stale",
    }
}

fn just_below(t: f64) -> f64 {
    if t > 0.0 {
        f64::from_bits(t.to_bits() - 1)
    } else {
        -f64::MIN_POSITIVE
    }
}
fn just_above(t: f64) -> f64 {
    if t >= 0.0 {
        f64::from_bits(t.to_bits() + 1)
    } else {
        t / 2.0
    }
}

fn hostile_trust(rng: &mut Rng, thr: f64) -> f64 {
    match rng.below(13) {
        0 => thr,
        1 => just_below(thr),
        2 => just_above(thr),
        3 => f64::NAN,
        4 => f64::INFINITY,
        5 => f64::NEG_INFINITY,
        6 => -1.0,
        7 => 2.0,
        8 => 0.0,
        9 => 1.0,
        _ => rng.f64(),
    }
}

fn trust_class(t: f64) -> &'static str {
    if t.is_nan() {
        "nan"
    } else if t == f64::INFINITY {
        "posinf"
    } else if t == f64::NEG_INFINITY {
        "neginf"
    } else if t < 0.0 {
        "negative"
    } else if t > 1.0 {
        "above-one"
    } else {
        "in-range"
    }
}

fn eviction_history(mon: &Monitor, rng: &mut Rng) {
    let thr: u32 = match rng.below(10) {
        0 => 1,
        1 => 3,
        2 => 10,
        3 => rng.urange(11, 60) as u32,
        _ => rng.urange(1, 10) as u32,
    };
    let tthr: f64 = match rng.below(7) {
        0 => 0.0,
        1 => 0.15,
        2 => 1.0,
        3 => 0.5,
        _ => rng.f64(),
    };
    let tthr_class = if tthr == 0.0 {
        0u8
    } else if tthr == 1.0 {
        2
    } else {
        1
    };
    let cfg = MaintenanceConfig { max_consecutive_failures: thr, min_trust_threshold: tthr, ..Default::default() };
    let npeers = rng.urange(1, 40);
    let ids: Vec<[u8; 32]> = (0..npeers).map(|_| rng.arr32()).collect();
    let hot = rng.urange(1, npeers.min(5));
    let mut model: HashMap<[u8; 32], PeerModel> = HashMap::new();
    let mut hist: Vec<String> = Vec::new();
    let mut mgr = if rng.chance(0.3) {
        let mut init = HashMap::new();
        for id in ids.iter().take(rng.urange(0, npeers)) {
            let t = hostile_trust(rng, tthr);
            init.insert(NodeId::from_bytes(*id), t);
            let p = model.entry(*id).or_default();
            p.trust = Some(t);
            p.last = "trust";
            hist.push(format!("init-trust {} {}", hex8(id), fmt_f(t)));
        }
        EvictionManager::with_trust(cfg, init)
    } else {
        EvictionManager::new(cfg)
    };
    // bit0 success after failures, bit1 success at/over threshold, bit2 trust raised out of
    // candidacy, bit3 forget of a candidate, bit4 explicit mark
    let mut cleared: u8 = 0;
    let nev = rng.urange(5, mon.by_tier(260, 520));
    for step in 0..nev {
        let id = if rng.chance(0.65) { ids[rng.usize_below(hot)] } else { *rng.pick(&ids) };
        let nid = NodeId::from_bytes(id);
        let op = rng.weighted(&[34, 14, 20, 5, 7, 14, 6]);
        match op {
            0 => {
                mgr.record_failure(&nid);
                let p = model.entry(id).or_default();
                p.fails += 1;
                p.last = "failure";
                hist.push(format!("failure {}", hex8(&id)));
                tally("evict.events.failure", 1);
            }
            1 => {
                mgr.record_success(&nid);
                let p = model.entry(id).or_default();
                if p.fails > 0 {
                    cleared |= 1;
                }
                if p.by_failures(thr) {
                    cleared |= 2;
                }
                p.fails = 0;
                p.last = "success";
                hist.push(format!("success {}", hex8(&id)));
                tally("evict.events.success", 1);
            }
            2 => {
                let t = hostile_trust(rng, tthr);
                mgr.update_trust_score(&nid, t);
                let p = model.entry(id).or_default();
                if p.by_trust(tthr) && !(t < tthr) {
                    cleared |= 4;
                }
                p.trust = Some(t);
                p.last = "trust";
                hist.push(format!("trust {} {}", hex8(&id), fmt_f(t)));
                tally("evict.events.trust", 1);
            }
            3 => {
                let reason = match rng.below(4) {
                    0 => EvictionReason::CloseGroupRejection,
                    1 => EvictionReason::Stale,
                    2 => EvictionReason::LowTrust("marked".into()),
                    _ => EvictionReason::ConsecutiveFailures(rng.below(5) as u32),
                };
                mgr.record_eviction(&nid, reason.clone());
                let p = model.entry(id).or_default();
                p.marked = Some(reason);
                p.last = "mark";
                cleared |= 16;
                hist.push(format!("mark {}", hex8(&id)));
                tally("evict.events.mark", 1);
            }
            4 => {
                mgr.remove_node(&nid);
                if let Some(p) = model.get(&id) {
                    if p.candidate(thr, tthr) {
                        cleared |= 8;
                    }
                }
                let p = model.entry(id).or_default();
                *p = PeerModel { last: "forget", ..Default::default() };
                hist.push(format!("forget {}", hex8(&id)));
                tally("evict.events.forget", 1);
            }
            5 => {
                // a burst that lands exactly on / one short of / one past the threshold
                let have = model.get(&id).map(|p| p.fails).unwrap_or(0);
                let target = (thr as u64 + rng.below(3)).saturating_sub(1);
                let n = target.saturating_sub(have).max(1).min(80);
                for _ in 0..n {
                    mgr.record_failure(&nid);
                }
                let p = model.entry(id).or_default();
                p.fails += n;
                p.last = "failure";
                hist.push(format!("failure x{} {}", n, hex8(&id)));
                tally("evict.events.failure", n);
            }
            _ => {
                // failure, success, failure: the counter must restart from the success
                mgr.record_failure(&nid);
                mgr.record_success(&nid);
                mgr.record_failure(&nid);
                let p = model.entry(id).or_default();
                if p.by_failures(thr) || p.fails + 1 >= thr as u64 {
                    cleared |= 2;
                }
                cleared |= 1;
                p.fails = 1;
                p.last = "failure";
                hist.push(format!("failure,success,failure {}", hex8(&id)));
                tally("evict.events.failure", 2);
                tally("evict.events.success", 1);
            }
        }
        let tail = |hist: &Vec<String>| hist.iter().rev().take(14).rev().cloned().collect::<Vec<_>>();

        // per-peer views of the touched peer
        {
            mon.eval();
            let p = model.get(&id).cloned().unwrap_or_default();
            let views: [(&str, bool, bool); 3] = [
                ("should_evict", mgr.should_evict(&nid), p.by_failures(thr)),
                ("should_evict_for_trust", mgr.should_evict_for_trust(&nid), p.by_trust(tthr)),
                ("get_eviction_reason", mgr.get_eviction_reason(&nid).is_some(), p.candidate(thr, tthr)),
            ];
            for (api, got, want) in views {
                if got != want {
                    mon.violation(
                        &format!("peer-view/{api}/expected-{want}/after-{}", p.last),
                        json!({"peer": hex::encode(id), "threshold": thr, "trust_threshold": fmt_f(tthr),
                               "model_consecutive_failures": p.fails, "model_trust": p.trust.map(fmt_f),
                               "model_marked": p.marked.is_some(), "got": got, "history_tail": tail(&hist)}),
                    );
                }
            }
        }

        if step % 5 == 0 || step + 1 == nev {
            mon.eval();
            tally("evict.full_checks", 1);
            let got = mgr.get_eviction_candidates();
            let mut gmap: HashMap<[u8; 32], EvictionReason> = HashMap::new();
            for (n, r) in &got {
                if gmap.insert(*n.as_bytes(), r.clone()).is_some() {
                    tally("observed.duplicate-candidate-rows", 1);
                }
            }
            let mut ncand = 0usize;
            let mut nclean = 0usize;
            let mut kinds_mask = 0u8;
            for (pid, p) in &model {
                let want = p.candidate(thr, tthr);
                if want {
                    ncand += 1;
                    kinds_mask |= (p.marked.is_some() as u8) | ((p.by_failures(thr) as u8) << 1) | ((p.by_trust(tthr) as u8) << 2);
                } else {
                    nclean += 1;
                }
                let detail = |what: &str| {
                    json!({"what": what, "peer": hex::encode(pid), "threshold": thr, "trust_threshold": fmt_f(tthr),
                           "model_consecutive_failures": p.fails, "model_trust": p.trust.map(fmt_f),
                           "model_marked": p.marked.as_ref().map(|r| format!("{r:?}")),
                           "reported": gmap.get(pid).map(|r| format!("{r:?}")), "history_tail": tail(&hist)})
                };
                match (want, gmap.get(pid)) {
                    (true, None) => mon.violation(
                        &format!("candidates/missing/{}", p.why(thr, tthr)),
                        detail("policy says candidate, not reported"),
                    ),
                    (false, Some(r)) => mon.violation(
                        &format!("candidates/spurious/reported-{}/after-{}", reason_kind(r), p.last),
                        detail("reported as candidate, policy says not"),
                    ),
                    (true, Some(r)) => {
                        tally(
                            match r {
                                EvictionReason::ConsecutiveFailures(_) => "evict.candidates.failures",
                                EvictionReason::LowTrust(_) => "evict.candidates.trust",
                                EvictionReason::CloseGroupRejection => "evict.candidates.rejection",
                                EvictionReason::Stale => "evict.candidates.stale",
                            },
                            1,
                        );
                        let truthful = p.marked.as_ref() == Some(r)
                            || (matches!(r, EvictionReason::ConsecutiveFailures(_)) && p.by_failures(thr))
                            || (matches!(r, EvictionReason::LowTrust(_)) && p.by_trust(tthr));
                        if !truthful {
                            mon.violation(
                                &format!("candidate-reason/untrue-{}", reason_kind(r)),
                                detail("the reported reason does not hold for this peer"),
                            );
                        }
                    }
                    (false, None) => {}
                }
            }
            for pid in gmap.keys() {
                if !model.contains_key(pid) {
                    mon.violation(
                        "candidates/spurious/never-seen-peer",
                        json!({"peer": hex::encode(pid), "history_tail": tail(&hist)}),
                    );
                }
            }
            if ncand >= 1 && nclean >= 1 && cleared != 0 {
                case_once(mon, ("evict", thr.min(11), tthr_class, kinds_mask, ncand.min(8), cleared));
            }
            if step + 1 == nev && ncand >= 2 && nclean >= 1 && cleared & 3 != 0 && take_slot(0) {
                mon.sample(json!({"component": "EvictionManager", "threshold": thr, "trust_threshold": fmt_f(tthr),
                    "peers": model.len(), "candidates_reported": got.iter().take(6).map(|(n, r)| format!("{} {:?}", hex8(n.as_bytes()), r)).collect::<Vec<_>>(),
                    "history_tail": tail(&hist)}));
            }
        }
    }
    tally("evict.histories", 1);
}

/// 2^32 consecutive failures with no success in between: the peer has certainly accumulated the
/// configured number of consecutive failures.
fn long_failure_run(mon: &Monitor) {
    let cfg = MaintenanceConfig { max_consecutive_failures: 3, ..Default::default() };
    let r = vkit::catch(|| {
        let mut st = NodeLivenessState::new();
        for _ in 0..(1u64 << 32) {
            st.record_failure();
        }
        (st.should_evict(&cfg), st.consecutive_failures, st.total_failures)
    });
    mon.eval();
    case_once(mon, ("long-failure-run", 32u8));
    match r {
        Ok((true, _, _)) => tally("evict.long_run.still_candidate", 1),
        Ok((false, c, t)) => mon.violation(
            "failures/not-candidate-after-2^32-consecutive-failures",
            json!({"threshold": 3, "consecutive_failures_reported": c, "total_failures": t,
                   "history": "NodeLivenessState::new(); record_failure() x 4294967296; no success"}),
        ),
        Err(p) => mon.violation("failures/panic-in-long-failure-run", json!({"panic": p})),
    }
}

// ───────────────────────────── C. selection oracle ─────────────────────────────

#[derive(Clone, Debug)]
struct SelCfg {
    weight: f64,
    floor: f64,
    exclude: bool,
    kind: &'static str,
}

impl SelCfg {
    fn of(c: &TrustSelectionConfig, kind: &'static str) -> Self {
        SelCfg { weight: c.trust_weight, floor: c.min_trust_threshold, exclude: c.exclude_untrusted, kind }
    }
    fn to_cfg(&self) -> TrustSelectionConfig {
        TrustSelectionConfig { trust_weight: self.weight, min_trust_threshold: self.floor, exclude_untrusted: self.exclude }
    }
}

fn top16(d: &[u8; 32]) -> u128 {
    let mut b = [0u8; 16];
    b.copy_from_slice(&d[..16]);
    u128::from_be_bytes(b)
}

/// label only (never used for the verdict): which documented ingredient of the score
/// `1/(1+d/1e30) * (w + (1-w)*trust)`, d = top 16 distance bytes, makes the pair collide
fn rank_label(cfg: &SelCfg, da: &[u8; 32], db: &[u8; 32], t: f64) -> &'static str {
    let factor = cfg.weight + (1.0 - cfg.weight) * t;
    if factor.is_nan() {
        return "factor-nan";
    }
    if factor.is_infinite() {
        return "factor-inf"; // every score is +-inf: all tie
    }
    if factor == 0.0 {
        return "factor-zero"; // every score is 0: all tie
    }
    let (a, b) = (top16(da), top16(db));
    if a == b {
        return "top16-equal";
    }
    let sc = |d: u128| (1.0 / (1.0 + (d as f64) / 1e30)) * factor;
    if sc(a) == sc(b) {
        "f64-tie"
    } else if factor < 0.0 {
        "factor-negative" // closer = more negative score: genuine inversion
    } else {
        "unexplained"
    }
}

struct SelJudge<'a> {
    level: &'static str,
    key: &'a [u8; 32],
    cands: &'a [[u8; 32]],
    trust: &'a [f64],
    count: usize,
    cfg: &'a SelCfg,
    selected: &'a [[u8; 32]],
    /// false when only a prefix of the selection is observable (retrieve dials the first 3)
    full: bool,
    gen: u32,
    ctx: Value,
}

/// returns true when nothing was wrong
fn judge_selection(mon: &Monitor, j: &SelJudge) -> bool {
    mon.eval();
    let n = j.cands.len();
    let dist: Vec<[u8; 32]> = j.cands.iter().map(|c| xor(c, j.key)).collect();
    let eligible = |i: usize| !(j.cfg.exclude && j.trust[i] < j.cfg.floor);
    // map every selected entry to a distinct candidate slot (multiset membership)
    let mut used = vec![false; n];
    let mut slot: Vec<Option<usize>> = Vec::with_capacity(j.selected.len());
    let mut non_candidate = None;
    let mut duplicate = None;
    for s in j.selected {
        let free = (0..n).find(|&i| !used[i] && j.cands[i] == *s);
        match free {
            Some(i) => {
                used[i] = true;
                slot.push(Some(i));
            }
            None => {
                if j.cands.contains(s) {
                    duplicate.get_or_insert(*s);
                } else {
                    non_candidate.get_or_insert(*s);
                }
                slot.push(None);
            }
        }
    }
    let n_excl = (0..n).filter(|&i| !eligible(i)).count();
    let mut eq_pairs = 0usize;
    for a in 0..n {
        for b in (a + 1)..n {
            if eligible(a) && eligible(b) && j.trust[a] == j.trust[b] && j.cands[a] != j.cands[b] {
                eq_pairs += 1;
            }
        }
    }
    let n_elig = n - n_excl;
    if n_elig >= 2 && j.count >= 1 && (eq_pairs > 0 || n_excl > 0) {
        let cc = if j.count == 1 {
            0u8
        } else if j.count < n {
            1
        } else if j.count == n {
            2
        } else {
            3
        };
        let eb = match eq_pairs {
            0 => 0u8,
            1..=3 => 1,
            4..=15 => 2,
            _ => 3,
        };
        case_once(mon, (j.level, j.cfg.kind, n, cc, n_excl.min(9), eb, j.gen));
    }
    let show = |i: usize| format!("{}… trust={} pos={}", hex::encode(&j.cands[i][..6]), fmt_f(j.trust[i]), i);
    let base = |what: &str, extra: Value| {
        json!({"what": what, "level": j.level, "key": hex::encode(j.key), "count": j.count,
               "config": {"kind": j.cfg.kind, "trust_weight": j.cfg.weight, "min_trust_threshold": j.cfg.floor, "exclude_untrusted": j.cfg.exclude},
               "n_candidates": n,
               "candidates_in_input_order": (0..n.min(10)).map(|i| format!("{} trust={}", hex::encode(j.cands[i]), fmt_f(j.trust[i]))).collect::<Vec<_>>(),
               "selected": j.selected.iter().take(10).map(hex::encode).collect::<Vec<_>>(),
               "n_selected": j.selected.len(), "witness": extra, "context": j.ctx.clone()})
    };
    let mut ok = true;
    if j.selected.len() > j.count {
        mon.violation(&format!("select/over-count/{}", j.level), base("more peers than requested", json!(null)));
        ok = false;
    }
    if let Some(s) = non_candidate {
        mon.violation(&format!("select/non-candidate/{}", j.level), base("a selected peer is not among the candidates", json!(hex::encode(s))));
        ok = false;
    }
    if let Some(s) = duplicate {
        mon.violation(&format!("select/duplicate/{}", j.level), base("a peer is selected more often than it is offered", json!(hex::encode(s))));
        ok = false;
    }
    if j.cfg.exclude {
        if let Some(i) = slot.iter().flatten().copied().find(|&i| j.trust[i] < j.cfg.floor) {
            mon.violation(
                &format!("select/below-floor/{}/{}", j.level, trust_class(j.trust[i])),
                base("a selected peer has trust below the floor", json!(show(i))),
            );
            ok = false;
        }
    }
    // ranking: (earlier, later) among the selected, then (selected, eligible-unselected)
    let mut bad: Option<(usize, usize, &'static str, &'static str)> = None;
    let consider = |a: usize, b: usize, how: &'static str, bad: &mut Option<(usize, usize, &'static str, &'static str)>| {
        // a is ranked ahead of b
        if bad.is_some() || j.cands[a] == j.cands[b] {
            return;
        }
        if j.trust[a] == j.trust[b] && dist[b] < dist[a] {
            *bad = Some((a, b, "farther-first", how));
        } else if dist[a] == dist[b] && j.trust[b] > j.trust[a] {
            *bad = Some((a, b, "less-trusted-first", how));
        }
    };
    let sl: Vec<usize> = slot.iter().flatten().copied().collect();
    for x in 0..sl.len() {
        for y in (x + 1)..sl.len() {
            consider(sl[x], sl[y], "both selected, order", &mut bad);
        }
    }
    if j.full {
        for &a in &sl {
            for u in 0..n {
                if !used[u] && eligible(u) {
                    consider(a, u, "selected vs left out", &mut bad);
                }
            }
        }
    }
    if let Some((a, b, rule, how)) = bad {
        let label = rank_label(j.cfg, &dist[a], &dist[b], j.trust[a]);
        let sig = format!("rank/{rule}/{}/{label}", j.level);
        // the Monitor keeps the first three witnesses per signature; do not build more than that per thread
        let full_detail = VIO_SENT.with(|m| {
            let mut m = m.borrow_mut();
            let c = m.entry(sig.clone()).or_insert(0u32);
            *c += 1;
            *c <= 3
        });
        let detail = if full_detail {
            base(
                "a farther peer is ranked ahead of a closer one of equal trust (full 256-bit XOR distance)",
                json!({"ahead": show(a), "behind": show(b), "relation": how,
                       "distance_ahead": hex::encode(dist[a]), "distance_behind": hex::encode(dist[b])}),
            )
        } else {
            Value::Null
        };
        mon.violation(&sig, detail);
        ok = false;
    }
    // exclusion applies to peers below the floor only: with room left, an in-range peer that is
    // not below the floor must not be left out
    if j.full && j.selected.len() < j.count {
        let lo = if j.cfg.exclude { j.cfg.floor.max(0.0) } else { 0.0 };
        if let Some(u) = (0..n).find(|&u| !used[u] && j.trust[u] >= lo && j.trust[u] <= 1.0) {
            let at_floor = j.cfg.exclude && j.trust[u] == j.cfg.floor;
            mon.violation(
                &format!("select/eligible-left-out-with-room/{}/{}", j.level, if at_floor { "trust-equals-floor" } else { "trust-above-floor" }),
                base("fewer peers than requested although an in-range peer not below the floor was offered", json!(show(u))),
            );
            ok = false;
        }
        if (0..n).any(|u| !used[u] && eligible(u)) {
            tally("observed.short-selection.out-of-range-trust-dropped", 1);
        }
    }
    ok
}

/// harness trust source
struct MapTrust {
    m: parking_lot::RwLock<HashMap<[u8; 32], f64>>,
    default: parking_lot::RwLock<f64>,
}

impl TrustProvider for MapTrust {
    fn get_trust(&self, node: &ANodeId) -> f64 {
        self.m.read().get(&node.hash).copied().unwrap_or(*self.default.read())
    }
    fn update_trust(&self, _from: &ANodeId, _to: &ANodeId, _success: bool) {}
    fn get_global_trust(&self) -> HashMap<ANodeId, f64> {
        self.m.read().iter().map(|(k, v)| (ANodeId { hash: *k }, *v)).collect()
    }
    fn remove_node(&self, node: &ANodeId) {
        self.m.write().remove(&node.hash);
    }
}

/// `tamper` != 0 only in the oracle self-test (C16_SELFTEST): the real answer is altered the way a
/// broken selector would alter it, to show the oracle is not vacuous
fn selector_case(mon: &Monitor, rng: &mut Rng, tp: &Arc<MapTrust>, tamper: u8) {
    let n = match rng.below(9) {
        0 => 0,
        1 => 1,
        2 => 2,
        3 => 64,
        _ => rng.urange(2, 64),
    };
    let mut key = rng.arr32();
    let idmode = rng.below(6) as u32;
    let prefix16 = rng.arr32();
    let base31 = rng.arr32();
    let mut lastbytes: Vec<u8> = (0..=255u8).collect();
    rng.shuffle(&mut lastbytes);
    let mut set: BTreeSet<[u8; 32]> = BTreeSet::new();
    let mut ids: Vec<[u8; 32]> = Vec::new();
    let mut guard = 0;
    while ids.len() < n && guard < 400 {
        guard += 1;
        let m = if idmode == 3 { *rng.pick(&[0u32, 1, 2, 5]) } else { idmode };
        let id = match m {
            0 => rng.arr32(),
            1 => {
                // differ only in bytes 16..31
                let mut a = rng.arr32();
                a[..16].copy_from_slice(&prefix16[..16]);
                a
            }
            2 => id_in_bucket(&key, rng.urange(81, 255), rng), // > 80 leading bits shared with the key
            4 => {
                let mut a = base31;
                a[31] = lastbytes[ids.len() % 256];
                if rng.chance(0.2) {
                    a[30] ^= 1;
                }
                a
            }
            _ => {
                // far from the key, mutually different only from byte 8 on
                let mut a = rng.arr32();
                a[..8].copy_from_slice(&prefix16[..8]);
                a
            }
        };
        if set.insert(id) {
            ids.push(id);
        }
    }
    if !ids.is_empty() && rng.chance(0.05) {
        key = *rng.pick(&ids);
    }
    let has_dup = !ids.is_empty() && rng.chance(0.04);
    if has_dup {
        let d = *rng.pick(&ids);
        ids.push(d);
        tally("select.inputs.with-duplicate-candidate", 1);
    }
    rng.shuffle(&mut ids);

    let custom = |rng: &mut Rng, kind: &'static str| SelCfg {
        weight: *rng.pick(&[0.0, 0.3, 0.5, 1.0, 0.05, 0.95]),
        floor: match rng.below(7) {
            0 => 0.0,
            1 => 0.1,
            2 => 0.2,
            3 => 0.5,
            4 => 1.0,
            _ => rng.f64(),
        },
        exclude: rng.chance(0.6),
        kind,
    };
    let which = rng.below(4);
    let (cfg, selector, storage_call) = match which {
        0 => {
            let c = TrustSelectionConfig::for_queries();
            (SelCfg::of(&c, "query-default"), TrustAwarePeerSelector::new(tp.clone(), c), false)
        }
        1 => {
            let s = TrustAwarePeerSelector::new(tp.clone(), TrustSelectionConfig::default());
            (SelCfg::of(s.storage_config(), "storage-default"), s, true)
        }
        2 => {
            let mut c = custom(rng, "query-custom");
            if rng.chance(0.3) {
                c.weight = rng.f64();
            }
            (c.clone(), TrustAwarePeerSelector::new(tp.clone(), c.to_cfg()), false)
        }
        _ => {
            let mut c = custom(rng, "storage-custom");
            if rng.chance(0.3) {
                c.weight = rng.f64();
            }
            (c.clone(), TrustAwarePeerSelector::with_storage_config(tp.clone(), TrustSelectionConfig::default(), c.to_cfg()), true)
        }
    };

    let tmode = rng.below(6) as u32;
    let flat = *rng.pick(&[0.0, 0.2, 0.5, 0.9, 1.0, 0.35]);
    let groups = [rng.f64(), rng.f64(), cfg.floor];
    {
        let mut m = tp.m.write();
        m.clear();
        *tp.default.write() = if rng.chance(0.85) { 0.0 } else { rng.f64() };
        for id in &ids {
            let t = match tmode {
                0 => flat,
                1 => {
                    if rng.chance(0.5) {
                        cfg.floor * rng.f64()
                    } else {
                        cfg.floor + (1.0 - cfg.floor) * rng.f64()
                    }
                }
                2 => rng.f64(),
                3 => hostile_trust(rng, cfg.floor),
                4 => *rng.pick(&groups),
                _ => continue, // unknown to the trust source: default answer
            };
            m.insert(*id, t);
        }
    }
    let trust: Vec<f64> = ids.iter().map(|i| tp.get_trust(&ANodeId { hash: *i })).collect();
    let count = match rng.below(8) {
        0 => 0,
        1 => 1,
        2 => ids.len(),
        3 => ids.len() + rng.urange(1, 6),
        4 => K,
        _ => rng.urange(0, 70),
    };
    let cands: Vec<NodeInfo> = ids.iter().enumerate().map(|(i, id)| ninfo(*id, i)).collect();
    let dk = DhtKey::from_bytes(key);
    let got = vkit::catch(|| {
        if storage_call {
            selector.select_storage_peers(&dk, &cands, count)
        } else {
            selector.select_peers(&dk, &cands, count)
        }
    });
    tally(&format!("select.calls.{}", cfg.kind), 1);
    let got = match got {
        Ok(g) => g,
        Err(p) => {
            mon.eval();
            mon.violation("select/panic/selector", json!({"panic": p, "n": ids.len(), "count": count, "config": format!("{cfg:?}")}));
            return;
        }
    };
    // address must travel with the id (selection returns the offered NodeInfo, not a made-up one)
    let mut sel: Vec<[u8; 32]> = got.iter().map(|x| *x.id.as_bytes()).collect();
    match tamper {
        1 => sel.reverse(),                                                          // sort ascending
        2 => sel.retain(|s| !(cfg.exclude && tp.get_trust(&ANodeId { hash: *s }) == cfg.floor)), // `<=` floor
        3 => {
            if let Some(x) = ids.iter().find(|i| !sel.contains(i)) {
                sel.push(*x); // take(count + 1) / floor ignored
            }
        }
        4 => {
            if let Some(x) = sel.first().copied() {
                sel.push(x); // same peer twice
            }
        }
        _ => {}
    }
    let ok = judge_selection(
        mon,
        &SelJudge {
            level: "selector",
            key: &key,
            cands: &ids,
            trust: &trust,
            count,
            cfg: &cfg,
            selected: &sel,
            full: true,
            gen: idmode * 8 + tmode,
            ctx: json!({"id_mode": idmode, "trust_mode": tmode, "duplicate_in_input": has_dup}),
        },
    );
    if sel.len() < count.min(ids.len()) {
        tally("select.outcome.fewer-than-possible", 1);
    }
    if ok && ids.len() >= 4 && ids.len() <= 6 && count >= 2 && count < ids.len() && cfg.exclude && sel.len() >= 2 && take_slot(1) {
        mon.sample(json!({"component": "TrustAwarePeerSelector", "config": format!("{cfg:?}"), "key": hex::encode(key), "count": count,
            "candidates": ids.iter().zip(&trust).map(|(i, t)| format!("{} trust={}", hex::encode(i), fmt_f(*t))).collect::<Vec<_>>(),
            "selected": sel.iter().map(hex::encode).collect::<Vec<_>>()}));
    }
}

/// five two-candidate inputs, one per way the documented score can collide; judged by the same
/// oracle as everything else (they make the minimal witnesses part of every run)
fn directed_selector_cases(mon: &Monitor, tp: &Arc<MapTrust>) {
    let key = [0u8; 32];
    let mut far = [0u8; 32];
    far[0] = 0x80;
    let mut near = [0u8; 32];
    near[3] = 0x10;
    let mut low_far = [0u8; 32];
    for b in low_far.iter_mut().skip(16) {
        *b = 0xff;
    }
    let mut low_near = [0u8; 32];
    low_near[31] = 1;
    let mut d2 = [0u8; 32];
    d2[15] = 2;
    let mut d1 = [0u8; 32];
    d1[15] = 1;
    let q = TrustSelectionConfig::for_queries();
    let w0 = TrustSelectionConfig { trust_weight: 0.0, min_trust_threshold: 0.1, exclude_untrusted: false };
    // (name, input order, trust of both, count, config, storage call)
    let cases: Vec<(&str, [[u8; 32]; 2], f64, usize, TrustSelectionConfig, bool)> = vec![
        ("ids equal in the top 16 bytes", [low_far, low_near], 0.5, 1, TrustSelectionConfig::for_storage(), true),
        ("both within 2^47 of the key", [d2, d1], 0.5, 1, q.clone(), false),
        ("trust -1 (negative factor)", [near, far], -1.0, 2, q.clone(), false),
        ("trust_weight 0 and trust 0", [far, near], 0.0, 2, w0, false),
        ("trust +inf", [far, near], f64::INFINITY, 2, q, false),
    ];
    for (name, ids, t, count, c, storage_call) in cases {
        {
            let mut m = tp.m.write();
            m.clear();
            m.insert(ids[0], t);
            m.insert(ids[1], t);
        }
        let (cfg, selector) = if storage_call {
            (SelCfg::of(&c, "storage-default"), TrustAwarePeerSelector::with_storage_config(tp.clone(), TrustSelectionConfig::default(), c))
        } else {
            (SelCfg::of(&c, "query-directed"), TrustAwarePeerSelector::new(tp.clone(), c))
        };
        let cands: Vec<NodeInfo> = ids.iter().enumerate().map(|(i, id)| ninfo(*id, i)).collect();
        let dk = DhtKey::from_bytes(key);
        let got = if storage_call { selector.select_storage_peers(&dk, &cands, count) } else { selector.select_peers(&dk, &cands, count) };
        let sel = ids_of(&got);
        tally("select.directed", 1);
        judge_selection(
            mon,
            &SelJudge { level: "selector", key: &key, cands: &ids, trust: &[t, t], count, cfg: &cfg, selected: &sel, full: true, gen: 999, ctx: json!({"directed": name}) },
        );
    }
}

// ───────────────────────────── B. engine ─────────────────────────────

struct Rec {
    log: parking_lot::Mutex<Vec<String>>,
    me: String,
}

#[async_trait]
impl NetworkSender for Rec {
    async fn send_message(&self, peer_id: &saorsa_core::PeerId, _protocol: &str, _data: Vec<u8>) -> saorsa_core::Result<()> {
        self.log.lock().push(peer_id.clone());
        // refuse: the engine gives up on this peer at once, no timer involved
        Err(P2PError::Internal("recording transport".into()))
    }
    fn local_peer_id(&self) -> &saorsa_core::PeerId {
        &self.me
    }
}

struct TrustOn {
    te: Arc<EigenTrustEngine>,
    q: SelCfg,
    s: SelCfg,
}

struct World {
    local: [u8; 32],
    eng: DhtCoreEngine,
    rec: Arc<Rec>,
    /// id -> copies acknowledged
    present: BTreeMap<[u8; 32], usize>,
    /// evicted / failed and not added again: id -> how
    removed: BTreeMap<[u8; 32], &'static str>,
    pool: Vec<[u8; 32]>,
    hist: Vec<String>,
    te: Arc<EigenTrustEngine>,
    trust_on: Option<TrustOn>,
    tag: usize,
}

#[derive(Clone, Copy, Debug)]
enum Api {
    Find(usize),
    ReplyNode(usize),
    ReplyValue,
    Store,
    Retrieve,
}

impl Api {
    fn name(&self) -> &'static str {
        match self {
            Api::Find(_) => "find_nodes",
            Api::ReplyNode(_) => "reply.find_node",
            Api::ReplyValue => "reply.find_value",
            Api::Store => "store",
            Api::Retrieve => "retrieve",
        }
    }
    fn random(rng: &mut Rng) -> Api {
        let n = match rng.below(5) {
            0 => 1,
            1 => K,
            2 => 20,
            3 => 500,
            _ => rng.urange(1, 64),
        };
        match rng.weighted(&[30, 15, 10, 25, 20]) {
            0 => Api::Find(n),
            1 => Api::ReplyNode(n),
            2 => Api::ReplyValue,
            3 => Api::Store,
            _ => Api::Retrieve,
        }
    }
}

fn ids_of(v: &[NodeInfo]) -> Vec<[u8; 32]> {
    v.iter().map(|x| *x.id.as_bytes()).collect()
}

impl World {
    fn tail(&self) -> Vec<String> {
        self.hist.iter().rev().take(12).rev().cloned().collect()
    }

    async fn find(&self, key: &[u8; 32], n: usize) -> Vec<[u8; 32]> {
        match self.eng.find_nodes(&DhtKey::from_bytes(*key), n).await {
            Ok(v) => ids_of(&v),
            Err(_) => Vec::new(),
        }
    }

    /// run one query, judge it, return the ids it listed (None: nothing observable)
    async fn probe(&mut self, mon: &Monitor, api: Api, key: [u8; 32]) -> Option<Vec<[u8; 32]>> {
        let dk = DhtKey::from_bytes(key);
        let ids: Vec<[u8; 32]> = match api {
            Api::Find(n) => match self.eng.find_nodes(&dk, n).await {
                Ok(v) => ids_of(&v),
                Err(e) => {
                    tally("skipped.find_nodes-error", 1);
                    let _ = e;
                    return None;
                }
            },
            Api::ReplyNode(count) => {
                let r = self.eng.handle_request(DhtRequestWrapper { id: "q".into(), message: DhtMessage::FindNode { target: dk.clone(), count } }).await;
                match r.response {
                    DhtResponse::FindNodeReply { nodes, .. } => ids_of(&nodes),
                    _ => {
                        tally("skipped.reply-variant", 1);
                        return None;
                    }
                }
            }
            Api::ReplyValue => {
                let r = self.eng.handle_request(DhtRequestWrapper { id: "v".into(), message: DhtMessage::FindValue { key: dk.clone() } }).await;
                match r.response {
                    DhtResponse::FindValueReply { value: None, nodes } => ids_of(&nodes),
                    DhtResponse::FindValueReply { .. } => {
                        tally("skipped.find_value-local-hit", 1);
                        return None;
                    }
                    _ => {
                        tally("skipped.reply-variant", 1);
                        return None;
                    }
                }
            }
            Api::Store => match self.eng.store(&dk, vec![0xC1, 0x6]).await {
                Ok(rcpt) => rcpt.stored_at.iter().map(|n| *n.as_bytes()).collect(),
                Err(_) => {
                    tally("skipped.store-error", 1);
                    return None;
                }
            },
            Api::Retrieve => {
                if self.eng.verif_store_dump().await.iter().any(|(k, _)| *k == key) {
                    tally("skipped.retrieve-local-hit", 1);
                    return None;
                }
                self.rec.log.lock().clear();
                let _ = self.eng.retrieve(&dk).await;
                let log: Vec<String> = std::mem::take(&mut *self.rec.log.lock());
                let mut out = Vec::new();
                for s in log {
                    let mut a = [0u8; 32];
                    if hex::decode_to_slice(&s, &mut a).is_ok() {
                        out.push(a);
                    } else {
                        tally("skipped.retrieve-peer-id-not-hex", 1);
                        return None;
                    }
                }
                out
            }
        };
        tally(&format!("engine.answers.{}", api.name()), 1);

        // evicted / failed peers must be absent
        if !self.removed.is_empty() {
            mon.eval();
            if let Some((bad, how)) = ids.iter().find_map(|i| self.removed.get(i).map(|h| (*i, *h))) {
                let in_table = self.eng.verif_routing_snapshot().await.iter().any(|(i, _)| *i == bad);
                mon.violation(
                    &format!("removed-peer-listed/{}/{}", api.name(), how),
                    json!({"api": format!("{api:?}"), "key": hex::encode(key), "local": hex::encode(self.local),
                           "peer": hex::encode(bad), "removed_by": how, "still_in_routing_table": in_table,
                           "answer": ids.iter().take(12).map(|i| hex8(i)).collect::<Vec<_>>(), "history_tail": self.tail()}),
                );
            }
        }

        // the engine's own choice of peers
        if matches!(api, Api::Store | Api::Retrieve) {
            let widen = if matches!(api, Api::Store) { 3 * K } else { 2 * K };
            let wide = self.find(&key, widen).await;
            let narrow = self.find(&key, K).await;
            let visible = if matches!(api, Api::Store) { K } else { 3 };
            match &self.trust_on {
                None => {
                    mon.eval();
                    let cut = |v: &Vec<[u8; 32]>| v.iter().take(K).take(visible).copied().collect::<Vec<_>>();
                    let (e1, e2) = (cut(&wide), cut(&narrow));
                    let tsize: usize = self.present.len();
                    if tsize > K {
                        case_once(mon, ("disabled", api.name(), bucket_of(&self.local, &key).unwrap_or(256) / 4, tsize.min(48)));
                    }
                    tally(&format!("engine.disabled.{}", api.name()), 1);
                    {
                        // observation only (C02 territory): the true closest peers of the table
                        let snap = self.eng.verif_routing_snapshot().await;
                        let mut t: Vec<[u8; 32]> = snap.iter().map(|(i, _)| *i).filter(|i| *i != self.local).collect::<BTreeSet<_>>().into_iter().collect();
                        t.sort_by_key(|i| xor(i, &key));
                        t.truncate(visible);
                        if t != ids {
                            tally(&format!("observed.c02.disabled-{}-differs-from-true-closest", api.name()), 1);
                        }
                    }
                    if ids != e1 && ids != e2 {
                        let what = if ids.iter().any(|i| !wide.contains(i) && !narrow.contains(i)) {
                            "not-in-find_nodes-answer"
                        } else if ids.windows(2).any(|p| xor(&p[0], &key) > xor(&p[1], &key)) {
                            "not-in-distance-order"
                        } else if ids.len() != e1.len() {
                            "wrong-count"
                        } else {
                            "not-the-closest"
                        };
                        mon.violation(
                            &format!("disabled/{}/{what}", api.name()),
                            json!({"key": hex::encode(key), "local": hex::encode(self.local), "chosen": ids.iter().map(hex::encode).collect::<Vec<_>>(),
                                   "find_nodes_widened_prefix": e1.iter().map(hex::encode).collect::<Vec<_>>(),
                                   "find_nodes_k_prefix": e2.iter().map(hex::encode).collect::<Vec<_>>(), "history_tail": self.tail()}),
                        );
                    }
                    if tsize > K && ids.len() == visible && !self.removed.is_empty() && take_slot(2) {
                        mon.sample(json!({"component": "engine, selection disabled", "api": api.name(), "key": hex::encode(key), "table_size": tsize,
                            "chosen": ids.iter().map(|i| hex8(i)).collect::<Vec<_>>(), "engine_find_nodes_prefix": e1.iter().map(|i| hex8(i)).collect::<Vec<_>>()}));
                    }
                }
                Some(on) => {
                    let trust: Vec<f64> = wide.iter().map(|i| on.te.get_trust(&ANodeId { hash: *i })).collect();
                    let cfg = if matches!(api, Api::Store) { &on.s } else { &on.q };
                    tally(&format!("engine.enabled.{}", api.name()), 1);
                    let lvl = if matches!(api, Api::Store) { "engine.store" } else { "engine.retrieve" };
                    let ok = judge_selection(
                        mon,
                        &SelJudge {
                            level: lvl,
                            key: &key,
                            cands: &wide,
                            trust: &trust,
                            count: K,
                            cfg,
                            selected: &ids,
                            full: matches!(api, Api::Store),
                            gen: 0,
                            ctx: json!({"local": hex::encode(self.local), "history_tail": self.tail()}),
                        },
                    );
                    if ok && matches!(api, Api::Store) && wide.len() > 4 && wide.len() <= 12 && trust.iter().any(|t| *t < cfg.floor) && ids.len() >= 2 && take_slot(3) {
                        mon.sample(json!({"component": "engine, trust selection enabled", "api": api.name(), "key": hex::encode(key), "config": format!("{cfg:?}"),
                            "candidates": wide.iter().zip(&trust).take(12).map(|(i, t)| format!("{} trust={}", hex::encode(i), fmt_f(*t))).collect::<Vec<_>>(),
                            "stored_at": ids.iter().map(hex::encode).collect::<Vec<_>>()}));
                    }
                }
            }
        }
        Some(ids)
    }

    async fn add(&mut self, id: [u8; 32], rng: &mut Rng, what: &str) -> bool {
        self.tag += 1;
        let r = self.eng.add_node(ninfo(id, self.tag)).await;
        self.hist.push(format!("{what} {} -> {}", hex8(&id), if r.is_ok() { "ok" } else { "err" }));
        if r.is_ok() {
            *self.present.entry(id).or_insert(0) += 1;
            self.removed.remove(&id);
            if rng.chance(0.55) {
                self.te.add_pre_trusted(ANodeId { hash: id }).await;
            }
        }
        r.is_ok()
    }

    async fn remove(&mut self, id: [u8; 32], rng: &mut Rng) -> &'static str {
        let nid = NodeId::from_bytes(id);
        let how = match rng.below(3) {
            0 => {
                let _ = self.eng.handle_node_failure(nid).await;
                "failed"
            }
            1 => {
                let reason = match rng.below(4) {
                    0 => EvictionReason::ConsecutiveFailures(3),
                    1 => EvictionReason::LowTrust("0.0100".into()),
                    2 => EvictionReason::CloseGroupRejection,
                    _ => EvictionReason::Stale,
                };
                let _ = self.eng.evict_node(&nid, reason).await;
                "evicted"
            }
            _ => {
                let f = match rng.below(7) {
                    0 => CloseGroupFailure::NotInCloseGroup,
                    1 => CloseGroupFailure::EvictedFromCloseGroup,
                    2 => CloseGroupFailure::InsufficientConfirmation,
                    3 => CloseGroupFailure::LowTrustScore,
                    4 => CloseGroupFailure::InsufficientGeographicDiversity,
                    5 => CloseGroupFailure::SuspectedCollusion,
                    _ => CloseGroupFailure::AttackModeTriggered,
                };
                let _ = self.eng.evict_node_for_security(&nid, f).await;
                "evicted-security"
            }
        };
        self.hist.push(format!("{how} {}", hex8(&id)));
        if self.present.remove(&id).is_some() || self.removed.contains_key(&id) {
            self.removed.insert(id, how);
        }
        how
    }

    fn some_key(&self, rng: &mut Rng, around: Option<[u8; 32]>) -> [u8; 32] {
        let near = |id: [u8; 32], rng: &mut Rng| {
            let mut k = id;
            flip_bit(&mut k, rng.urange(160, 255));
            k
        };
        match (rng.below(10), around) {
            (0..=4, Some(v)) => v,
            (5..=6, Some(v)) => near(v, rng),
            (7, _) => self.local,
            (8, _) if !self.removed.is_empty() => {
                let v: Vec<&[u8; 32]> = self.removed.keys().collect();
                **rng.pick(&v)
            }
            (9, _) if !self.pool.is_empty() => near(*rng.pick(&self.pool), rng),
            _ => rng.arr32(),
        }
    }

    fn enable(&mut self, rng: &mut Rng) {
        let q = if rng.chance(0.6) {
            TrustSelectionConfig::for_queries()
        } else {
            TrustSelectionConfig { trust_weight: *rng.pick(&[0.0, 0.3, 0.7, 1.0]), min_trust_threshold: rng.f64(), exclude_untrusted: rng.chance(0.4) }
        };
        if rng.chance(0.6) {
            self.eng.enable_trust_selection(self.te.clone(), q.clone());
            self.trust_on = Some(TrustOn { te: self.te.clone(), q: SelCfg::of(&q, "engine-query"), s: SelCfg::of(&TrustSelectionConfig::for_storage(), "engine-storage-default") });
        } else {
            let s = TrustSelectionConfig {
                trust_weight: *rng.pick(&[0.0, 0.5, 1.0]),
                min_trust_threshold: *rng.pick(&[0.05, 0.2, 0.5, 0.9, 0.95]),
                exclude_untrusted: rng.chance(0.75),
            };
            self.eng.enable_trust_selection_with_storage_config(self.te.clone(), q.clone(), s.clone());
            self.trust_on = Some(TrustOn { te: self.te.clone(), q: SelCfg::of(&q, "engine-query"), s: SelCfg::of(&s, "engine-storage-custom") });
        }
        self.hist.push("enable trust selection".into());
    }
}

async fn engine_scenario(mon: &Monitor, rng: &mut Rng) {
    let local = rng.arr32();
    let mut eng = match DhtCoreEngine::verif_new_log_only(NodeId::from_bytes(local)) {
        Ok(e) => e,
        Err(e) => {
            mon.inconclusive(&format!("engine construction failed: {e}"));
            return;
        }
    };
    let rec = Arc::new(Rec { log: parking_lot::Mutex::new(Vec::new()), me: "harness".into() });
    eng.set_transport(rec.clone());
    let te = Arc::new(EigenTrustEngine::new(HashSet::new()));
    let mut w = World { local, eng, rec, present: BTreeMap::new(), removed: BTreeMap::new(), pool: Vec::new(), hist: Vec::new(), te, trust_on: None, tag: 0 };
    if rng.chance(0.5) {
        w.enable(rng);
    }
    let buckets: Vec<usize> = match rng.below(6) {
        0 => vec![0, 1, 2, 3],
        1 => vec![0, 1],
        2 => vec![255, 254, 253, 250, 0],
        3 => (0..rng.urange(2, 12)).map(|_| rng.urange(0, 255)).collect(),
        4 => vec![rng.urange(100, 140), rng.urange(100, 140), rng.urange(0, 5)],
        _ => (0..rng.urange(8, 30)).map(|_| rng.urange(0, 24)).collect(),
    };
    for _ in 0..rng.urange(4, 40) {
        let id = id_in_bucket(&w.local, *rng.pick(&buckets), rng);
        w.pool.push(id);
        w.add(id, rng, "add").await;
    }
    let nops = rng.urange(6, mon.by_tier(40, 70));
    for _ in 0..nops {
        match rng.weighted(&[22, 40, 12, 4, 3, 4, 5, 10]) {
            0 => {
                let id = id_in_bucket(&w.local, *rng.pick(&buckets), rng);
                w.pool.push(id);
                w.add(id, rng, "add").await;
            }
            1 => {
                // query, remove, same query again
                let victims: Vec<[u8; 32]> = w.present.keys().copied().collect();
                if victims.is_empty() {
                    continue;
                }
                let v = *rng.pick(&victims);
                let copies = w.present.get(&v).copied().unwrap_or(1);
                let api = Api::random(rng);
                let key = w.some_key(rng, Some(v));
                let before = w.probe(mon, api, key).await;
                let listed = before.as_ref().map(|b| b.contains(&v)).unwrap_or(false);
                let how = w.remove(v, rng).await;
                tally(&format!("engine.removals.{how}"), 1);
                let after = w.probe(mon, api, key).await;
                if listed && after.is_some() {
                    tally("engine.removals.victim-was-listed-before", 1);
                    let nclass = match api {
                        Api::Find(n) | Api::ReplyNode(n) => n.min(65),
                        _ => 0,
                    };
                    case_once(mon, ("removed", api.name(), how, bucket_of(&w.local, &v).unwrap_or(256) / 8, nclass, copies.min(3), w.trust_on.is_some()));
                    if matches!(api, Api::Find(_) | Api::Store) && take_slot(4) {
                        mon.sample(json!({"component": "engine, eviction", "api": format!("{api:?}"), "key": hex::encode(key), "removed": hex::encode(v), "how": how,
                            "answer_before": before.unwrap_or_default().iter().take(10).map(|i| hex8(i)).collect::<Vec<_>>(),
                            "answer_after": after.unwrap_or_default().iter().take(10).map(|i| hex8(i)).collect::<Vec<_>>()}));
                    }
                }
                // and through the other doors
                for _ in 0..2 {
                    let api = Api::random(rng);
                    let key = w.some_key(rng, Some(v));
                    w.probe(mon, api, key).await;
                }
            }
            2 => {
                let r: Vec<[u8; 32]> = w.removed.keys().copied().collect();
                if let Some(id) = (!r.is_empty()).then(|| *rng.pick(&r)) {
                    w.add(id, rng, "re-add").await;
                }
            }
            3 => {
                // a second copy of a present peer: removal must take every copy
                let p: Vec<[u8; 32]> = w.present.keys().copied().collect();
                if let Some(id) = (!p.is_empty()).then(|| *rng.pick(&p)) {
                    w.add(id, rng, "add-again").await;
                }
            }
            4 => {
                let id = rng.arr32();
                w.remove(id, rng).await;
            }
            5 => {
                if w.trust_on.is_some() {
                    w.eng.disable_trust_selection();
                    w.trust_on = None;
                    w.hist.push("disable trust selection".into());
                } else {
                    w.enable(rng);
                }
            }
            6 => {
                // let the real trust engine recompute a few scores
                let p: Vec<[u8; 32]> = w.present.keys().copied().collect();
                if p.len() >= 2 {
                    for _ in 0..rng.urange(1, 6) {
                        let (a, b) = (*rng.pick(&p), *rng.pick(&p));
                        if a != b {
                            w.te.update_local_trust(&ANodeId { hash: a }, &ANodeId { hash: b }, rng.chance(0.8)).await;
                        }
                    }
                    let _ = w.te.compute_global_trust().await;
                    w.hist.push("trust recomputed".into());
                }
            }
            _ => {}
        }
        let api = Api::random(rng);
        let key = w.some_key(rng, None);
        w.probe(mon, api, key).await;
    }
    // closing sweep: every removed peer, asked for by name
    let r: Vec<[u8; 32]> = w.removed.keys().copied().take(6).collect();
    for id in r {
        w.probe(mon, Api::Find(rng.urange(1, 64)), id).await;
        w.probe(mon, Api::Store, id).await;
    }
    tally("engine.scenarios", 1);
}

fn main() {
    let mon = Monitor::new("C16", "exploration");
    mon.set_rule(
        "case = (A) one candidate-set check of an EvictionManager after a seeded success/failure/trust/mark/forget history, non-trivial when the state \
         holds >=1 candidate and >=1 non-candidate and the history contained a clearing event; distinct by (threshold, trust-threshold class, reason kinds \
         present, #candidates, clearing kinds). (B) one query repeated after an eviction/failure, non-trivial when the removed peer was listed by the same \
         query just before; distinct by (api, removal path, bucket/8, n, copies, trust on/off); with selection disabled one store/retrieve on a table of \
         more than K peers, distinct by (api, key bucket/4, table size). (C) one selection with >=2 eligible candidates, count>=1 and at least one \
         equal-trust pair or one peer under the floor; distinct by (level, config kind, #candidates, count class, #excluded, #equal-trust pairs class, id/trust generator)",
    );
    mon.assume("addresses are non-IP strings so the admission gates of C13 do not interfere");
    mon.assume("trust < threshold is read with IEEE semantics: a NaN score is not below any threshold");
    mon.assume("engine answers are judged only for presence/absence of evicted or failed peers; duplicates, hidden closer peers and the local id in find_nodes answers are C02's findings and are not judged here");
    mon.assume("with trust selection disabled the engine's choice (store receipt; peers dialled by retrieve, first 3 visible) is compared with the engine's own find_nodes answer for the same key (prefix of find_nodes(key, 3K resp. 2K) or of find_nodes(key, K), K = 8), so that C02's defects are not reported twice");
    mon.assume("with trust selection enabled in the engine, the candidates of a store are taken to be find_nodes(key, 3K) and of a retrieve find_nodes(key, 2K) (documented widening); trust is read from the same EigenTrustEngine through TrustProvider::get_trust");
    mon.assume("ranking is judged on the full 256-bit XOR distance and exact f64 equality of trust; pairs involving a NaN trust carry no ranking claim");
    mon.assume("'eligible-left-out-with-room' reads the policy as excluding exactly the peers below the floor: it fires only for a peer with trust in [floor,1] left out while fewer than `count` were returned");
    mon.assume("selector configurations keep trust_weight in [0,1]; trust answers range over [0,1], NaN, +-inf, -1 and 2");

    if let Ok(t) = std::env::var("C16_SELFTEST") {
        // not part of the check: run with VERIF_ROOT pointing at a scratch directory
        let tamper: u8 = t.parse().unwrap_or(1);
        let tp = Arc::new(MapTrust { m: parking_lot::RwLock::new(HashMap::new()), default: parking_lot::RwLock::new(0.0) });
        let mut rng = Rng::new(mon.seed);
        for _ in 0..20_000 {
            selector_case(&mon, &mut rng, &tp, tamper);
        }
        flush_tally(&mon);
        mon.finish();
    }
    // one-off parts first, so that their (minimal) witnesses are the ones kept in the replay files
    long_failure_run(&mon);
    directed_selector_cases(&mon, &Arc::new(MapTrust { m: parking_lot::RwLock::new(HashMap::new()), default: parking_lot::RwLock::new(0.0) }));
    flush_tally(&mon);
    let rounds = mon.by_tier(2400u64, 12_000);
    let sel_per_round = 160u64;
    vkit::run_shards(mon.shards(), mon.seed, |_i, mut rng| {
        let rt = checks::rt(true); // paused clock: EigenTrustEngine::compute_global_trust sits in a 2 s tokio timeout
        let tp = Arc::new(MapTrust { m: parking_lot::RwLock::new(HashMap::new()), default: parking_lot::RwLock::new(0.0) });
        for r in 0..rounds {
            if mon.time_up() {
                break;
            }
            let t0 = std::time::Instant::now();
            eviction_history(&mon, &mut rng);
            let t1 = std::time::Instant::now();
            if r % 2 == 0 {
                rt.block_on(engine_scenario(&mon, &mut rng));
            }
            let t2 = std::time::Instant::now();
            for _ in 0..sel_per_round {
                selector_case(&mon, &mut rng, &tp, 0);
            }
            let t3 = std::time::Instant::now();
            tally("time_us.evict", (t1 - t0).as_micros() as u64);
            tally("time_us.engine", (t2 - t1).as_micros() as u64);
            tally("time_us.select", (t3 - t2).as_micros() as u64);
            tally("rounds", 1);
            if r % 16 == 15 {
                flush_tally(&mon);
            }
        }
        flush_tally(&mon);
    });
    mon.finish();
}
