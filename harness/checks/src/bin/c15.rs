//! C15 — close-group membership needs a Byzantine quorum; f liars cannot force it.
//!
//! `CloseGroupValidator::validate_membership` is a pure verdict function. The monitor feeds it
//!   * a few fixed probes with the default configuration (so every replay starts with a small witness),
//!   * EXHAUSTIVELY every witness multiset of size 0..=4 (quick) / 0..=5 (thorough) over the grid
//!     confirm{y,n} x trust{none,0.1,0.29,0.3,0.9} x region{none,A,B,C,D} x latency{40,50,200 ms},
//!     for both modes, both enforcement modes, candidate trust none/low/high and several
//!     `min_peers_to_query` values, and
//!   * seeded samples of larger sets (up to 40 witnesses), directed at the threshold, at the
//!     3f+1 corollary, at the unanimous-confirmation corollary and at repeated answers from one peer,
//! and judges every observed verdict with a small restatement of the PROPERTY (not of the code):
//!   - acceptance in attack mode needs the four stated conditions,
//!   - acceptance in normal mode needs the confirming share of witness trust to reach the threshold,
//!   - confirm -> deny never turns a rejection into an acceptance,
//!   - <= f confirmations among 3f+1 trusted witnesses are never accepted,
//!   - a unanimous, trusted, regionally spread, latency-separated confirmation is accepted.
//! Where the statement is silent (the collusion heuristic, the weight of unknown trust, candidate
//! gate, order of responses) nothing is demanded; those are only counted.

use saorsa_core::dht::routing_maintenance::close_group_validator::{
    CloseGroupEnforcementMode, CloseGroupFailure, CloseGroupResponse, CloseGroupValidationResult,
    CloseGroupValidator, CloseGroupValidatorConfig,
};
use saorsa_core::dht::routing_maintenance::MaintenanceConfig;
use saorsa_core::dht::DhtNodeId;
use serde_json::{json, Value};
use std::collections::HashSet;
use std::sync::atomic::{AtomicU64, Ordering};
use std::time::{Duration, Instant};
use vkit::{Monitor, Rng};

/// Reading of "the confirmations span the required number of regions" in attack mode.
/// `true`: the confirmations meant are those of the sufficiently trusted witnesses (the sentence
/// runs "... trusted witnesses answered, ... fraction of THEM confirm, THE confirmations span ...",
/// and attack mode discards every other answer). `false`: any confirming answer may supply a region.
/// Both readings are evaluated; under `false` the strict-only cases are merely counted.
const REGIONS_MUST_COME_FROM_TRUSTED_CONFIRMERS: bool = true;

/// Reading of "witness" in the repeated-answers lane. `true`: a witness is a distinct peer id, so a
/// peer answering k times is ONE witness ("3f+1 trusted witnesses, f of them answering arbitrarily").
/// `false`: every answer is a witness of its own; the lane then only counts what it sees.
const WITNESS_IS_A_DISTINCT_PEER: bool = true;

/// "distinct response times" in the acceptance corollary: the library calls two latencies similar
/// when they are closer than 10 ms (hard-coded). Used ONLY as the premise of that corollary.
const SEPARATED_NS: u64 = 10_000_000;

// ---------------------------------------------------------------------------------------------
// abstract witness + the reference restatement of the property
// ---------------------------------------------------------------------------------------------

#[derive(Clone, Copy, Debug)]
struct W {
    yes: bool,
    trust: Option<f64>,
    /// 0 = unknown region, k = k-th region name
    region: u8,
    lat_ns: u64,
    peer: u32,
}

/// the library's configuration values, used as parameters of the statement
#[derive(Clone, Copy, Debug)]
struct Policy {
    min_witnesses: usize,
    bft_fraction: f64,
    share: f64,
    min_trust: f64,
    min_regions: usize,
}

impl Policy {
    fn of(c: &CloseGroupValidatorConfig) -> Self {
        Policy {
            min_witnesses: c.min_peers_to_query,
            bft_fraction: c.bft_threshold,
            share: c.trust_weighted_threshold,
            min_trust: c.min_witness_trust,
            min_regions: c.min_regions,
        }
    }
}

#[derive(Clone, Copy, Debug, Default)]
struct Facts {
    n: usize,
    trusted: usize,
    trusted_yes: usize,
    regions_yes: usize,
    regions_yes_trusted: usize,
    known_yes: f64,
    known_all: f64,
    unk_yes: usize,
    unk_all: usize,
    all_yes: bool,
    separated: bool,
    /// a trust value outside [0,1] or not finite is present: "share of trust" is undefined
    odd_trust: bool,
}

// ---- reference (the statement, ~25 lines) ----------------------------------------------------
fn facts(ws: &[W], p: &Policy) -> Facts {
    let mut f = Facts { n: ws.len(), all_yes: true, separated: true, ..Default::default() };
    let (mut ry, mut ryt) = (0u64, 0u64);
    for (i, w) in ws.iter().enumerate() {
        let trusted = matches!(w.trust, Some(t) if t >= p.min_trust);
        let rbit = if w.region > 0 { 1u64 << w.region } else { 0 };
        f.trusted += trusted as usize;
        f.trusted_yes += (trusted && w.yes) as usize;
        if w.yes { ry |= rbit; if trusted { ryt |= rbit; } } else { f.all_yes = false; }
        match w.trust {
            Some(t) if (0.0..=1.0).contains(&t) => { f.known_all += t; if w.yes { f.known_yes += t; } }
            Some(_) => f.odd_trust = true,
            None => { f.unk_all += 1; f.unk_yes += w.yes as usize; }
        }
        if ws[..i].iter().any(|v| v.lat_ns.abs_diff(w.lat_ns) < SEPARATED_NS) { f.separated = false; }
    }
    f.regions_yes = ry.count_ones() as usize;
    f.regions_yes_trusted = ryt.count_ones() as usize;
    f
}
/// attack mode: which stated condition for acceptance is missing (None = acceptance permitted)
fn bft_missing(f: &Facts, p: &Policy) -> Option<&'static str> {
    if f.trusted < p.min_witnesses { return Some("fewer-trusted-witnesses-than-minimum"); }
    if (f.trusted_yes as f64) < p.bft_fraction * f.trusted as f64 - 1e-9 { return Some("confirming-fraction-below-threshold"); }
    if f.regions_yes < p.min_regions { return Some("confirming-regions-below-minimum"); }
    if f.regions_yes_trusted < p.min_regions { return Some("regions-supplied-by-untrusted-confirmers"); }
    None
}
/// normal mode: confirming share of witness trust, unknown trust weighing `u` (statement is silent on u)
fn share(f: &Facts, u: f64) -> Option<f64> {
    let tot = f.known_all + u * f.unk_all as f64;
    (tot > 0.0).then(|| (f.known_yes + u * f.unk_yes as f64) / tot)
}
/// the share is monotone in u, so the most favourable u in [0,1] is an end point
fn best_share(f: &Facts) -> Option<f64> {
    match (share(f, 0.0), share(f, 1.0)) { (Some(a), Some(b)) => Some(a.max(b)), (a, b) => a.or(b) }
}
fn premise_3f1(f: &Facts) -> bool { f.trusted >= 1 && f.trusted_yes <= (f.trusted - 1) / 3 }
fn premise_unanimous(f: &Facts, p: &Policy, cand: Option<f64>) -> bool {
    f.n >= 1 && f.all_yes && f.separated && !f.odd_trust && f.trusted >= p.min_witnesses
        && f.regions_yes_trusted >= p.min_regions && matches!(cand, Some(t) if t >= p.min_trust && t <= 1.0)
}
// ---- end of reference ------------------------------------------------------------------------

// ---------------------------------------------------------------------------------------------
// plumbing
// ---------------------------------------------------------------------------------------------

const C_BFT_ACC: usize = 0;
const C_BFT_REJ: usize = 1;
const C_NOR_ACC: usize = 2;
const C_NOR_REJ: usize = 3;
const C_R_CONF: usize = 4;
const C_R_TRUST: usize = 5;
const C_R_DIV: usize = 6;
const C_R_COLL: usize = 7;
const C_NOR_ACC_WARN: usize = 8;
const C_P_3F1: usize = 9;
const C_P_UNAN: usize = 10;
const C_FLIPS: usize = 11;
const C_SKIP_ZERO: usize = 12;
const C_SKIP_ODD: usize = 13;
const C_UNEXPLAINED: usize = 14;
const C_USEDBFT: usize = 15;
const C_ORDER: usize = 16;
const C_NONTRIV: usize = 17;
const C_CAND_LOW_ACC: usize = 18;
const C_CANON: usize = 19;
const C_OOD_FLIP: usize = 20;
const C_SAMPLED: usize = 21;
const C_SHAPES: usize = 22;
const C_PERMS: usize = 23;
const C_DUP: usize = 24;
const C_DUP_NORMAL: usize = 25;
const C_LENIENT_ONLY: usize = 26;
const C_BFT_FLAG_SEEN: usize = 27;
const C_CAND_NONE_ACC: usize = 28;
const C_DUP_BFT: usize = 29;
const NAMES: [&str; 30] = [
    "verdict.bft.accept",
    "verdict.bft.reject",
    "verdict.normal.accept",
    "verdict.normal.reject",
    "reason.insufficient_confirmation",
    "reason.low_trust_candidate",
    "reason.geographic_diversity",
    "reason.suspected_collusion",
    "verdict.normal.accept_with_diversity_warning",
    "premise.3f1_instances",
    "premise.unanimous_instances",
    "flips.judged",
    "skipped.zero_total_trust",
    "skipped.out_of_domain_trust",
    "observed.reject_not_explained_by_statement",
    "observed.used_bft_flag_differs_from_mode",
    "observed.order_dependent_verdicts",
    "cases.size_ge_min_responses",
    "observed.low_trust_candidate_accepted",
    "exhaustive.canonical_multiset_verdicts",
    "observed.out_of_domain_trust_flip_nonmonotone",
    "sampled.inputs",
    "exhaustive.shapes",
    "permutations.checked",
    "repeated_answers.inputs",
    "observed.repeated_answers_accept_in_normal_mode",
    "observed.bft_accept_with_regions_from_untrusted_confirmers",
    "observed.bft_collusion_flag_raised",
    "observed.unknown_trust_candidate_accepted",
    "observed.repeated_answers_accept_in_attack_mode_against_distinct_peer_reading",
];

struct Loc {
    evals: u64,
    c: [u64; NAMES.len()],
    cache: Vec<u64>,
    seen: HashSet<u64>,
    sampled_kinds: u32,
}

impl Loc {
    fn new() -> Self {
        Loc { evals: 0, c: [0; NAMES.len()], cache: vec![u64::MAX; 1 << 16], seen: HashSet::new(), sampled_kinds: 0 }
    }
    fn flush(&mut self, mon: &Monitor) {
        mon.evals(self.evals);
        self.evals = 0;
        for (i, v) in self.c.iter_mut().enumerate() {
            if *v > 0 {
                mon.count(NAMES[i], *v);
                *v = 0;
            }
        }
    }
    /// register an abstraction-class signature, going to the shared set only when locally new
    #[inline]
    fn case(&mut self, mon: &Monitor, sig: u64) {
        let slot = (sig.wrapping_mul(0x9E37_79B9_7F4A_7C15) >> 48) as usize;
        if self.cache[slot] == sig {
            return;
        }
        self.cache[slot] = sig;
        if self.seen.insert(sig) {
            mon.case(sig);
        }
    }
}

struct V {
    v: CloseGroupValidator,
    bft: bool,
    log_only: bool,
    p: Policy,
    label: String,
    cfg_id: u64,
    /// which of G_CANDS this validator is run with in the exhaustive lane (bit per index)
    cands: u8,
}

fn mk(cfg: &CloseGroupValidatorConfig, bft: bool, label: &str, cfg_id: u64) -> V {
    let v = CloseGroupValidator::new(cfg.clone());
    v.set_attack_mode(bft);
    V {
        v,
        bft,
        log_only: cfg.enforcement_mode == CloseGroupEnforcementMode::LogOnly,
        p: Policy::of(cfg),
        label: label.to_string(),
        cfg_id,
        cands: 0b111,
    }
}

#[derive(Clone, Copy)]
struct Obs {
    valid: bool,
    reasons: u8,
    used_bft: bool,
}
const R_CONF: u8 = 1;
const R_TRUST: u8 = 2;
const R_DIV: u8 = 4;
const R_COLL: u8 = 8;

fn observe(r: &CloseGroupValidationResult) -> Obs {
    let mut bits = 0u8;
    for x in &r.failure_reasons {
        bits |= match x {
            CloseGroupFailure::InsufficientConfirmation => R_CONF,
            CloseGroupFailure::LowTrustScore => R_TRUST,
            CloseGroupFailure::InsufficientGeographicDiversity => R_DIV,
            CloseGroupFailure::SuspectedCollusion => R_COLL,
            _ => 16,
        };
    }
    Obs { valid: r.is_valid, reasons: bits, used_bft: r.used_bft_consensus }
}

fn reasons_str(bits: u8) -> String {
    let mut v = Vec::new();
    if bits & R_CONF != 0 { v.push("InsufficientConfirmation"); }
    if bits & R_TRUST != 0 { v.push("LowTrustScore"); }
    if bits & R_DIV != 0 { v.push("InsufficientGeographicDiversity"); }
    if bits & R_COLL != 0 { v.push("SuspectedCollusion"); }
    if bits & 16 != 0 { v.push("other"); }
    if v.is_empty() { "none".into() } else { v.join("+") }
}

fn region_name(r: u8) -> Option<String> {
    (r > 0).then(|| ((b'A' + r - 1) as char).to_string())
}

fn peer_id(p: u32) -> DhtNodeId {
    let mut b = [0u8; 32];
    b[..4].copy_from_slice(&p.to_be_bytes());
    b[31] = 0x15;
    DhtNodeId::from_bytes(b)
}

fn to_resp(w: &W, now: Instant) -> CloseGroupResponse {
    CloseGroupResponse {
        peer_id: peer_id(w.peer),
        confirms_membership: w.yes,
        peer_trust_score: w.trust,
        peer_region: region_name(w.region),
        response_latency: Duration::from_nanos(w.lat_ns),
        received_at: now,
    }
}

fn w_str(w: &W) -> String {
    format!(
        "{} trust={} region={} lat={:.6}ms peer={}",
        if w.yes { "CONFIRM" } else { "deny" },
        w.trust.map(|t| format!("{t}")).unwrap_or_else(|| "none".into()),
        region_name(w.region).unwrap_or_else(|| "none".into()),
        w.lat_ns as f64 / 1e6,
        w.peer
    )
}

fn detail(v: &V, cand: Option<f64>, ws: &[W], f: &Facts, o: &Obs) -> Value {
    json!({
        "mode": if v.bft { "attack(BFT)" } else { "normal" },
        "config": v.label, "log_only": v.log_only,
        "policy": {"min_witnesses": v.p.min_witnesses, "bft_fraction": v.p.bft_fraction, "normal_share": v.p.share,
                   "min_witness_trust": v.p.min_trust, "min_regions": v.p.min_regions},
        "candidate_trust": cand,
        "witness_count": ws.len(),
        "witnesses": ws.iter().take(32).map(w_str).collect::<Vec<_>>(),
        "reference_facts": {"trusted": f.trusted, "trusted_confirming": f.trusted_yes,
            "confirming_regions_all": f.regions_yes, "confirming_regions_trusted": f.regions_yes_trusted,
            "share_unknown_as_0.5": share(f, 0.5), "best_share": best_share(f),
            "all_confirm": f.all_yes, "latencies_pairwise_separated": f.separated},
        "observed": {"is_valid": o.valid, "failure_reasons": reasons_str(o.reasons), "used_bft_consensus": o.used_bft},
    })
}

fn cand_class(p: &Policy, cand: Option<f64>) -> u64 {
    match cand {
        None => 0,
        Some(t) if t >= p.min_trust => 2,
        Some(_) => 1,
    }
}

/// One observed verdict against the statement. `ws` is only used for witnesses in reports.
fn judge(mon: &Monitor, loc: &mut Loc, v: &V, cand: Option<f64>, f: &Facts, o: Obs, ws: &[W]) {
    loc.evals += 1;
    let p = &v.p;
    let mode = if v.bft { "bft" } else { "normal" };
    let cc = cand_class(p, cand);
    // ---- bookkeeping (no demands) ----
    match (v.bft, o.valid) {
        (true, true) => loc.c[C_BFT_ACC] += 1,
        (true, false) => loc.c[C_BFT_REJ] += 1,
        (false, true) => loc.c[C_NOR_ACC] += 1,
        (false, false) => loc.c[C_NOR_REJ] += 1,
    }
    if o.reasons & R_CONF != 0 { loc.c[C_R_CONF] += 1; }
    if o.reasons & R_TRUST != 0 { loc.c[C_R_TRUST] += 1; }
    if o.reasons & R_DIV != 0 { loc.c[C_R_DIV] += 1; }
    if o.reasons & R_COLL != 0 { loc.c[C_R_COLL] += 1; if v.bft { loc.c[C_BFT_FLAG_SEEN] += 1; } }
    let past_gates = f.n >= p.min_witnesses && cc != 1;
    if past_gates && o.used_bft != v.bft { loc.c[C_USEDBFT] += 1; }
    if o.valid && cc == 1 { loc.c[C_CAND_LOW_ACC] += 1; }
    if o.valid && cc == 0 { loc.c[C_CAND_NONE_ACC] += 1; }
    if f.n >= p.min_witnesses {
        loc.c[C_NONTRIV] += 1;
        // sizes above 10 in buckets of 5, confirmations of large sets as a decile, regions capped at 5
        let b = |x: usize| if x <= 10 { x as u64 } else { 11 + (x as u64 - 11) / 5 };
        let ty = if f.trusted <= 10 { f.trusted_yes as u64 } else { 16 + (f.trusted_yes * 10 / f.trusted) as u64 };
        let sig = (v.bft as u64) | (v.log_only as u64) << 1 | cc << 2 | (o.valid as u64) << 4 | (f.separated as u64) << 5
            | ((o.reasons & 15) as u64) << 6 | b(f.n) << 10 | b(f.trusted) << 16 | ty << 22
            | (f.regions_yes.min(5) as u64) << 28 | (f.regions_yes_trusted.min(5) as u64) << 32 | (v.cfg_id & 0xffff) << 40;
        loc.case(mon, sig);
    }
    // ---- the statement's necessary conditions for acceptance ----
    if o.valid {
        if v.bft {
            if o.reasons & R_COLL != 0 {
                mon.violation("bft-accept/collusion-flag-raised", detail(v, cand, ws, f, &o));
            }
            match bft_missing(f, p) {
                Some("regions-supplied-by-untrusted-confirmers") => {
                    loc.c[C_LENIENT_ONLY] += 1;
                    if REGIONS_MUST_COME_FROM_TRUSTED_CONFIRMERS {
                        mon.violation("bft-accept/regions-supplied-by-untrusted-confirmers", detail(v, cand, ws, f, &o));
                    }
                }
                Some(c) => mon.violation(&format!("bft-accept/{c}"), detail(v, cand, ws, f, &o)),
                None => {}
            }
        } else if f.odd_trust {
            loc.c[C_SKIP_ODD] += 1;
        } else {
            match best_share(f) {
                None => loc.c[C_SKIP_ZERO] += 1,
                Some(s) if s < p.share - 1e-9 => {
                    let feat = if f.unk_all > 0 { "even-with-most-favourable-unknown-trust" } else { "all-trust-known" };
                    mon.violation(&format!("normal-accept/share-below-threshold/{feat}"), detail(v, cand, ws, f, &o));
                }
                Some(_) => {}
            }
            if o.reasons & R_DIV != 0 { loc.c[C_NOR_ACC_WARN] += 1; }
        }
    } else if past_gates && !f.odd_trust {
        // tightness indicator only: rejected although every stated condition holds and no flag is raised
        let stated_ok = if v.bft {
            bft_missing(f, p).is_none() && o.reasons & R_COLL == 0 && f.trusted > 0
        } else {
            share(f, 0.5).is_some_and(|s| s >= p.share + 1e-9)
        };
        if stated_ok {
            loc.c[C_UNEXPLAINED] += 1;
            if std::env::var_os("C15_DEBUG").is_some() {
                eprintln!("UNEXPLAINED {}", detail(v, cand, ws, f, &o));
            }
        }
    }
    // ---- corollary: <= f confirmations among 3f+1 (or more) trusted witnesses, all others deny ----
    if v.bft && premise_3f1(f) {
        loc.evals += 1;
        loc.c[C_P_3F1] += 1;
        if o.valid {
            mon.violation("bft-3f1/a-third-or-fewer-trusted-confirm-yet-accepted", detail(v, cand, ws, f, &o));
        }
    }
    // ---- corollary: unanimous, trusted, spread, latency-separated confirmation is accepted ----
    if premise_unanimous(f, p, cand) {
        loc.evals += 1;
        loc.c[C_P_UNAN] += 1;
        if !o.valid {
            mon.violation(&format!("unanimous-rejected/{mode}/{}", reasons_str(o.reasons)), detail(v, cand, ws, f, &o));
        }
    }
}

// ---------------------------------------------------------------------------------------------
// exhaustive lane
// ---------------------------------------------------------------------------------------------

const G_TRUST: [Option<f64>; 5] = [None, Some(0.1), Some(0.29), Some(0.3), Some(0.9)];
const G_LAT_NS: [u64; 3] = [40_000_000, 50_000_000, 200_000_000];
const G_TYPES: usize = 5 * 5 * 3;
const MAX_N: usize = 5;
const HAS_BIT: [u32; 5] = [0xAAAA_AAAA, 0xCCCC_CCCC, 0xF0F0_F0F0, 0xFF00_FF00, 0xFFFF_0000];
const G_CANDS: [Option<f64>; 3] = [None, Some(0.1), Some(0.9)];

fn g_type(id: u8) -> W {
    let id = id as usize;
    W { yes: false, trust: G_TRUST[id / 15], region: ((id / 3) % 5) as u8, lat_ns: G_LAT_NS[id % 3], peer: 0 }
}

fn binom(n: u64, k: u64) -> u64 {
    let mut r = 1u128;
    for i in 0..k {
        r = r * (n - i) as u128 / (i + 1) as u128;
    }
    r as u64
}

struct Exh<'a> {
    mon: &'a Monitor,
    vs: &'a [V],
    node: DhtNodeId,
    templates: Vec<CloseGroupResponse>,
    resp: Vec<CloseGroupResponse>,
    bm: Vec<u32>,
}

impl<'a> Exh<'a> {
    /// all 2^n confirm assignments of one shape (types in the given order), every validator and
    /// candidate; fills `bm[(validator, candidate)]` with the accept bitmap over masks
    fn shape(&mut self, loc: &mut Loc, types: &[u8], count_canonical: bool) {
        let n = types.len();
        let mut ws = [g_type(0); MAX_N];
        self.resp.clear();
        for (j, t) in types.iter().enumerate() {
            ws[j] = g_type(*t);
            ws[j].peer = j as u32 + 1;
            let mut r = self.templates[*t as usize].clone();
            r.peer_id = peer_id(ws[j].peer);
            self.resp.push(r);
        }
        for b in self.bm.iter_mut() {
            *b = 0;
        }
        let p0 = self.vs[0].p;
        for mask in 0u32..(1u32 << n) {
            for j in 0..n {
                let y = (mask >> j) & 1 == 1;
                ws[j].yes = y;
                self.resp[j].confirms_membership = y;
            }
            let f = facts(&ws[..n], &p0);
            if count_canonical {
                // one canonical confirm assignment per multiset: among equal neighbours confirmers first
                let canonical = (0..n.saturating_sub(1)).all(|j| types[j] != types[j + 1] || (mask >> j) & 1 >= (mask >> (j + 1)) & 1);
                if canonical {
                    loc.c[C_CANON] += self.vs.iter().map(|v| v.cands.count_ones() as u64).sum::<u64>();
                }
            }
            for (vi, v) in self.vs.iter().enumerate() {
                for (ci, cand) in G_CANDS.iter().enumerate() {
                    if v.cands >> ci & 1 == 0 {
                        continue;
                    }
                    let r = v.v.validate_membership(&self.node, &self.resp, *cand);
                    let o = observe(&r);
                    judge(self.mon, loc, v, *cand, &f, o, &ws[..n]);
                    if o.valid {
                        self.bm[vi * G_CANDS.len() + ci] |= 1 << mask;
                    }
                }
            }
        }
        // confirm -> deny monotonicity over the whole cube of this shape
        let full: u32 = if n == 5 { u32::MAX } else { (1u32 << (1u32 << n)) - 1 };
        for (vi, v) in self.vs.iter().enumerate() {
            for (ci, cand) in G_CANDS.iter().enumerate() {
                let a = self.bm[vi * G_CANDS.len() + ci];
                if v.cands >> ci & 1 == 0 {
                    continue;
                }
                for i in 0..n {
                    loc.evals += 1u64 << (n - 1);
                    loc.c[C_FLIPS] += 1u64 << (n - 1);
                    // bit m of (a << 2^i) is the verdict of m with witness i turned into a denial
                    let bad = (a << (1u32 << i)) & !a & HAS_BIT[i] & full;
                    if bad != 0 {
                        let m = bad.trailing_zeros();
                        for j in 0..n {
                            ws[j].yes = (m >> j) & 1 == 1;
                        }
                        let f = facts(&ws[..n], &v.p);
                        let mut d = detail(v, *cand, &ws[..n], &f, &Obs { valid: false, reasons: 0, used_bft: v.bft });
                        d["flipped_witness_index"] = json!(i);
                        d["note"] = json!("the set above is rejected; the same set with the indexed witness denying is accepted");
                        self.mon.violation(
                            &format!("flip-monotone/{}/one-denial-turned-reject-into-accept", if v.bft { "bft" } else { "normal" }),
                            d,
                        );
                    }
                }
            }
        }
    }
}

fn exh_validators(n: usize, quick: bool) -> (Vec<V>, Vec<String>) {
    let mut out = Vec::new();
    let mut labels = Vec::new();
    // cands: bit per G_CANDS index (none, 0.1, 0.9); log_only_cands == 0 leaves LogOnly out
    let mut push = |cfg: CloseGroupValidatorConfig, label: &str, strict_cands: u8, log_only_cands: u8, out: &mut Vec<V>| {
        for (e, cands) in [(CloseGroupEnforcementMode::Strict, strict_cands), (CloseGroupEnforcementMode::LogOnly, log_only_cands)] {
            if cands == 0 {
                continue;
            }
            let c = cfg.clone().with_enforcement_mode(e);
            let id = out.len() as u64 / 2 + 1;
            let l = format!("{label}{}", if e == CloseGroupEnforcementMode::LogOnly { ",log-only" } else { ",strict" });
            labels.push(format!("{l} x candidate trust {}", ["-", "none", "0.1", "none,0.1", "0.9", "none,0.9", "0.1,0.9", "none,0.1,0.9"][cands as usize]));
            for bft in [false, true] {
                let mut v = mk(&c, bft, &l, id);
                v.cands = cands;
                out.push(v);
            }
        }
    };
    let with_mp = |mp: usize| CloseGroupValidatorConfig { min_peers_to_query: mp, max_peers_to_query: mp + 5, ..Default::default() };
    let maint = |f: usize| CloseGroupValidatorConfig::from_maintenance_config(&MaintenanceConfig { bft_fault_tolerance: f, ..Default::default() });
    const F0: &str = "from_maintenance(f=0):min_peers=1,bft=1.0";
    const F1: &str = "from_maintenance(f=1):min_peers=4,bft=0.75";
    if n <= 3 || (!quick && n == 4) {
        // full product; min_peers above the set size only exercises the minimum-responses gate
        for mp in 1..=(if n <= 3 { 7 } else { 5 }) {
            push(with_mp(mp), &format!("default,min_peers={mp}"), 0b111, 0b111, &mut out);
        }
        push(maint(0), F0, 0b111, 0, &mut out);
        push(maint(1), F1, 0b111, 0, &mut out);
    } else if n == 4 {
        push(with_mp(4), "default,min_peers=4", 0b111, 0b111, &mut out);
        push(with_mp(3), "default,min_peers=3", 0b111, 0, &mut out);
        push(maint(1), F1, 0b111, 0, &mut out);
    } else {
        // size 5: the library default (Strict) with every candidate class and the f=1 configuration with
        // the trusted candidate; LogOnly, which never influenced a verdict at sizes <= 4, is left to the
        // sampled lane at this size
        push(CloseGroupValidatorConfig::default(), "default,min_peers=5", 0b111, 0, &mut out);
        push(maint(1), F1, 0b100, 0, &mut out);
    }
    (out, labels)
}

/// returns number of shapes this shard completed for size n
fn exhaustive_size(mon: &Monitor, loc: &mut Loc, rng: &mut Rng, shard: usize, nshards: usize, n: usize) -> u64 {
    let (vs, _) = exh_validators(n, mon.quick());
    assert!(vs.iter().all(|v| v.p.min_trust == vs[0].p.min_trust));
    let now = Instant::now();
    let mut ex = Exh {
        mon,
        vs: &vs,
        node: peer_id(0xC15),
        templates: (0..G_TYPES as u8).map(|t| to_resp(&g_type(t), now)).collect(),
        resp: Vec::with_capacity(MAX_N),
        bm: vec![0; vs.len() * G_CANDS.len()],
    };
    // the biggest size is swept in 8 interleaved passes, so that a run cut by the time budget has
    // still covered an evenly spread part of the space
    let passes: u64 = if n == MAX_N { 8 } else { 1 };
    let stride = nshards as u64 * passes;
    let mut mine = 0u64;
    'passes: for pass in 0..passes {
        let mut a = [0u8; MAX_N];
        let mut counter = 0u64;
        'outer: loop {
            if counter % stride == shard as u64 + pass * nshards as u64 {
                if mine % 128 == 0 {
                    loc.flush(mon);
                    if mon.time_up() {
                        break 'passes;
                    }
                }
                ex.shape(loc, &a[..n], true);
                mine += 1;
                loc.c[C_SHAPES] += 1;
                // order of responses: re-run 1 shape in 64 in a random order and compare verdict cubes
                if n >= 2 && mine % 64 == 0 {
                    let canon = ex.bm.clone();
                    let mut perm: Vec<usize> = (0..n).collect();
                    rng.shuffle(&mut perm);
                    let pt: Vec<u8> = perm.iter().map(|&j| a[j]).collect();
                    ex.shape(loc, &pt, false);
                    loc.c[C_PERMS] += 1;
                    for (k, bm) in ex.bm.iter().enumerate() {
                        for m2 in 0u32..(1 << n) {
                            // position j of the permuted order holds original witness perm[j]
                            let mut m = 0u32;
                            for (j, &src) in perm.iter().enumerate() {
                                m |= ((m2 >> j) & 1) << src;
                            }
                            if (bm >> m2) & 1 != (canon[k] >> m) & 1 {
                                loc.c[C_ORDER] += 1;
                            }
                        }
                    }
                }
            }
            counter += 1;
            // next non-decreasing sequence
            let mut i = n;
            loop {
                if i == 0 {
                    break 'outer;
                }
                i -= 1;
                if (a[i] as usize) < G_TYPES - 1 {
                    a[i] += 1;
                    for j in i + 1..n {
                        a[j] = a[i];
                    }
                    break;
                }
            }
        }
    }
    loc.flush(mon);
    mine
}

// ---------------------------------------------------------------------------------------------
// sampled lane
// ---------------------------------------------------------------------------------------------

fn prev_f64(x: f64) -> f64 {
    f64::from_bits(x.to_bits() - 1)
}
fn next_f64(x: f64) -> f64 {
    f64::from_bits(x.to_bits() + 1)
}

fn gen_cfg(rng: &mut Rng) -> (CloseGroupValidatorConfig, String, u64) {
    let enf = if rng.chance(0.5) { CloseGroupEnforcementMode::Strict } else { CloseGroupEnforcementMode::LogOnly };
    let (cfg, label, id) = match rng.weighted(&[25, 25, 25, 25]) {
        0 => (CloseGroupValidatorConfig::default(), "default".to_string(), 100),
        1 => {
            let f = rng.urange(0, 3);
            (
                CloseGroupValidatorConfig::from_maintenance_config(&MaintenanceConfig { bft_fault_tolerance: f, ..Default::default() }),
                format!("from_maintenance(f={f})"),
                110 + f as u64,
            )
        }
        2 => {
            let mp = rng.urange(1, 7);
            (CloseGroupValidatorConfig { min_peers_to_query: mp, ..Default::default() }, format!("default,min_peers={mp}"), 120 + mp as u64)
        }
        _ => {
            let mp = rng.urange(1, 7);
            let mr = rng.urange(0, 4);
            let bt = *rng.pick(&[0.5, 2.0 / 3.0, 0.67, 0.71, 0.75, 0.8, 1.0]);
            let tw = *rng.pick(&[0.5, 0.7, 0.9, 1.0]);
            let mt = *rng.pick(&[0.1, 0.3, 0.5]);
            (
                CloseGroupValidatorConfig {
                    min_peers_to_query: mp,
                    min_regions: mr,
                    bft_threshold: bt,
                    trust_weighted_threshold: tw,
                    min_witness_trust: mt,
                    ..Default::default()
                },
                format!("custom(min_peers={mp},min_regions={mr},bft={bt:.3},share={tw},min_trust={mt})"),
                200 + (mp as u64) * 5 + mr as u64,
            )
        }
    };
    let l = format!("{label}{}", if enf == CloseGroupEnforcementMode::LogOnly { ",log-only" } else { ",strict" });
    (cfg.with_enforcement_mode(enf), l, id)
}

fn trust_any(rng: &mut Rng, p: &Policy) -> Option<f64> {
    match rng.below(14) {
        0 | 1 => None,
        2 => Some(0.0),
        3 => Some(0.1),
        4 => Some(0.29),
        5 => Some(0.3),
        6 => Some(0.9),
        7 => Some(1.0),
        8 => Some(p.min_trust),
        9 => Some(prev_f64(p.min_trust)),
        10 => Some(next_f64(p.min_trust)),
        11 => Some(0.5),
        _ => Some(rng.f64()),
    }
}
fn trust_ok(rng: &mut Rng, p: &Policy) -> Option<f64> {
    match rng.below(5) {
        0 => Some(p.min_trust),
        1 => Some(0.9),
        2 => Some(1.0),
        3 => Some(next_f64(p.min_trust)),
        _ => Some(p.min_trust + (1.0 - p.min_trust) * rng.f64()),
    }
}
fn trust_bad(rng: &mut Rng, p: &Policy) -> Option<f64> {
    match rng.below(5) {
        0 | 1 => None,
        2 => Some(0.0),
        3 => Some(prev_f64(p.min_trust)),
        _ => Some(p.min_trust * rng.f64() * 0.999),
    }
}

/// latency plans; style 0 is pairwise >= 10 ms apart
fn latencies(rng: &mut Rng, n: usize, style: u64) -> Vec<u64> {
    let base = rng.range(1_000_000, 300_000_000);
    let mut slots: Vec<u64> = (0..n as u64).collect();
    rng.shuffle(&mut slots);
    match style {
        0 => {
            let step = match rng.below(3) {
                0 => SEPARATED_NS,
                1 => SEPARATED_NS + 1,
                _ => rng.range(SEPARATED_NS, 50_000_000),
            };
            slots.iter().map(|s| base + s * step).collect()
        }
        1 => {
            let win = *rng.pick(&[1_000_000u64, 9_000_000, 30_000_000, 100_000_000]);
            (0..n).map(|_| base + rng.below(win)).collect()
        }
        2 => vec![base; n],
        3 => slots.iter().map(|s| base + s * (SEPARATED_NS - 1)).collect(),
        _ => slots.iter().map(|s| if rng.chance(0.5) { base + s * 12_000_000 } else { base + rng.below(9_000_000) }).collect(),
    }
}

fn lat_style(rng: &mut Rng, mostly_sep: bool) -> u64 {
    if mostly_sep {
        rng.weighted(&[70, 8, 4, 8, 10]) as u64
    } else {
        rng.weighted(&[30, 25, 10, 15, 20]) as u64
    }
}

fn gen_ws(rng: &mut Rng, p: &Policy, kind: usize) -> Vec<W> {
    let mut ws: Vec<W> = Vec::new();
    let nreg = rng.urange(1, 8) as u64;
    let push = |ws: &mut Vec<W>, yes: bool, trust: Option<f64>, region: u8| {
        let peer = ws.len() as u32 + 1;
        ws.push(W { yes, trust, region, lat_ns: 0, peer });
    };
    let mostly_sep;
    match kind {
        0 | 5 => {
            // grid-like, any size
            mostly_sep = rng.chance(0.5);
            let n = match rng.below(3) {
                0 => rng.urange(0, 7),
                1 => rng.urange(5, 10),
                _ => rng.urange(11, 40),
            };
            let py = *rng.pick(&[0.2, 0.5, 0.8, 0.95]);
            for _ in 0..n {
                let mut t = trust_any(rng, p);
                if kind == 5 && rng.chance(0.3) {
                    t = Some(*rng.pick(&[f64::NAN, -0.5, 2.0, f64::INFINITY, -0.0, 1.0000001]));
                }
                let r = rng.below(nreg + 1) as u8;
                let y = rng.chance(py);
                push(&mut ws, y, t, r);
            }
        }
        1 => {
            // around the confirmation threshold
            mostly_sep = true;
            let hi = if rng.chance(0.7) { p.min_witnesses + 5 } else { 30 };
            let t_n = rng.urange(p.min_witnesses.saturating_sub(1).max(1), hi);
            let thr = if rng.chance(0.5) { p.bft_fraction } else { p.share };
            let c0 = (thr * t_n as f64).ceil() as i64 + rng.range(0, 3) as i64 - 2;
            let c = c0.clamp(0, t_n as i64) as usize;
            let spread = rng.chance(0.7);
            for i in 0..t_n {
                let r = if spread { (i as u64 % nreg + 1) as u8 } else { rng.below(nreg + 1) as u8 };
                let t = trust_ok(rng, p);
                push(&mut ws, i < c, t, r);
            }
            for _ in 0..rng.urange(0, 6) {
                let t = trust_bad(rng, p);
                let r = rng.below(9) as u8;
                let y = rng.chance(0.7);
                push(&mut ws, y, t, r);
            }
        }
        2 => {
            // unanimous confirmation, sometimes with exactly one premise broken
            mostly_sep = true;
            let extra = if rng.chance(0.8) { 4 } else { 30 };
            let t_n = rng.urange(p.min_witnesses, p.min_witnesses + extra);
            for i in 0..t_n {
                let r = if i < p.min_regions.max(1) && i < 8 { i as u8 + 1 } else { rng.range(1, 8) as u8 };
                let t = trust_ok(rng, p);
                push(&mut ws, true, t, r);
            }
            for _ in 0..rng.urange(0, 4) * rng.below(2) as usize {
                let t = trust_bad(rng, p);
                let r = rng.below(9) as u8;
                push(&mut ws, true, t, r);
            }
            if rng.chance(0.25) && !ws.is_empty() {
                let i = rng.usize_below(ws.len());
                match rng.below(3) {
                    0 => ws[i].yes = false,
                    1 => ws[i].trust = trust_bad(rng, p),
                    _ => {
                        for w in ws.iter_mut() {
                            w.region = 1;
                        }
                    }
                }
            }
        }
        _ => {
            // 3f+1 trusted witnesses, at most f of them (the liars) confirm; untrusted ones help the liars
            mostly_sep = true;
            let f = rng.urange(0, 8);
            let liars = if rng.chance(0.8) { f } else { rng.urange(0, f) };
            for i in 0..3 * f + 1 {
                let t = trust_ok(rng, p);
                let r = if i < liars { (i % 8) as u8 + 1 } else { rng.below(9) as u8 };
                push(&mut ws, i < liars, t, r);
            }
            for j in 0..rng.urange(0, 10) {
                let t = trust_bad(rng, p);
                let y = rng.chance(0.9);
                push(&mut ws, y, t, (j % 8) as u8 + 1);
            }
        }
    }
    let style = lat_style(rng, mostly_sep);
    let lats = latencies(rng, ws.len(), style);
    for (w, l) in ws.iter_mut().zip(lats) {
        w.lat_ns = l;
    }
    rng.shuffle(&mut ws);
    ws
}

fn gen_cand(rng: &mut Rng, p: &Policy) -> Option<f64> {
    match rng.below(8) {
        0 => None,
        1 => Some(prev_f64(p.min_trust)),
        2 => Some(0.1f64.min(p.min_trust * 0.5)),
        3 => Some(p.min_trust),
        _ => Some(0.9),
    }
}

fn sampled_case(mon: &Monitor, loc: &mut Loc, rng: &mut Rng, shard: usize) {
    let (cfg, label, cfg_id) = gen_cfg(rng);
    let p = Policy::of(&cfg);
    let kind = rng.weighted(&[22, 30, 16, 22, 0, 4]);
    let ws = gen_ws(rng, &p, kind);
    let cand = gen_cand(rng, &p);
    let node = peer_id(0xC15);
    let now = Instant::now();
    let mut resp: Vec<CloseGroupResponse> = ws.iter().map(|w| to_resp(w, now)).collect();
    let f = facts(&ws, &p);
    loc.c[C_SAMPLED] += 1;
    for bft in [false, true] {
        let v = mk(&cfg, bft, &label, cfg_id);
        let r = v.v.validate_membership(&node, &resp, cand);
        let o = observe(&r);
        judge(mon, loc, &v, cand, &f, o, &ws);
        // evidence samples (shard 0 only): one per interesting class
        if shard == 0 && mon.want_sample() {
            let class = if bft && o.valid && !f.all_yes { 1 }
                else if bft && o.reasons & R_COLL != 0 && f.trusted_yes * 4 >= f.trusted * 3 { 2 }
                else if bft && premise_3f1(&f) && f.trusted >= 4 && f.trusted_yes >= 1 { 4 }
                else if !bft && o.valid && o.reasons & R_DIV != 0 { 8 }
                else if premise_unanimous(&f, &p, cand) && bft { 16 }
                else { 0 };
            if class != 0 && loc.sampled_kinds & class == 0 && ws.len() <= 12 {
                loc.sampled_kinds |= class;
                mon.sample(detail(&v, cand, &ws, &f, &o));
            }
        }
        // order of responses (no demand, counted)
        if ws.len() >= 2 && rng.chance(0.1) {
            let mut r2 = resp.clone();
            rng.shuffle(&mut r2);
            loc.c[C_PERMS] += 1;
            if v.v.validate_membership(&node, &r2, cand).is_valid != o.valid {
                loc.c[C_ORDER] += 1;
                if std::env::var_os("C15_DEBUG").is_some() {
                    eprintln!("ORDER {}", detail(&v, cand, &ws, &f, &o));
                }
            }
        }
        // confirm -> deny flips: single flips (up to 8 witnesses) and one multi-flip
        let mut yes_idx: Vec<usize> = (0..ws.len()).filter(|&i| ws[i].yes).collect();
        rng.shuffle(&mut yes_idx);
        let multi: Vec<usize> = yes_idx.iter().copied().filter(|_| rng.chance(0.4)).collect();
        yes_idx.truncate(8);
        let mut groups: Vec<Vec<usize>> = yes_idx.into_iter().map(|i| vec![i]).collect();
        if multi.len() >= 2 {
            groups.push(multi);
        }
        for g in groups {
            let mut ws2 = ws.clone();
            for &i in &g {
                ws2[i].yes = false;
                resp[i].confirms_membership = false;
            }
            let r2 = v.v.validate_membership(&node, &resp, cand);
            for &i in &g {
                resp[i].confirms_membership = true;
            }
            let o2 = observe(&r2);
            let f2 = facts(&ws2, &p);
            judge(mon, loc, &v, cand, &f2, o2, &ws2);
            loc.evals += 1;
            loc.c[C_FLIPS] += 1;
            if !o.valid && o2.valid {
                if f.odd_trust && !bft {
                    loc.c[C_OOD_FLIP] += 1;
                } else {
                    let mut d = detail(&v, cand, &ws, &f, &o);
                    d["witnesses_turned_into_denials"] = json!(g);
                    d["after_flip"] = json!({"is_valid": o2.valid, "failure_reasons": reasons_str(o2.reasons)});
                    let how = if g.len() == 1 { "one-denial-turned-reject-into-accept" } else { "several-denials-turned-reject-into-accept" };
                    mon.violation(&format!("flip-monotone/{}/{how}", if bft { "bft" } else { "normal" }), d);
                }
            }
        }
    }
}

/// Witness = peer. Some peers answer several times (same peer id, same trust, same region;
/// only the latency differs). The statement is judged on DISTINCT trusted witnesses.
fn repeated_answers_case(mon: &Monitor, loc: &mut Loc, rng: &mut Rng) {
    let f_tol = rng.urange(0, 3);
    let (cfg, label) = if rng.chance(0.5) {
        (CloseGroupValidatorConfig::default(), "default,strict".to_string())
    } else {
        (
            CloseGroupValidatorConfig::from_maintenance_config(&MaintenanceConfig { bft_fault_tolerance: f_tol, ..Default::default() }),
            format!("from_maintenance(f={f_tol}),strict"),
        )
    };
    let p = Policy::of(&cfg);
    // peers: (trust, region, confirms, answers)
    let mut peers: Vec<(f64, u8, bool, usize)> = Vec::new();
    let scenario = rng.below(2);
    if scenario == 0 {
        // 3f+1 distinct trusted peers, f liars confirm repeatedly, the other 2f+1 deny once
        let f = rng.urange(1, 5);
        for i in 0..3 * f + 1 {
            let liar = i < f;
            let region = if liar { (i % 8) as u8 + 1 } else { rng.range(1, 8) as u8 };
            peers.push((0.9, region, liar, if liar { rng.urange(1, 9) } else { 1 }));
        }
    } else {
        // fewer distinct trusted peers than the minimum, all confirming, some repeatedly
        let d = rng.urange(1, p.min_witnesses.max(2) - 1).max(1);
        for i in 0..d {
            peers.push((0.9, (i % 8) as u8 + 1, true, rng.urange(1, 6)));
        }
    }
    judge_repeated(mon, loc, rng, &cfg, &label, &peers, scenario);
}

fn judge_repeated(mon: &Monitor, loc: &mut Loc, rng: &mut Rng, cfg: &CloseGroupValidatorConfig, label: &str, peers: &[(f64, u8, bool, usize)], scenario: u64) {
    let p = Policy::of(cfg);
    let cand = Some(0.9);
    let mut ws: Vec<W> = Vec::new();
    for (pi, (t, r, y, k)) in peers.iter().enumerate() {
        for _ in 0..*k {
            ws.push(W { yes: *y, trust: Some(*t), region: *r, lat_ns: 0, peer: pi as u32 + 1 });
        }
    }
    let lats = latencies(rng, ws.len(), 0);
    for (w, l) in ws.iter_mut().zip(lats) {
        w.lat_ns = l;
    }
    rng.shuffle(&mut ws);
    let now = Instant::now();
    let resp: Vec<CloseGroupResponse> = ws.iter().map(|w| to_resp(w, now)).collect();
    let node = peer_id(0xC15);
    loc.c[C_DUP] += 1;
    // facts over distinct witnesses: one vote per peer (a peer that confirmed at least once confirms)
    let per_peer: Vec<W> = peers
        .iter()
        .enumerate()
        .map(|(pi, (t, r, y, _))| W { yes: *y, trust: Some(*t), region: *r, lat_ns: pi as u64 * 20_000_000, peer: pi as u32 + 1 })
        .collect();
    let fp = facts(&per_peer, &p);
    let repeated = peers.iter().any(|x| x.3 > 1);
    for bft in [false, true] {
        let v = mk(cfg, bft, label, 300 + scenario);
        let r = v.v.validate_membership(&node, &resp, cand);
        let o = observe(&r);
        loc.evals += 1;
        let fr = facts(&ws, &p);
        let sig = (bft as u64) | (o.valid as u64) << 1 | (scenario) << 2 | (fp.trusted as u64) << 4 | (fp.trusted_yes as u64) << 10 | (ws.len() as u64) << 16 | 0xD << 60;
        loc.case(mon, sig);
        if !o.valid {
            continue;
        }
        if !bft {
            if repeated && best_share(&fp).is_some_and(|s| s < p.share - 1e-9) {
                loc.c[C_DUP_NORMAL] += 1;
            }
            continue;
        }
        if !WITNESS_IS_A_DISTINCT_PEER {
            if premise_3f1(&fp) || bft_missing(&fp, &p).is_some() {
                loc.c[C_DUP_BFT] += 1;
            }
            continue;
        }
        let mut d = detail(&v, cand, &ws, &fr, &o);
        d["distinct_witnesses"] = json!(per_peer.iter().zip(peers.iter()).map(|(w, pr)| format!("{} x{} answers", w_str(w), pr.3)).collect::<Vec<_>>());
        d["distinct_trusted_witnesses"] = json!(fp.trusted);
        d["distinct_trusted_confirming"] = json!(fp.trusted_yes);
        if premise_3f1(&fp) {
            mon.violation("bft-3f1/liars-answering-repeatedly-are-counted-per-answer", d);
        } else if fp.trusted < p.min_witnesses {
            mon.violation("bft-accept/fewer-distinct-trusted-witnesses-than-minimum/repeated-answers", d);
        } else if let Some(c) = bft_missing(&fp, &p) {
            mon.violation(&format!("bft-accept/{c}/repeated-answers"), d);
        }
    }
}

/// Fixed, hand-sized inputs with the library's DEFAULT configuration in attack mode, run before
/// everything else so that each rule's replay starts with a small, readable witness.
fn probes(mon: &Monitor) {
    let mut loc = Loc::new();
    let mut rng = Rng::new(0xC15);
    let cfg = CloseGroupValidatorConfig::default();
    let p = Policy::of(&cfg);
    // 5 trusted confirmers in ONE region + 2 confirmers without any trust score in two other regions
    let mut ws: Vec<W> = (0..5).map(|i| W { yes: true, trust: Some(0.9), region: 1, lat_ns: (20 + 20 * i) * 1_000_000, peer: i as u32 + 1 }).collect();
    ws.push(W { yes: true, trust: None, region: 2, lat_ns: 140_000_000, peer: 6 });
    ws.push(W { yes: true, trust: None, region: 3, lat_ns: 170_000_000, peer: 7 });
    let now = Instant::now();
    let resp: Vec<CloseGroupResponse> = ws.iter().map(|w| to_resp(w, now)).collect();
    let v = mk(&cfg, true, "default,strict", 100);
    let o = observe(&v.v.validate_membership(&peer_id(0xC15), &resp, Some(0.9)));
    judge(mon, &mut loc, &v, Some(0.9), &facts(&ws, &p), o, &ws);
    // 3 trusted peers (3 regions), each answering twice: 6 answers, 3 witnesses, minimum is 5
    judge_repeated(mon, &mut loc, &mut rng, &cfg, "default,strict", &[(0.9, 1, true, 2), (0.9, 2, true, 2), (0.9, 3, true, 2)], 1);
    // f=3: 10 trusted peers, 3 liars confirm 6 times each, the 7 others deny once
    let mut peers = vec![(0.9, 1, true, 6), (0.9, 2, true, 6), (0.9, 3, true, 6)];
    peers.extend((0..7).map(|i| (0.9, (i % 4) as u8 + 1, false, 1usize)));
    judge_repeated(mon, &mut loc, &mut rng, &cfg, "default,strict", &peers, 0);
    loc.flush(mon);
}

// ---------------------------------------------------------------------------------------------

fn main() {
    let mon = Monitor::new("C15", "exploration");
    mon.set_rule(
        "case = one witness set (multiset of confirm x trust x region x latency) x mode x enforcement x config x candidate trust, \
         one verdict judged; non-trivial when the set holds at least min_peers_to_query responses; distinct by the class \
         (mode, enforcement, config, candidate class, size, trusted, trusted-confirming, confirming regions all/trusted, \
         latency-separated, failure reasons, verdict); the exact number of distinct canonical multiset x config verdicts of \
         the enumerated sizes is in counters.exhaustive.canonical_multiset_verdicts",
    );
    mon.assume("a witness without trust score is not 'sufficiently trusted'; in normal mode its weight may be anything in [0,1] (same for all)");
    mon.assume("'distinct response times' of the acceptance corollary = all witnesses pairwise >= 10 ms apart (the library's similarity window)");
    mon.assume("trust values outside [0,1] / NaN are out of domain for the normal-mode share: counted, not judged");
    mon.assume("in the repeated-answers lane a witness is a distinct peer id; trust and region are per peer");
    mon.extra("witness_reading", json!(if WITNESS_IS_A_DISTINCT_PEER { "distinct peer id" } else { "every answer" }));
    mon.extra("regions_reading", json!(if REGIONS_MUST_COME_FROM_TRUSTED_CONFIRMERS { "confirmations of trusted witnesses" } else { "any confirmation" }));

    let max_n = mon.by_tier(4usize, 5usize);
    let done: Vec<AtomicU64> = (0..=MAX_N).map(|_| AtomicU64::new(0)).collect();
    let per_shard_sampled = mon.by_tier(60_000u64, 800_000);
    let nshards = mon.shards();
    probes(&mon);
    vkit::run_shards(nshards, mon.seed, |i, mut rng| {
        let mut loc = Loc::new();
        let exh = |loc: &mut Loc, rng: &mut Rng, n: usize| {
            let r = vkit::catch(|| exhaustive_size(&mon, loc, rng, i, nshards, n));
            match r {
                Ok(c) => {
                    done[n].fetch_add(c, Ordering::Relaxed);
                }
                Err(e) => mon.violation("panic/validate_membership", json!({"panic": e, "lane": "exhaustive", "size": n})),
            }
        };
        // small exhaustive sizes first: cheap, and the first witnesses written to a replay are minimal
        for n in 0..=3 {
            exh(&mut loc, &mut rng, n);
        }
        // sampled lane (bounded by count and by a quarter of the budget)
        for k in 0..per_shard_sampled {
            if k % 512 == 0 {
                loc.flush(&mon);
                if mon.spent(0.25) {
                    break;
                }
            }
            let r = vkit::catch(|| {
                if k % 12 == 11 {
                    repeated_answers_case(&mon, &mut loc, &mut rng)
                } else {
                    sampled_case(&mon, &mut loc, &mut rng, i)
                }
            });
            if let Err(e) = r {
                mon.violation("panic/validate_membership", json!({"panic": e}));
            }
        }
        loc.flush(&mon);
        for n in 4..=max_n {
            exh(&mut loc, &mut rng, n);
        }
        loc.flush(&mon);
    });

    let mut exhaustive_sizes = Vec::new();
    let mut detail = Vec::new();
    for n in 0..=max_n {
        let expect = binom((G_TYPES + n - 1) as u64, n as u64);
        let got = done[n].load(Ordering::Relaxed);
        let (vs, labels) = exh_validators(n, mon.quick());
        if got == expect {
            exhaustive_sizes.push(n);
        }
        detail.push(json!({
            "size": n, "shapes_expected": expect, "shapes_done": got, "complete": got == expect,
            "confirm_assignments_per_shape": 1u64 << n,
            "validators": vs.len(), "configs": labels, "modes": ["normal", "attack"],
        }));
    }
    mon.extra("exhaustive", json!(exhaustive_sizes.len() == max_n + 1));
    mon.extra("exhaustive_sizes", json!(exhaustive_sizes));
    mon.extra("exhaustive_grid", json!({
        "confirm": [true, false], "trust": ["none", 0.1, 0.29, 0.3, 0.9], "region": ["none", "A", "B", "C", "D"],
        "latency_ms": [40, 50, 200], "note": "latencies closer than 10 ms but unequal, more regions, other trust values, sizes 6..40 and other thresholds are covered by the sampled lane only",
    }));
    mon.extra("exhaustive_detail", json!(detail));
    if exhaustive_sizes.len() != max_n + 1 {
        mon.count("skipped.exhaustive_sizes_cut_by_time_budget", (max_n + 1 - exhaustive_sizes.len()) as u64);
    }
    // the rule "a raised collusion flag forbids acceptance" is vacuous if the flag was never seen
    if mon.counter(NAMES[C_BFT_FLAG_SEEN]) == 0 {
        mon.inconclusive("no collusion flag was ever raised in attack mode: the 'no collusion flag' condition was never exercised");
    }
    if mon.counter(NAMES[C_P_3F1]) == 0 || mon.counter(NAMES[C_P_UNAN]) == 0 {
        mon.inconclusive("a corollary premise (3f+1 / unanimous) was never instantiated");
    }
    mon.finish();
}
