//! C18 — stored keys open only with the current password; tampering is detected.
//! Reference model = (current password, seed id -> seed). Histories of initialize / store /
//! retrieve (right, wrong, previous password) / change_password / clear_cache / reopen;
//! every byte of the store file overwritten with two patterns; crash snapshots around the
//! rename (hook) plus leftover complete / truncated temporary files.

use parking_lot::Mutex;
use saorsa_core::encrypted_key_storage::{EncryptedKeyStorageManager, SecurityLevel};
use saorsa_core::key_derivation::MasterSeed;
use saorsa_core::secure_memory::SecureString;
use serde_json::json;
use std::collections::{BTreeMap, HashMap};
use std::path::{Path, PathBuf};
use std::sync::Arc;
use vkit::{Monitor, Rng};

thread_local! {
    /// long passphrase stem shared by every password of the current history (None: short passwords)
    static STEM: std::cell::RefCell<Option<String>> = const { std::cell::RefCell::new(None) };
}
/// In some histories all passwords are long passphrases that agree in their first 64-110 bytes
/// and differ only at the end (a passphrase rotated at its tail)
fn choose_stem(rng: &mut Rng) {
    let stem = if rng.chance(0.3) {
        let mut s = String::new();
        let want = *rng.pick(&[64usize, 65, 80, 110]);
        while s.len() < want {
            s.push_str(&format!("Hp{}-Tn{}_Rd{}#", rng.range(10, 99), rng.range(10, 99), rng.range(10, 99)));
        }
        s.truncate(want);
        Some(s)
    } else {
        None
    };
    STEM.with(|c| *c.borrow_mut() = stem);
}
fn pw(rng: &mut Rng, tag: usize) -> String {
    // passes validate_password: >=12 chars, four classes, no common word, no 3-sequence
    let tail = format!("Zq{}-Kx{}_Wv{}#{}", rng.range(10, 99), rng.range(10, 99), rng.range(10, 99), tag * 7 + 13);
    STEM.with(|c| match c.borrow().as_ref() {
        Some(stem) => format!("{stem}{tail}"),
        None => tail,
    })
}
fn ss(s: &str) -> SecureString {
    SecureString::from_plain_str(s).expect("secure string")
}

type Shots = Arc<Mutex<Vec<(String, Vec<(String, Vec<u8>)>)>>>;
static REG: Mutex<Option<HashMap<PathBuf, Shots>>> = Mutex::new(None);

fn capture_dir(dir: &Path) -> Vec<(String, Vec<u8>)> {
    let mut v = Vec::new();
    if let Ok(rd) = std::fs::read_dir(dir) {
        for e in rd.flatten() {
            if let (Some(n), Ok(b)) = (e.file_name().to_str().map(|s| s.to_string()), std::fs::read(e.path())) {
                v.push((n, b));
            }
        }
    }
    v.sort();
    v
}

fn install_callback() {
    saorsa_core::verif_hooks::set_crash_callback(Some(Arc::new(|name: &str, path: &Path| {
        if !name.starts_with("keystore.") {
            return;
        }
        let dir = path.parent().map(|p| p.to_path_buf()).unwrap_or_default();
        let shots = REG.lock().as_ref().and_then(|m| m.get(&dir).cloned());
        if let Some(s) = shots {
            s.lock().push((name.to_string(), capture_dir(&dir)));
        }
    })));
}

struct Model {
    current: Option<String>,
    previous: Vec<String>,
    seeds: BTreeMap<String, [u8; 32]>,
}

fn scratch() -> PathBuf {
    checks::pstate::scratch("c18")
}

/// the outcome a retrieve must have for (id, password) under the model
fn expect_retrieve(m: &Model, id: &str, p: &str) -> Option<[u8; 32]> {
    if m.current.as_deref() == Some(p) {
        m.seeds.get(id).copied()
    } else {
        None
    }
}

async fn history(mon: &Monitor, rng: &mut Rng) {
    choose_stem(rng);
    if STEM.with(|c| c.borrow().is_some()) {
        mon.count("histories.long-passphrases-sharing-a-prefix", 1);
    }
    let dir = scratch();
    let path = dir.join("keys.enc");
    let shots: Shots = Arc::new(Mutex::new(Vec::new()));
    REG.lock().get_or_insert_with(HashMap::new).insert(dir.clone(), shots.clone());
    let mut mgr = match EncryptedKeyStorageManager::new(&path, SecurityLevel::Fast) {
        Ok(m) => m,
        Err(e) => {
            mon.inconclusive(&format!("manager ctor failed: {e}"));
            return;
        }
    };
    let mut model = Model { current: None, previous: Vec::new(), seeds: BTreeMap::new() };
    let mut pwn = 0usize;
    let mut hist: Vec<String> = Vec::new();
    let mut since_clear = "fresh";
    let steps = rng.urange(6, mon.by_tier(18, 40));
    let ids = ["alpha", "beta", "gamma"];
    for step in 0..steps {
        if mon.time_up() {
            break;
        }
        let kind = if model.current.is_none() { 0 } else { rng.weighted(&[0, 25, 45, 10, 8, 12]) };
        let ctx = |hist: &Vec<String>, extra: serde_json::Value| json!({"step": step, "history_tail": hist.iter().rev().take(8).rev().collect::<Vec<_>>(), "detail": extra});
        match kind {
            0 => {
                pwn += 1;
                let p = pw(rng, pwn);
                let r = mgr.initialize(&ss(&p)).await;
                hist.push(format!("initialize pw{pwn} -> {}", if r.is_ok() { "ok" } else { "err" }));
                if r.is_ok() {
                    model.current = Some(p);
                    model.seeds.clear();
                } else {
                    mon.count("initialize.err", 1);
                }
            }
            1 => {
                // store with the current password (or, sometimes, a wrong one: must fail and change nothing)
                let id = *rng.pick(&ids);
                let seed = rng.arr32();
                let ms = MasterSeed::from_entropy(&seed).expect("seed");
                let wrong = rng.chance(0.2);
                let p = if wrong { pw(rng, 900 + step) } else { model.current.clone().unwrap_or_default() };
                let before = shots.lock().len();
                let r = mgr.store_master_seed(id, &ms, &ss(&p)).await;
                mon.eval();
                hist.push(format!("store {id} with {} -> {}", if wrong { "WRONG pw" } else { "current pw" }, if r.is_ok() { "ok" } else { "err" }));
                mon.case(("store", wrong, r.is_ok(), since_clear));
                if wrong {
                    if r.is_ok() {
                        mon.violation(&format!("store/accepted-with-non-current-password/{since_clear}"), ctx(&hist, json!({"id": id})));
                        model.seeds.insert(id.to_string(), seed);
                    }
                } else if r.is_ok() {
                    model.seeds.insert(id.to_string(), seed);
                    since_clear = "cache-warm";
                } else {
                    mon.violation("store/refused-with-current-password", ctx(&hist, json!({"id": id, "err": r.err().map(|e| e.to_string())})));
                }
                // crash snapshots taken inside this store
                let new: Vec<_> = shots.lock().drain(before..).collect();
                judge_crash_shots(mon, &new, &model, &p, wrong, &hist).await;
            }
            2 => {
                let id = *rng.pick(&ids);
                let (p, rel) = match rng.below(4) {
                    0 | 1 => (model.current.clone().unwrap_or_default(), "current"),
                    2 if !model.previous.is_empty() => (rng.pick(&model.previous).clone(), "previous"),
                    _ => (pw(rng, 500 + step), "never-used"),
                };
                let r = mgr.retrieve_master_seed(id, &ss(&p)).await;
                mon.eval();
                let exp = expect_retrieve(&model, id, &p);
                hist.push(format!("retrieve {id} with {rel} pw -> {}", if r.is_ok() { "ok" } else { "err" }));
                mon.case(("retrieve", rel, r.is_ok(), since_clear, model.seeds.contains_key(id)));
                mon.count(&format!("retrieve.{rel}.{}", if r.is_ok() { "ok" } else { "err" }), 1);
                match (&r, exp) {
                    (Ok(ms), Some(want)) => {
                        if ms.seed_material() != want {
                            mon.violation(&format!("retrieve/returned-different-seed/{since_clear}"), ctx(&hist, json!({"id": id})));
                        } else {
                            since_clear = "cache-warm";
                        }
                    }
                    (Ok(_), None) => {
                        let f = if rel == "current" { "seed-id-never-stored".to_string() } else { format!("{rel}-password") };
                        mon.violation(&format!("retrieve/opened-without-the-current-password/{f}/{since_clear}"), ctx(&hist, json!({"id": id})));
                    }
                    (Err(e), Some(_)) => {
                        mon.violation(&format!("retrieve/refused-current-password/{since_clear}"), ctx(&hist, json!({"id": id, "err": e.to_string()})));
                    }
                    (Err(_), None) => {}
                }
            }
            3 => {
                pwn += 1;
                let newp = pw(rng, pwn);
                let wrong_old = rng.chance(0.25);
                let old = if wrong_old { pw(rng, 700 + step) } else { model.current.clone().unwrap_or_default() };
                let before = shots.lock().len();
                let r = mgr.change_password(&ss(&old), &ss(&newp)).await;
                mon.eval();
                hist.push(format!("change_password with {} old -> {}", if wrong_old { "WRONG" } else { "current" }, if r.is_ok() { "ok" } else { "err" }));
                mon.case(("change", wrong_old, r.is_ok()));
                let new: Vec<_> = shots.lock().drain(before..).collect();
                if r.is_ok() {
                    if wrong_old {
                        mon.violation("change_password/accepted-wrong-old-password", ctx(&hist, json!({})));
                    }
                    // crash images inside the change: readable with old (before rename) or new (after)
                    judge_change_shots(mon, &new, &model, &old, &newp, &hist).await;
                    if let Some(c) = model.current.take() {
                        model.previous.push(c);
                    }
                    model.current = Some(newp);
                    since_clear = "after-change";
                } else if !wrong_old {
                    mon.violation("change_password/refused-current-password", ctx(&hist, json!({"err": r.err().map(|e| e.to_string())})));
                }
            }
            4 => {
                let _ = mgr.clear_cache();
                hist.push("clear_cache".into());
                since_clear = "cache-cleared";
            }
            _ => {
                // reopen: a new manager on the same file (new process)
                match EncryptedKeyStorageManager::new(&path, SecurityLevel::Fast) {
                    Ok(m2) => {
                        mgr = m2;
                        hist.push("reopen".into());
                        since_clear = "reopened";
                    }
                    Err(e) => mon.violation("reopen/failed", ctx(&hist, json!({"err": e.to_string()}))),
                }
            }
        }
    }
    // final sweep: every seed with the current password in a fresh process; previous and random passwords must fail
    if let (Some(cur), Ok(m2)) = (model.current.clone(), EncryptedKeyStorageManager::new(&path, SecurityLevel::Fast)) {
        for (id, want) in &model.seeds {
            mon.eval();
            match m2.retrieve_master_seed(id, &ss(&cur)).await {
                Ok(ms) if ms.seed_material() == want => {}
                Ok(_) => mon.violation("final/returned-different-seed", json!({"id": id, "history_tail": hist.iter().rev().take(8).rev().collect::<Vec<_>>()})),
                Err(e) => mon.violation("final/current-password-refused-after-reopen", json!({"id": id, "err": e.to_string(), "history_tail": hist.iter().rev().take(8).rev().collect::<Vec<_>>()})),
            }
            if let Some(prev) = model.previous.last() {
                let _ = m2.clear_cache();
                mon.eval();
                if m2.retrieve_master_seed(id, &ss(prev)).await.is_ok() {
                    mon.violation("final/previous-password-opens-after-reopen", json!({"id": id}));
                }
            }
        }
        // ---- corruption sweep over the final file ----
        if !model.seeds.is_empty() && (mon.want_sample() || rng.chance(mon.by_tier(0.08, 0.3))) {
            corruption_sweep(mon, rng, &path, &cur, &model).await;
        }
        if mon.want_sample() {
            mon.sample(json!({"history": hist, "seeds": model.seeds.len(), "password_changes": model.previous.len()}));
        }
    }
    if let Some(m) = REG.lock().as_mut() {
        m.remove(&dir);
    }
    let _ = std::fs::remove_dir_all(&dir);
    mon.count("histories", 1);
}

async fn open_image(img: &[(String, Vec<u8>)]) -> (PathBuf, Option<EncryptedKeyStorageManager>) {
    let d = scratch();
    for (n, b) in img {
        let _ = std::fs::write(d.join(n), b);
    }
    let m = EncryptedKeyStorageManager::new(d.join("keys.enc"), SecurityLevel::Fast).ok();
    (d, m)
}

/// crash images taken inside a store(): the file is the old or the new content, never a mixture
async fn judge_crash_shots(mon: &Monitor, shots: &[(String, Vec<(String, Vec<u8>)>)], model_after: &Model, p: &str, wrong: bool, hist: &[String]) {
    if wrong {
        return;
    }
    for (hook, img) in shots {
        let (d, m) = open_image(img).await;
        mon.eval();
        mon.case(("crash", hook.clone()));
        mon.count(&format!("crash_points.{hook}"), 1);
        if let Some(m) = m {
            // with the current password every seed readable is either its old or its new value
            for (id, want) in &model_after.seeds {
                match m.retrieve_master_seed(id, &ss(p)).await {
                    Ok(ms) => {
                        if ms.seed_material() != want && hook == "keystore.after_rename" {
                            mon.violation("crash/after-rename-does-not-hold-the-new-content", json!({"hook": hook, "id": id, "history_tail": hist.iter().rev().take(6).rev().collect::<Vec<_>>()}));
                        }
                    }
                    Err(e) => {
                        let s = e.to_string();
                        // before the rename the just-stored id may legitimately be missing (old content)
                        let missing_ok = hook == "keystore.before_rename" && s.contains("seed:");
                        if !missing_ok && hook == "keystore.after_rename" {
                            mon.violation("crash/after-rename-unreadable", json!({"hook": hook, "id": id, "err": s}));
                        } else if !missing_ok && !s.contains("seed:") {
                            mon.violation("crash/before-rename-store-file-unreadable", json!({"hook": hook, "id": id, "err": s}));
                        }
                    }
                }
            }
        }
        // leftover temporary file, complete or truncated, must not matter to a reader of the store file
        if let Some((_, tmp)) = img.iter().find(|(n, _)| n.ends_with(".tmp")) {
            let mut img2: Vec<(String, Vec<u8>)> = img.to_vec();
            for (n, b) in img2.iter_mut() {
                if n.ends_with(".tmp") {
                    b.truncate(tmp.len() / 2);
                }
            }
            let (d2, m2) = open_image(&img2).await;
            mon.eval();
            if let Some(m2) = m2 {
                for (id, _) in &model_after.seeds {
                    if let Err(e) = m2.retrieve_master_seed(id, &ss(p)).await {
                        if !e.to_string().contains("seed:") {
                            mon.violation("crash/truncated-temporary-file-breaks-the-store", json!({"hook": hook, "err": e.to_string()}));
                        }
                    }
                }
            }
            let _ = std::fs::remove_dir_all(&d2);
        }
        let _ = std::fs::remove_dir_all(&d);
    }
}

async fn judge_change_shots(mon: &Monitor, shots: &[(String, Vec<(String, Vec<u8>)>)], model: &Model, old: &str, newp: &str, hist: &[String]) {
    for (hook, img) in shots {
        let (d, m) = open_image(img).await;
        mon.eval();
        mon.case(("crash-change", hook.clone()));
        mon.count(&format!("crash_points.change.{hook}"), 1);
        if let Some(m) = m {
            for (id, want) in &model.seeds {
                let with_old = m.retrieve_master_seed(id, &ss(old)).await;
                let _ = m.clear_cache();
                let with_new = m.retrieve_master_seed(id, &ss(newp)).await;
                let _ = m.clear_cache();
                let ok_old = with_old.as_ref().is_ok_and(|s| s.seed_material() == want);
                let ok_new = with_new.as_ref().is_ok_and(|s| s.seed_material() == want);
                // exactly one of the two passwords opens it: old file or new file, never a mixture / neither
                if ok_old == ok_new {
                    mon.violation(&format!("crash/password-change-image-is-neither-old-nor-new/{hook}"), json!({"id": id, "opens_with_old": ok_old, "opens_with_new": ok_new, "history_tail": hist.iter().rev().take(6).rev().collect::<Vec<_>>()}));
                }
                if hook == "keystore.after_rename" && !ok_new {
                    mon.violation("crash/after-rename-new-password-does-not-open", json!({"id": id}));
                }
            }
        }
        let _ = std::fs::remove_dir_all(&d);
    }
}

/// every byte of the file overwritten with two patterns, read by a fresh manager
async fn corruption_sweep(mon: &Monitor, rng: &mut Rng, path: &Path, cur: &str, model: &Model) {
    let Ok(orig) = std::fs::read(path) else { return };
    let d = scratch();
    let p2 = d.join("keys.enc");
    let step = if mon.quick() { (orig.len() / 160).max(1) } else { 1 };
    let start = rng.usize_below(step);
    let mut swept = 0u64;
    for at in (start..orig.len()).step_by(step) {
        if mon.time_up() {
            break;
        }
        for pat in [0xffu8, 0x01] {
            let mut b = orig.clone();
            let nb = if pat == 0xff { !b[at] } else { b[at] ^ pat };
            if nb == b[at] {
                continue;
            }
            b[at] = nb;
            let _ = std::fs::write(&p2, &b);
            let Ok(m) = EncryptedKeyStorageManager::new(&p2, SecurityLevel::Fast) else { continue };
            swept += 1;
            for (id, want) in &model.seeds {
                mon.eval();
                match m.retrieve_master_seed(id, &ss(cur)).await {
                    Err(_) => {
                        mon.count("corruption.detected", 1);
                    }
                    Ok(ms) if ms.seed_material() == want => {
                        mon.count("corruption.harmless-same-seed", 1);
                    }
                    Ok(_) => {
                        let region = if at * 10 < orig.len() { "header-tenth" } else { "body" };
                        mon.violation(&format!("tamper/altered-file-returned-different-key-material/{region}"), json!({"offset": at, "file_len": orig.len(), "pattern": pat, "id": id}));
                    }
                }
                break; // one id per mutant keeps the Argon2 budget in check
            }
            mon.case(("corrupt", at * 16 / orig.len().max(1), pat));
        }
    }
    mon.count("corruption.mutants", swept);
    let _ = std::fs::remove_dir_all(&d);
}

/// Race lane: `change_password` while other OS threads are inside cached retrieves. Before the change
/// every id is in the cache, so a reader presenting the old password only ever HITS the cache until the
/// change clears it and afterwards fails on the re-encrypted file: no reader can legitimately put an
/// entry for the old password back. Once `change_password` has returned Ok the old password must
/// therefore open nothing and the new one everything, however the readers were scheduled.
fn change_vs_cached_readers(mon: &Monitor, rng: &mut Rng) {
    use std::sync::atomic::{AtomicBool, AtomicU64, Ordering};
    STEM.with(|c| *c.borrow_mut() = None);
    let dir = scratch();
    let path = dir.join("keys.enc");
    let mgr = match EncryptedKeyStorageManager::new(&path, SecurityLevel::Fast) {
        Ok(m) => m,
        Err(e) => {
            mon.inconclusive(&format!("manager ctor failed: {e}"));
            return;
        }
    };
    let rt = tokio::runtime::Builder::new_current_thread().enable_all().build().expect("rt");
    // long passphrases: the keyed tag of the presented password is computed inside the cache probe, so
    // the read lock is held for tens of microseconds per retrieve
    let mut pad = String::new();
    let want = rng.urange(2_000, 60_000);
    while pad.len() < want {
        pad.push_str(&format!("Hp{}-Tn{}_Rd{}#", rng.range(10, 99), rng.range(10, 99), rng.range(10, 99)));
    }
    let mut cur = format!("{pad}{}", pw(rng, 1));
    let ids = ["alpha", "beta"];
    let mut seeds: BTreeMap<&str, [u8; 32]> = BTreeMap::new();
    let ok = rt.block_on(async {
        if mgr.initialize(&ss(&cur)).await.is_err() {
            return false;
        }
        for id in ids {
            let seed = rng.arr32();
            let ms = MasterSeed::from_entropy(&seed).expect("seed");
            if mgr.store_master_seed(id, &ms, &ss(&cur)).await.is_err() {
                return false;
            }
            seeds.insert(id, seed);
        }
        true
    });
    if !ok {
        mon.inconclusive("race lane: initialize/store with a long passphrase failed");
        let _ = std::fs::remove_dir_all(&dir);
        return;
    }
    let rounds = mon.by_tier(4usize, 16);
    let readers = rng.urange(3, 8);
    for round in 0..rounds {
        if mon.time_up() {
            break;
        }
        // warm the cache for every id with the current password
        for id in ids {
            if rt.block_on(mgr.retrieve_master_seed(id, &ss(&cur))).is_err() {
                mon.violation("race-lane/refused-current-password-before-change", json!({"round": round, "id": id}));
            }
        }
        let newp = format!("{pad}{}", pw(rng, round + 2));
        let stop = AtomicBool::new(false);
        let hits = AtomicU64::new(0);
        let old_ss = ss(&cur);
        let changed = std::thread::scope(|s| {
            for t in 0..readers {
                let (mgr, stop, hits, old_ss) = (&mgr, &stop, &hits, &old_ss);
                let id = ids[t % ids.len()];
                s.spawn(move || {
                    let rt = tokio::runtime::Builder::new_current_thread().build().expect("rt");
                    while !stop.load(Ordering::Relaxed) {
                        if rt.block_on(mgr.retrieve_master_seed(id, old_ss)).is_ok() {
                            hits.fetch_add(1, Ordering::Relaxed);
                        }
                    }
                });
            }
            // readers are running before the change starts
            let t0 = std::time::Instant::now();
            while hits.load(Ordering::Relaxed) < 200 && t0.elapsed().as_secs() < 5 {
                std::thread::yield_now();
            }
            let r = rt.block_on(mgr.change_password(&old_ss, &ss(&newp)));
            stop.store(true, Ordering::Relaxed);
            r
        });
        let h = hits.load(Ordering::Relaxed);
        mon.count("race-lane.cached-retrieves-alongside-a-change", h);
        mon.count("race-lane.rounds", 1);
        mon.case(("race-change", readers, pad.len() / 10_000, h.min(100_000) / 20_000, changed.is_ok()));
        match changed {
            Ok(()) => {
                for id in ids {
                    mon.evals(2);
                    if rt.block_on(mgr.retrieve_master_seed(id, &old_ss)).is_ok() {
                        mon.violation(
                            "race/previous-password-opens-after-change/readers-in-cached-retrieve",
                            json!({"round": round, "id": id, "readers": readers, "password_bytes": cur.len(), "cached_retrieves_alongside": h}),
                        );
                    }
                    match rt.block_on(mgr.retrieve_master_seed(id, &ss(&newp))) {
                        Ok(ms) if ms.seed_material() == &seeds[id][..] => {}
                        Ok(_) => mon.violation("race/returned-different-seed-after-change", json!({"round": round, "id": id})),
                        Err(e) => mon.violation("race/new-password-refused-after-change", json!({"round": round, "id": id, "err": e.to_string()})),
                    }
                }
                // a stale entry must not survive into the next round
                let _ = mgr.clear_cache();
                cur = newp;
            }
            Err(e) => {
                mon.violation("race/change-refused-with-current-password", json!({"round": round, "err": e.to_string()}));
                break;
            }
        }
    }
    let _ = std::fs::remove_dir_all(&dir);
}

fn main() {
    let mon = Monitor::new("C18", "fault_enumeration");
    // supplementary sanitizer lanes (thorough tier): built and run alongside the behavioural workload, joined before the verdict
    let lanes = checks::lanes::start(&mon, &[("asan", "c18", "240"), ("miri", "secmem", "0..6"), ("memcheck", "c18", "300")]);
    mon.set_rule("case = one history step (store / retrieve with current, previous or never-used password / change / clear / reopen, cache state), one overwritten byte of the store file read by a fresh manager, or one crash image around the rename (plus truncated temporary file); distinct by (step kind + password relation + cache state + outcome, byte region + pattern, hook)");
    mon.assume("SecurityLevel::Fast (Argon2 4 MiB, t=1) to afford thousands of derivations; process-death model for the crash images");
    install_callback();
    let per_shard = mon.by_tier(110u64, 4000);
    vkit::run_shards(mon.shards(), mon.seed, |_i, mut rng| {
        let rt = tokio::runtime::Builder::new_current_thread().enable_all().build().expect("rt");
        rt.block_on(async {
            for _ in 0..per_shard {
                if mon.time_up() {
                    break;
                }
                history(&mon, &mut rng).await;
            }
        });
    });
    // race lane (after the sharded histories: it wants the cores for its reader threads)
    {
        let mut rng = Rng::new(mon.seed ^ 0xC18_0D);
        for _ in 0..mon.by_tier(3usize, 10) {
            change_vs_cached_readers(&mon, &mut rng);
        }
    }
    checks::pstate::scratch_cleanup();
    // supplementary sanitizer lanes (thorough): corruption sweep under ASan; SecureMemory life-cycle under Miri
    checks::lanes::join(&mon, lanes);
    mon.finish();
}
