//! Helpers shared by the per-property check binaries.

pub mod keys {
    /// XOR distance
    pub fn xor(a: &[u8; 32], b: &[u8; 32]) -> [u8; 32] {
        let mut o = [0u8; 32];
        for i in 0..32 {
            o[i] = a[i] ^ b[i];
        }
        o
    }
    /// index (0 = most significant) of first differing bit; None if equal
    pub fn bucket_of(local: &[u8; 32], id: &[u8; 32]) -> Option<usize> {
        let d = xor(local, id);
        for i in 0..256 {
            if (d[i / 8] >> (7 - (i % 8))) & 1 == 1 {
                return Some(i);
            }
        }
        None
    }
    pub fn flip_bit(a: &mut [u8; 32], i: usize) {
        a[i / 8] ^= 1 << (7 - (i % 8));
    }
    /// id that lands in bucket `b` relative to `local`: shares bits 0..b, differs at b,
    /// random afterwards.
    pub fn id_in_bucket(local: &[u8; 32], b: usize, rng: &mut vkit::Rng) -> [u8; 32] {
        let noise = rng.arr32();
        let mut id = *local;
        flip_bit(&mut id, b);
        for i in (b + 1)..256 {
            let bit = (noise[i / 8] >> (7 - (i % 8))) & 1;
            let cur = (id[i / 8] >> (7 - (i % 8))) & 1;
            if bit != cur {
                flip_bit(&mut id, i);
            }
        }
        id
    }
}

/// current-thread tokio runtime (optionally with paused clock)
pub fn rt(paused: bool) -> tokio::runtime::Runtime {
    let mut b = tokio::runtime::Builder::new_current_thread();
    b.enable_all();
    if paused {
        b.start_paused(true);
    }
    b.build().expect("runtime")
}

/// MemNet world building shared by the network checks (C01, C03, C04, C20 …)
pub mod net {
    use memnet::*;
    use std::collections::HashMap;
    use std::net::SocketAddr;
    use std::sync::Arc;
    use std::time::Duration;
    use vkit::Rng;

    #[derive(Clone, Copy, Debug, PartialEq, Eq, Hash)]
    pub enum Topo {
        FullMesh,
        Ring,
        Line,
        Star,
        TwoClusters,
        Random,
    }
    pub const TOPOS: [Topo; 6] = [Topo::FullMesh, Topo::Ring, Topo::Line, Topo::Star, Topo::TwoClusters, Topo::Random];

    pub fn edges(t: Topo, n: usize, rng: &mut Rng) -> Vec<(usize, usize)> {
        let mut e = Vec::new();
        match t {
            Topo::FullMesh => {
                for i in 0..n {
                    for j in (i + 1)..n {
                        e.push((i, j));
                    }
                }
            }
            Topo::Ring => {
                for i in 0..n {
                    e.push((i, (i + 1) % n));
                }
            }
            Topo::Line => {
                for i in 0..n.saturating_sub(1) {
                    e.push((i, i + 1));
                }
            }
            Topo::Star => {
                for i in 1..n {
                    e.push((i, 0));
                }
            }
            Topo::TwoClusters => {
                let h = n / 2;
                for i in 0..h {
                    for j in (i + 1)..h {
                        e.push((i, j));
                    }
                }
                for i in h..n {
                    for j in (i + 1)..n {
                        e.push((i, j));
                    }
                }
                if h > 0 && h < n {
                    e.push((0, h));
                }
            }
            Topo::Random => {
                // connected: random spanning tree plus extra edges
                for i in 1..n {
                    e.push((i, rng.usize_below(i)));
                }
                for _ in 0..rng.urange(0, n) {
                    let (a, b) = (rng.usize_below(n), rng.usize_below(n));
                    if a != b {
                        e.push((a, b));
                    }
                }
            }
        }
        e.retain(|(a, b)| a != b);
        e
    }

    pub struct World {
        pub hub: Arc<Hub>,
        pub nodes: Vec<SimNode>,
        /// every spelling of an id (transport id, hex dht key, app id) -> node index
        pub spell: HashMap<String, usize>,
        pub by_pos: HashMap<[u8; 32], usize>,
        pub by_addr: HashMap<SocketAddr, usize>,
    }

    impl World {
        pub async fn build(rng: &mut Rng, n: usize, topo: Topo, cfg: &NodeCfg) -> Result<World, String> {
            let hub = Hub::new(rng.next_u64());
            let mut nodes = Vec::new();
            for i in 0..n {
                let tid = rng.arr32();
                let node = spawn_node(&hub, tid, sim_addr(i), cfg).await.map_err(|e| e.to_string())?;
                nodes.push(node);
            }
            for (a, b) in edges(topo, n, rng) {
                let _ = nodes[a].mgr.connect_to_peer(&nodes[b].addr.to_string()).await;
            }
            settle(Duration::from_millis(20)).await;
            let mut w = World { hub, nodes, spell: HashMap::new(), by_pos: HashMap::new(), by_addr: HashMap::new() };
            w.reindex();
            Ok(w)
        }
        pub fn reindex(&mut self) {
            for (i, e) in self.nodes.iter().enumerate() {
                self.spell.insert(e.tid_hex.clone(), i);
                self.spell.insert(hex::encode(e.pos), i);
                self.spell.insert(e.app_id.clone(), i);
                self.by_pos.insert(e.pos, i);
                self.by_addr.insert(e.addr, i);
            }
        }
        pub async fn shutdown(&self) {
            for n in &self.nodes {
                let _ = tokio::time::timeout(Duration::from_secs(600), n.mgr.stop()).await;
                let _ = tokio::time::timeout(Duration::from_secs(600), n.transport.stop()).await;
            }
        }
    }
}
