//! Helpers shared by the per-property check binaries.

pub mod keys {
    /// XOR distance
    pub fn xor(a: &[u8; 32], b: &[u8; 32]) -> [u8; 32] {
        let mut o = [0u8; 32];
        for i in 0..32 {
            o[i] = a[i] ^ b[i];
        }
        o
    }
    /// index (0 = most significant) of first differing bit; None if equal
    pub fn bucket_of(local: &[u8; 32], id: &[u8; 32]) -> Option<usize> {
        let d = xor(local, id);
        for i in 0..256 {
            if (d[i / 8] >> (7 - (i % 8))) & 1 == 1 {
                return Some(i);
            }
        }
        None
    }
    pub fn flip_bit(a: &mut [u8; 32], i: usize) {
        a[i / 8] ^= 1 << (7 - (i % 8));
    }
    /// id that lands in bucket `b` relative to `local`: shares bits 0..b, differs at b,
    /// random afterwards.
    pub fn id_in_bucket(local: &[u8; 32], b: usize, rng: &mut vkit::Rng) -> [u8; 32] {
        let noise = rng.arr32();
        let mut id = *local;
        flip_bit(&mut id, b);
        for i in (b + 1)..256 {
            let bit = (noise[i / 8] >> (7 - (i % 8))) & 1;
            let cur = (id[i / 8] >> (7 - (i % 8))) & 1;
            if bit != cur {
                flip_bit(&mut id, i);
            }
        }
        id
    }
}

/// current-thread tokio runtime (optionally with paused clock)
pub fn rt(paused: bool) -> tokio::runtime::Runtime {
    let mut b = tokio::runtime::Builder::new_current_thread();
    b.enable_all();
    if paused {
        b.start_paused(true);
    }
    b.build().expect("runtime")
}

/// MemNet world building shared by the network checks (C01, C03, C04, C20 …)
pub mod net {
    use memnet::*;
    use std::collections::HashMap;
    use std::net::SocketAddr;
    use std::sync::Arc;
    use std::time::Duration;
    use vkit::Rng;

    #[derive(Clone, Copy, Debug, PartialEq, Eq, Hash)]
    pub enum Topo {
        FullMesh,
        Ring,
        Line,
        Star,
        TwoClusters,
        Random,
    }
    pub const TOPOS: [Topo; 6] = [Topo::FullMesh, Topo::Ring, Topo::Line, Topo::Star, Topo::TwoClusters, Topo::Random];

    pub fn edges(t: Topo, n: usize, rng: &mut Rng) -> Vec<(usize, usize)> {
        let mut e = Vec::new();
        match t {
            Topo::FullMesh => {
                for i in 0..n {
                    for j in (i + 1)..n {
                        e.push((i, j));
                    }
                }
            }
            Topo::Ring => {
                for i in 0..n {
                    e.push((i, (i + 1) % n));
                }
            }
            Topo::Line => {
                for i in 0..n.saturating_sub(1) {
                    e.push((i, i + 1));
                }
            }
            Topo::Star => {
                for i in 1..n {
                    e.push((i, 0));
                }
            }
            Topo::TwoClusters => {
                let h = n / 2;
                for i in 0..h {
                    for j in (i + 1)..h {
                        e.push((i, j));
                    }
                }
                for i in h..n {
                    for j in (i + 1)..n {
                        e.push((i, j));
                    }
                }
                if h > 0 && h < n {
                    e.push((0, h));
                }
            }
            Topo::Random => {
                // connected: random spanning tree plus extra edges
                for i in 1..n {
                    e.push((i, rng.usize_below(i)));
                }
                for _ in 0..rng.urange(0, n) {
                    let (a, b) = (rng.usize_below(n), rng.usize_below(n));
                    if a != b {
                        e.push((a, b));
                    }
                }
            }
        }
        e.retain(|(a, b)| a != b);
        e
    }

    pub struct World {
        pub hub: Arc<Hub>,
        pub nodes: Vec<SimNode>,
        /// every spelling of an id (transport id, hex dht key, app id) -> node index
        pub spell: HashMap<String, usize>,
        pub by_pos: HashMap<[u8; 32], usize>,
        pub by_addr: HashMap<SocketAddr, usize>,
    }

    impl World {
        pub async fn build(rng: &mut Rng, n: usize, topo: Topo, cfg: &NodeCfg) -> Result<World, String> {
            let hub = Hub::new(rng.next_u64());
            let mut nodes = Vec::new();
            for i in 0..n {
                let tid = rng.arr32();
                let node = spawn_node(&hub, tid, sim_addr(i), cfg).await.map_err(|e| e.to_string())?;
                nodes.push(node);
            }
            for (a, b) in edges(topo, n, rng) {
                let _ = nodes[a].mgr.connect_to_peer(&nodes[b].addr.to_string()).await;
            }
            settle(Duration::from_millis(20)).await;
            let mut w = World { hub, nodes, spell: HashMap::new(), by_pos: HashMap::new(), by_addr: HashMap::new() };
            w.reindex();
            Ok(w)
        }
        pub fn reindex(&mut self) {
            for (i, e) in self.nodes.iter().enumerate() {
                self.spell.insert(e.tid_hex.clone(), i);
                self.spell.insert(hex::encode(e.pos), i);
                self.spell.insert(e.app_id.clone(), i);
                self.by_pos.insert(e.pos, i);
                self.by_addr.insert(e.addr, i);
            }
        }
        pub async fn shutdown(&self) {
            for n in &self.nodes {
                let _ = tokio::time::timeout(Duration::from_secs(600), n.mgr.stop()).await;
                let _ = tokio::time::timeout(Duration::from_secs(600), n.transport.stop()).await;
            }
        }
    }
}

/// Persistent-state histories, model and on-disk snapshot helpers (C06, C07)
pub mod pstate {
    use saorsa_core::persistent_state::{FlushStrategy, PersistentStateManager, RecoveryMode, StateConfig, WalEntry};
    use std::collections::{BTreeMap, HashMap};
    use std::path::{Path, PathBuf};
    use std::time::Duration;
    use vkit::Rng;

    /// stored value: (unique op id, the key it was written for)
    pub type Val = (u64, String);
    pub type Mgr = PersistentStateManager<Val>;

    #[derive(Clone, Debug)]
    pub enum Op {
        Upsert(String, Val),
        Delete(String),
        /// one logical operation: a set of (key, Some(value)|None=delete)
        Batch(Vec<(String, Option<Val>)>),
        Checkpoint,
    }
    impl Op {
        pub fn kind(&self) -> &'static str {
            match self {
                Op::Upsert(..) => "upsert",
                Op::Delete(..) => "delete",
                Op::Batch(..) => "batch",
                Op::Checkpoint => "checkpoint",
            }
        }
    }

    pub fn apply(state: &mut BTreeMap<String, Val>, op: &Op) {
        match op {
            Op::Upsert(k, v) => {
                state.insert(k.clone(), v.clone());
            }
            Op::Delete(k) => {
                state.remove(k);
            }
            Op::Batch(ch) => {
                for (k, v) in ch {
                    match v {
                        Some(v) => {
                            state.insert(k.clone(), v.clone());
                        }
                        None => {
                            state.remove(k);
                        }
                    }
                }
            }
            Op::Checkpoint => {}
        }
    }

    /// states after every prefix: prefixes[j] = state after ops[0..j]
    pub fn prefixes(ops: &[Op]) -> Vec<BTreeMap<String, Val>> {
        let mut out = Vec::with_capacity(ops.len() + 1);
        let mut st = BTreeMap::new();
        out.push(st.clone());
        for op in ops {
            apply(&mut st, op);
            out.push(st.clone());
        }
        out
    }

    pub fn gen_op(rng: &mut Rng, opid: u64, nkeys: usize, state: &BTreeMap<String, Val>, allow_checkpoint: bool) -> Op {
        let key = |rng: &mut Rng| format!("k{}", rng.usize_below(nkeys));
        match rng.weighted(&[55, 18, 17, if allow_checkpoint { 10 } else { 0 }]) {
            0 => {
                let k = key(rng);
                Op::Upsert(k.clone(), (opid, k))
            }
            1 => {
                // prefer deleting something that exists
                let k = if !state.is_empty() && rng.chance(0.8) { state.keys().nth(rng.usize_below(state.len())).cloned().unwrap_or_else(|| key(rng)) } else { key(rng) };
                Op::Delete(k)
            }
            2 => {
                let n = rng.urange(2, 6);
                let mut ch: Vec<(String, Option<Val>)> = Vec::new();
                for j in 0..n {
                    let k = key(rng);
                    if ch.iter().any(|(kk, _)| *kk == k) {
                        continue;
                    }
                    if state.contains_key(&k) && rng.chance(0.3) {
                        ch.push((k, None));
                    } else {
                        ch.push((k.clone(), Some((opid * 100 + j as u64, k))));
                    }
                }
                if ch.is_empty() {
                    let k = key(rng);
                    ch.push((k.clone(), Some((opid * 100, k))));
                }
                Op::Batch(ch)
            }
            _ => Op::Checkpoint,
        }
    }

    pub async fn run_op(m: &Mgr, op: &Op) -> Result<(), String> {
        match op {
            Op::Upsert(k, v) => m.upsert(k.clone(), v.clone()).await.map(|_| ()).map_err(|e| e.to_string()),
            Op::Delete(k) => m.delete(k).await.map(|_| ()).map_err(|e| e.to_string()),
            Op::Batch(ch) => {
                let ch = ch.clone();
                m.batch_update(move |st: &mut HashMap<String, Val>| {
                    for (k, v) in &ch {
                        match v {
                            Some(v) => {
                                st.insert(k.clone(), v.clone());
                            }
                            None => {
                                st.remove(k);
                            }
                        }
                    }
                    Ok(())
                })
                .await
                .map_err(|e| e.to_string())
            }
            Op::Checkpoint => m.checkpoint().await.map_err(|e| e.to_string()),
        }
    }

    pub fn config(dir: &Path, flush: FlushStrategy) -> StateConfig {
        StateConfig {
            state_dir: dir.to_path_buf(),
            flush_strategy: flush,
            checkpoint_interval: Duration::from_secs(3600),
            enable_compression: false,
            recovery_mode: RecoveryMode::Standard,
            max_state_size: 1 << 30,
        }
    }

    /// a directory captured in memory: (file name, bytes)
    pub type DirImage = Vec<(String, Vec<u8>)>;

    pub fn capture(dir: &Path) -> DirImage {
        let mut v = Vec::new();
        if let Ok(rd) = std::fs::read_dir(dir) {
            for e in rd.flatten() {
                if e.path().is_file() {
                    if let (Some(n), Ok(b)) = (e.file_name().to_str().map(|s| s.to_string()), std::fs::read(e.path())) {
                        v.push((n, b));
                    }
                }
            }
        }
        v.sort();
        v
    }

    pub fn materialize(img: &DirImage, dir: &Path) {
        let _ = std::fs::create_dir_all(dir);
        for (n, b) in img {
            let _ = std::fs::write(dir.join(n), b);
        }
    }

    /// (file, offset of record start, record length incl. 4-byte prefix, decoded entry if it decodes)
    pub fn wal_records(bytes: &[u8]) -> Vec<(usize, usize, Option<WalEntry>)> {
        let mut out = Vec::new();
        let mut off = 0usize;
        while off + 4 <= bytes.len() {
            let len = u32::from_le_bytes([bytes[off], bytes[off + 1], bytes[off + 2], bytes[off + 3]]) as usize;
            if off + 4 + len > bytes.len() {
                break;
            }
            let e = postcard::from_bytes::<WalEntry>(&bytes[off + 4..off + 4 + len]).ok();
            out.push((off, 4 + len, e));
            off += 4 + len;
        }
        out
    }

    pub fn is_wal(name: &str) -> bool {
        name.ends_with(".wal")
    }
    pub fn is_snap(name: &str) -> bool {
        name.ends_with(".snap")
    }

    pub fn scratch(tag: &str) -> PathBuf {
        let base = std::env::var("VERIF_SCRATCH").unwrap_or_else(|_| "/tmp/verif-scratch".into());
        let p = PathBuf::from(base).join(format!("pid-{}", std::process::id())).join(format!("{tag}-{:x}", rand_u64()));
        let _ = std::fs::create_dir_all(&p);
        p
    }
    /// remove everything this process put under the scratch base
    pub fn scratch_cleanup() {
        let base = std::env::var("VERIF_SCRATCH").unwrap_or_else(|_| "/tmp/verif-scratch".into());
        let _ = std::fs::remove_dir_all(PathBuf::from(base).join(format!("pid-{}", std::process::id())));
    }
    fn rand_u64() -> u64 {
        use std::sync::atomic::{AtomicU64, Ordering};
        static C: AtomicU64 = AtomicU64::new(1);
        C.fetch_add(1, Ordering::Relaxed) ^ (std::time::SystemTime::now().duration_since(std::time::UNIX_EPOCH).map(|d| d.as_nanos() as u64).unwrap_or(0) << 16)
    }
}

/// Sanitizer lanes (thorough tier): run a lane script, fold its status into the evidence.
/// A report inside the lane is a violation of the property whose workload produced it; a lane
/// that cannot run is recorded as unavailable and never changes the behavioural verdict.
pub mod lanes {
    use serde_json::json;
    use std::process::Command;
    use vkit::Monitor;

    pub struct Lane {
        lane: String,
        arg: String,
        handle: std::thread::JoinHandle<(String, String, String, f64)>,
    }

    /// Start the supplementary sanitizer lanes of a thorough run; they build (own target
    /// directories) and run while the behavioural workload runs, and are joined at the end.
    pub fn start(mon: &Monitor, specs: &[(&str, &str, &str)]) -> Vec<Lane> {
        if mon.quick() || std::env::var("VERIF_NO_LANES").is_ok() {
            return Vec::new();
        }
        specs
            .iter()
            .map(|(lane, arg, extra)| {
                let script = mon.root.join("sanit").join(format!("{lane}_lane.sh"));
                let (lane_s, arg_s, extra_s) = (lane.to_string(), arg.to_string(), extra.to_string());
                // a lane that cannot finish in its own time box is recorded as unavailable; it never
                // turns the whole check into a watchdog kill
                let cap = match *lane {
                    "asan" => 1500,
                    "miri" => 1200,
                    _ => 900,
                };
                let handle = std::thread::spawn(move || {
                    let t0 = std::time::Instant::now();
                    let mut cmd = Command::new("timeout");
                    cmd.arg("--signal=KILL").arg(cap.to_string()).arg("bash").arg(&script).arg(&arg_s);
                    if !extra_s.is_empty() {
                        cmd.arg(&extra_s);
                    }
                    match cmd.output() {
                        Err(e) => ("unavailable".to_string(), format!("spawn failed: {e}"), String::new(), t0.elapsed().as_secs_f64()),
                        Ok(o) => {
                            let txt = String::from_utf8_lossy(&o.stdout).to_string();
                            let line = txt.lines().rev().find(|l| l.starts_with("LANE ")).unwrap_or("").to_string();
                            let status = line.split_whitespace().find_map(|w| w.strip_prefix("status=")).unwrap_or("unavailable").to_string();
                            let tail: String = txt.lines().rev().skip(1).take(40).collect::<Vec<_>>().into_iter().rev().collect::<Vec<_>>().join("\n");
                            (status, line, tail, t0.elapsed().as_secs_f64())
                        }
                    }
                });
                Lane { lane: lane_s, arg: arg.to_string(), handle }
            })
            .collect()
    }

    pub fn join(mon: &Monitor, lanes: Vec<Lane>) {
        for l in lanes {
            let (status, line, tail, wall) = l.handle.join().unwrap_or_else(|_| ("unavailable".into(), "lane thread panicked".into(), String::new(), 0.0));
            let rec = json!({"lane": l.lane, "workload": l.arg, "status": status, "wall_s": wall, "summary": line});
            mon.extra(&format!("sanitizer_lane.{}.{}", l.lane, l.arg), rec);
            mon.count(&format!("lanes.{}.{}", l.lane, status), 1);
            if status == "report" {
                mon.violation(&format!("sanitizer/{}/{}", l.lane, l.arg), json!({"summary": line, "report_tail": tail}));
            }
        }
    }
}
