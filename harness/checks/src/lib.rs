//! Helpers shared by the per-property check binaries.

pub mod keys {
    /// XOR distance
    pub fn xor(a: &[u8; 32], b: &[u8; 32]) -> [u8; 32] {
        let mut o = [0u8; 32];
        for i in 0..32 {
            o[i] = a[i] ^ b[i];
        }
        o
    }
    /// index (0 = most significant) of first differing bit; None if equal
    pub fn bucket_of(local: &[u8; 32], id: &[u8; 32]) -> Option<usize> {
        let d = xor(local, id);
        for i in 0..256 {
            if (d[i / 8] >> (7 - (i % 8))) & 1 == 1 {
                return Some(i);
            }
        }
        None
    }
    pub fn flip_bit(a: &mut [u8; 32], i: usize) {
        a[i / 8] ^= 1 << (7 - (i % 8));
    }
    /// id that lands in bucket `b` relative to `local`: shares bits 0..b, differs at b,
    /// random afterwards.
    pub fn id_in_bucket(local: &[u8; 32], b: usize, rng: &mut vkit::Rng) -> [u8; 32] {
        let noise = rng.arr32();
        let mut id = *local;
        flip_bit(&mut id, b);
        for i in (b + 1)..256 {
            let bit = (noise[i / 8] >> (7 - (i % 8))) & 1;
            let cur = (id[i / 8] >> (7 - (i % 8))) & 1;
            if bit != cur {
                flip_bit(&mut id, i);
            }
        }
        id
    }
}

/// current-thread tokio runtime (optionally with paused clock)
pub fn rt(paused: bool) -> tokio::runtime::Runtime {
    let mut b = tokio::runtime::Builder::new_current_thread();
    b.enable_all();
    if paused {
        b.start_paused(true);
    }
    b.build().expect("runtime")
}
