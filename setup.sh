#!/usr/bin/env bash
# Offline build of the whole harness against /repo's working tree (hooks on).
set -e
cd "$(dirname "${BASH_SOURCE[0]}")/harness"
export CARGO_NET_OFFLINE=true
cargo build --offline --profile verif -p checks --bins 2>&1 | tail -3
