#!/usr/bin/env bash
# ASan lane: rebuild one check binary (and saorsa-core from /repo's working tree) with
# -Zsanitizer=address on the nightly toolchain and run its quick-sized workload under it.
# stdout last line: LANE asan <bin> status=<clean|report|unavailable> reports=<n> log=<path>
# exit 0 clean, 1 sanitizer report in the run, 3 lane unavailable (build failed / no nightly)
set -u
BIN="${1:?bin}"; BUDGET="${2:-90}"
ROOT="$(cd "$(dirname "${BASH_SOURCE[0]}")/.." && pwd)"
OUT="$(mktemp -d /tmp/verif-asan-XXXXXX)"
LOG="$OUT/asan.log"
cd "$ROOT/harness" || exit 3
export CARGO_NET_OFFLINE=true
if ! RUSTFLAGS="-Zsanitizer=address -Cforce-frame-pointers=yes" cargo +nightly build --offline --profile verif \
      --target x86_64-unknown-linux-gnu --target-dir "$ROOT/harness/target-asan" -p checks --bin "$BIN" >"$OUT/build.log" 2>&1; then
  tail -5 "$OUT/build.log"
  echo "LANE asan $BIN status=unavailable reports=0 log=$OUT/build.log"; exit 3
fi
EXE="$ROOT/harness/target-asan/x86_64-unknown-linux-gnu/verif/$BIN"
mkdir -p "$OUT/root"; cp "$ROOT/known_findings.json" "$OUT/root/" 2>/dev/null
ASAN_OPTIONS="halt_on_error=1:abort_on_error=0:detect_leaks=0:exitcode=77:log_path=$OUT/asan-report:symbolize=1" \
ASAN_SYMBOLIZER_PATH="$(command -v llvm-symbolizer-14 || command -v llvm-symbolizer || true)" \
VERIF_ROOT="$OUT/root" VERIF_TIER=quick VERIF_BUDGET_S="$BUDGET" VERIF_SHARDS="${VERIF_LANE_SHARDS:-6}" VERIF_SCRATCH="$OUT/scratch" \
  timeout --signal=KILL $((BUDGET*4+120)) "$EXE" >"$LOG" 2>&1
RC=$?
N=$(cat "$OUT"/asan-report* 2>/dev/null | grep -c "ERROR: AddressSanitizer\|ERROR: LeakSanitizer")
if [ "$N" -gt 0 ] || [ $RC -eq 77 ]; then
  cat "$OUT"/asan-report* 2>/dev/null | head -60
  echo "LANE asan $BIN status=report reports=$N log=$OUT"; exit 1
fi
if [ $RC -ne 0 ] && [ $RC -ne 1 ] && [ $RC -ne 2 ]; then
  tail -5 "$LOG"
  echo "LANE asan $BIN status=unavailable reports=0 rc=$RC log=$OUT"; exit 3
fi
EV=$(jq -c '{evaluations: .coverage.evaluations, distinct: .coverage.distinct_nontrivial, violations: .violations}' "$OUT/root/evidence/"*.json 2>/dev/null | head -1)
rm -rf "$OUT/scratch"
echo "LANE asan $BIN status=clean reports=0 workload=$EV log=$OUT"; exit 0
