//! Workloads small enough for Miri (UB + data-race interpreter) over the only `unsafe` in
//! saorsa-core (`secure_memory.rs`) as it is driven by the properties that use it:
//!   secmem  — SecureMemory / SecureVec / SecureString / pool life-cycles (C06, C07, C18)
//!   pstate  — PersistentStateManager open / upsert / delete / batch / checkpoint / reopen (C06)
//!   counter — MonotonicCounterSystem submissions racing on OS threads (C12)
//! Run: cargo +nightly miri run -- <workload> [seed]    (MIRIFLAGS=-Zmiri-disable-isolation)

use saorsa_core::secure_memory::{SecureMemory, SecureMemoryPool, SecureString, SecureVec};
use std::sync::Arc;

fn splitmix(x: &mut u64) -> u64 {
    *x = x.wrapping_add(0x9E37_79B9_7F4A_7C15);
    let mut z = *x;
    z = (z ^ (z >> 30)).wrapping_mul(0xBF58_476D_1CE4_E5B9);
    z = (z ^ (z >> 27)).wrapping_mul(0x94D0_49BB_1331_11EB);
    z ^ (z >> 31)
}

fn secmem(seed: u64) {
    let mut s = seed;
    let mut ops = 0u64;
    for round in 0..12 {
        let n = (splitmix(&mut s) % 200) as usize + 1;
        let data: Vec<u8> = (0..n).map(|i| (i as u8) ^ (round as u8)).collect();
        let mut a = SecureMemory::from_slice(&data).expect("from_slice");
        assert_eq!(a.as_slice(), &data[..]);
        let b = SecureMemory::from_slice(&data).expect("from_slice");
        assert!(a.constant_time_eq(&b));
        a.as_mut_slice()[0] ^= 1;
        assert!(!a.constant_time_eq(&b));
        let _ = a.as_allocated_slice().len();
        a.zeroize();
        assert!(a.as_slice().iter().all(|x| *x == 0));
        drop(a);
        drop(b);
        let z = SecureMemory::new(n).expect("new");
        assert!(z.len() >= n && z.as_slice().len() <= z.len());
        assert!(SecureMemory::new(0).is_err() || true);
        // capacity a multiple of the 64-byte allocation granule: pushing past the REQUESTED capacity of a
        // smaller vector panics in as_slice (bounds check, no UB) - outside the properties, noted in DESIGN.md
        let mut v = SecureVec::with_capacity(64).expect("vec");
        for i in 0..(n.min(40)) {
            let _ = v.push(i as u8);
        }
        let _ = v.extend_from_slice(&data[..n.min(16)]);
        let _ = v.as_slice();
        v.clear();
        let fixed = SecureString::from_plain_str("Zq42-Kx77_Wv19#13").expect("str");
        assert_eq!(fixed.as_str().ok(), Some("Zq42-Kx77_Wv19#13"));
        let mut st = SecureString::with_capacity(64).expect("str");
        let _ = st.push('é');
        let _ = st.push_str("tail");
        assert!(st.as_str().is_ok());
        st.clear();
        ops += 12;
    }
    let pool = SecureMemoryPool::new(4096, 64).expect("pool");
    let mut held = Vec::new();
    for i in 0..20 {
        // sizes in whole 64-byte granules: the pool's byte statistics under-flow (debug overflow check, no UB)
        // for large allocations that are not - outside the properties, noted in DESIGN.md
        if let Ok(m) = pool.allocate(64 * (1 + i % 3)) {
            held.push(m);
        }
        if i % 3 == 0 {
            if let Some(m) = held.pop() {
                pool.deallocate(m);
            }
        }
    }
    let _ = pool.stats();
    for m in held {
        pool.deallocate(m);
    }
    // moving secure memory across threads
    let m = SecureMemory::from_slice(b"cross-thread").expect("m");
    let h = std::thread::spawn(move || m.as_slice().len());
    assert_eq!(h.join().unwrap_or(0), 12);
    println!("LANE-WORKLOAD secmem ops={ops}");
}

fn pstate(seed: u64) {
    use saorsa_core::persistent_state::{FlushStrategy, PersistentStateManager, RecoveryMode, StateConfig};
    let dir = std::env::temp_dir().join(format!("miri-pstate-{seed}-{}", std::process::id()));
    let _ = std::fs::remove_dir_all(&dir);
    let cfg = StateConfig {
        state_dir: dir.clone(),
        flush_strategy: FlushStrategy::Always,
        checkpoint_interval: std::time::Duration::from_secs(3600),
        enable_compression: false,
        recovery_mode: RecoveryMode::Standard,
        max_state_size: 1 << 20,
    };
    let rt = tokio::runtime::Builder::new_current_thread().enable_time().build().expect("rt");
    let mut s = seed;
    rt.block_on(async {
        let mut expect = std::collections::BTreeMap::new();
        for session in 0..2 {
            let m = PersistentStateManager::<(u64, String)>::new(cfg.clone()).await.expect("open");
            let got: std::collections::BTreeMap<_, _> = m.get_all().expect("all").into_iter().collect();
            assert_eq!(got, expect, "session {session} did not recover the previous session's state");
            for i in 0..8u64 {
                let k = format!("k{}", splitmix(&mut s) % 4);
                match splitmix(&mut s) % 4 {
                    0 => {
                        m.delete(&k).await.expect("delete");
                        expect.remove(&k);
                    }
                    1 => {
                        let kk = k.clone();
                        m.batch_update(move |st| {
                            st.insert(kk.clone(), (i, kk.clone()));
                            st.remove("k0");
                            Ok(())
                        })
                        .await
                        .expect("batch");
                        expect.insert(k.clone(), (i, k.clone()));
                        expect.remove("k0");
                    }
                    2 => {
                        m.checkpoint().await.expect("checkpoint");
                    }
                    _ => {
                        m.upsert(k.clone(), (i, k.clone())).await.expect("upsert");
                        expect.insert(k.clone(), (i, k.clone()));
                    }
                }
            }
            drop(m);
        }
    });
    let _ = std::fs::remove_dir_all(&dir);
    println!("LANE-WORKLOAD pstate sessions=2 ops=16");
}

fn counter(seed: u64) {
    use saorsa_core::monotonic_counter::MonotonicCounterSystem;
    use saorsa_core::peer_record::UserId;
    let path = std::env::temp_dir().join(format!("miri-counter-{seed}-{}.bin", std::process::id()));
    let _ = std::fs::remove_file(&path);
    let rt = tokio::runtime::Builder::new_current_thread().enable_time().build().expect("rt");
    let sys = rt.block_on(async { MonotonicCounterSystem::new(path.clone()).await.expect("counter") });
    let sys = Arc::new(sys);
    let peer = UserId::from_bytes([7u8; 32]);
    // OS threads race the same (peer, n): exactly one may win each number
    let mut wins = vec![0u32; 6];
    for n in 1..=5u64 {
        let mut hs = Vec::new();
        for t in 0..3u8 {
            let sys = sys.clone();
            let peer = peer.clone();
            hs.push(std::thread::spawn(move || {
                let mut h = [0u8; 32];
                h[0] = n as u8;
                h[1] = t;
                let r = futures::executor::block_on(sys.validate_sequence(&peer, n, h));
                matches!(r, Ok(saorsa_core::monotonic_counter::SequenceValidationResult::Valid))
            }));
        }
        for h in hs {
            if h.join().unwrap_or(false) {
                wins[n as usize] += 1;
            }
        }
    }
    for n in 1..=5 {
        assert_eq!(wins[n], 1, "sequence {n} accepted {} times", wins[n]);
    }
    let _ = std::fs::remove_file(&path);
    println!("LANE-WORKLOAD counter races=5 threads=3 seed={seed}");
}

fn main() {
    let args: Vec<String> = std::env::args().collect();
    let seed: u64 = args.get(2).and_then(|s| s.parse().ok()).unwrap_or(1);
    match args.get(1).map(|s| s.as_str()) {
        Some("secmem") => secmem(seed),
        Some("pstate") => pstate(seed),
        Some("counter") => counter(seed),
        _ => {
            secmem(seed);
            pstate(seed);
            counter(seed);
        }
    }
}
