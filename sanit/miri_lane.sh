#!/usr/bin/env bash
# Miri lane: run one small workload of sanit/miri under the UB + data-race interpreter.
# last stdout line: LANE miri <workload> status=<clean|report|unavailable> ...
# exit 0 clean, 1 Miri reported undefined behaviour / a data race / a failed assertion, 3 unavailable
set -u
W="${1:?workload}"; SEEDS="${2:-0..4}"
ROOT="$(cd "$(dirname "${BASH_SOURCE[0]}")/.." && pwd)"
cd "$ROOT/sanit/miri" || exit 3
cp /repo/Cargo.lock Cargo.lock 2>/dev/null
LOG="$(mktemp /tmp/verif-miri-XXXXXX.log)"
export CARGO_NET_OFFLINE=true
# one interpreter run per Miri seed (its scheduler and address choices), one after the other: the
# file-backed workloads use a scratch directory per run
case "$SEEDS" in *..*) LO="${SEEDS%%..*}"; HI="${SEEDS##*..}";; *) LO=0; HI="$SEEDS";; esac
RC=0; : >"$LOG"
for S in $(seq "$LO" $((HI-1))); do
  MIRIFLAGS="-Zmiri-disable-isolation -Zmiri-seed=$S" timeout --signal=KILL 1500 cargo +nightly miri run --offline -- "$W" "$S" >>"$LOG" 2>&1 || { RC=$?; break; }
done
if grep -q "LANE-WORKLOAD $W" "$LOG" && [ $RC -eq 0 ]; then
  echo "LANE miri $W status=clean seeds=$SEEDS $(grep -m1 'LANE-WORKLOAD' "$LOG") log=$LOG"; exit 0
fi
if grep -q "Undefined Behavior\|Data race detected\|panicked at" "$LOG"; then
  grep -n "Undefined Behavior\|Data race detected\|panicked at" -A12 "$LOG" | head -60
  echo "LANE miri $W status=report log=$LOG"; exit 1
fi
tail -8 "$LOG"
echo "LANE miri $W status=unavailable rc=$RC log=$LOG"; exit 3
