#!/usr/bin/env bash
# memcheck lane: run one check binary's quick-sized workload (built from /repo's working tree with the
# ordinary `verif` profile) under valgrind memcheck: invalid reads/writes, use of uninitialised values,
# bad frees. Leak checking is off (detached tokio tasks still own node graphs when the check exits).
# stdout last line: LANE memcheck <bin> status=<clean|report|unavailable> errors=<n> log=<path>
# exit 0 clean, 1 memcheck reported errors, 3 lane unavailable
set -u
BIN="${1:?bin}"; BUDGET="${2:-40}"
ROOT="$(cd "$(dirname "${BASH_SOURCE[0]}")/.." && pwd)"
OUT="$(mktemp -d /tmp/verif-memcheck-XXXXXX)"
LOG="$OUT/run.log"
command -v valgrind >/dev/null || { echo "LANE memcheck $BIN status=unavailable errors=0 reason=no-valgrind"; exit 3; }
cd "$ROOT/harness" || exit 3
export CARGO_NET_OFFLINE=true
if ! cargo build --offline --profile verif -p checks --bin "$BIN" >"$OUT/build.log" 2>&1; then
  tail -5 "$OUT/build.log"
  echo "LANE memcheck $BIN status=unavailable errors=0 log=$OUT/build.log"; exit 3
fi
EXE="$ROOT/harness/target/verif/$BIN"
mkdir -p "$OUT/root"; cp "$ROOT/known_findings.json" "$OUT/root/" 2>/dev/null
VERIF_ROOT="$OUT/root" VERIF_TIER=quick VERIF_BUDGET_S="$BUDGET" VERIF_SHARDS="${VERIF_LANE_SHARDS:-2}" VERIF_SCRATCH="$OUT/scratch" VERIF_NO_LANES=1 \
  timeout --signal=KILL $((BUDGET*20+300)) valgrind --tool=memcheck --leak-check=no --error-exitcode=77 --num-callers=24 \
  --trace-children=yes --log-file="$OUT/vg.%p.log" "$EXE" >"$LOG" 2>&1
RC=$?
N=$(cat "$OUT"/vg.*.log 2>/dev/null | sed -n 's/.*ERROR SUMMARY: \([0-9]*\) errors.*/\1/p' | awk '{s+=$1} END{print s+0}')
P=$(ls "$OUT"/vg.*.log 2>/dev/null | wc -l)
if [ "$N" -gt 0 ] || [ $RC -eq 77 ]; then
  grep -h -A14 "Invalid\|uninitialised\|Mismatched\|Invalid free" "$OUT"/vg.*.log 2>/dev/null | head -60
  echo "LANE memcheck $BIN status=report errors=$N log=$OUT"; exit 1
fi
if grep -qh "unrecognised instruction\|Illegal instruction" "$OUT"/vg.*.log "$LOG" 2>/dev/null || { [ $RC -ne 0 ] && [ $RC -ne 1 ] && [ $RC -ne 2 ]; }; then
  tail -5 "$LOG"
  echo "LANE memcheck $BIN status=unavailable errors=0 rc=$RC log=$OUT"; exit 3
fi
EV=$(jq -c '{evaluations: .coverage.evaluations, distinct: .coverage.distinct_nontrivial, violations: .violations}' "$OUT/root/evidence/"*.json 2>/dev/null | head -1)
rm -rf "$OUT/scratch"
echo "LANE memcheck $BIN status=clean errors=0 processes=$P workload=$EV log=$OUT"; exit 0
