#!/usr/bin/env bash
# usage: baseline_check.sh [repo-dir]   — runs the pinned suite (hooks OFF) and compares with BASELINE.stable_pass
DIR="${1:-/repo}"
cd "$DIR" || exit 2
cargo nextest run --workspace --no-fail-fast --tool-config-file pb:/w/lib/nextest.toml --profile pb --test-threads 8 --offline >/tmp/baseline_$$.log 2>&1
python3 - "$DIR" <<'PY'
import json,sys,xml.etree.ElementTree as ET
d=sys.argv[1]
sp=set(json.load(open('/root/.vp/BASELINE.json'))['stable_pass'])
t=ET.parse(d+'/target/nextest/pb/junit.xml')
res={}
for ts in t.getroot().iter('testsuite'):
    for tc in ts.iter('testcase'):
        cls=tc.get('classname'); n=tc.get('name')
        key=f"{cls}::{n}"
        ok = tc.find('failure') is None and tc.find('error') is None
        res[key]=ok
bad=[k for k in sp if not res.get(k,False)]
print(f"ran={len(res)} stable_pass={len(sp)} stable_pass_not_passing={len(bad)}")
for b in sorted(bad): print("  NOT PASSING:",b, "(missing)" if b not in res else "")
PY
