#!/usr/bin/env bash
# seed_confirm.sh <name> [--suite]
# In the scratch worktree /tmp/fixwt (same commit as /repo): the patch applies, the crate builds, the demonstration
# FAILS with the change and PASSES without it; with --suite also runs the pinned baseline suite with the change.
set -u
NAME="$1"; SUITE="${2:-}"; D="/verif/seeded/$NAME"; WT=/tmp/fixwt
cd "$WT" || exit 2
git checkout -q -- . ; git clean -fdq tests/ examples/ 2>/dev/null
git merge -q --ff-only main 2>/dev/null || true
OUT="$D/confirm.txt"; : > "$OUT"
if ! git apply --check "$D/patch.diff" 2>>"$OUT"; then echo "patch does not apply" | tee -a "$OUT"; exit 1; fi
for f in "$D"/demo/*.rs; do [ -f "$f" ] && cp "$f" tests/; done
TESTS=$(cd "$D/demo" && ls *.rs 2>/dev/null | sed 's/\.rs$//')
FEAT=""; grep -q "verif-hooks\|verif_hooks" "$D"/demo/*.rs 2>/dev/null && FEAT="--features verif-hooks"
run_demo() { local rc=0; for t in $TESTS; do timeout 1500 cargo test --offline $FEAT --test "$t" >"/tmp/seed_demo_$$.log" 2>&1 || rc=1; tail -4 "/tmp/seed_demo_$$.log" >>"$OUT"; done; return $rc; }
echo "== without the change" >>"$OUT"; run_demo; W=$?
git apply "$D/patch.diff"
echo "== with the change" >>"$OUT"; run_demo; C=$?
echo "demo_without_change_rc=$W demo_with_change_rc=$C" | tee -a "$OUT"
if [ "$SUITE" = "--suite" ]; then
  for t in $TESTS; do rm -f "tests/$t.rs"; done
  /verif/tools/baseline_check.sh "$WT" >>"$OUT" 2>&1; tail -8 "$OUT"
fi
git checkout -q -- . ; for t in $TESTS; do rm -f "tests/$t.rs"; done
