#!/usr/bin/env bash
# seed_suite.sh <name> — pinned baseline suite with the seeded change applied (scratch worktree /tmp/fixwt);
# stable tests that do not pass in the full run are re-run on their own (timing-sensitive tests fail on a loaded box).
set -u
NAME="$1"; D="/verif/seeded/$NAME"; WT=/tmp/fixwt
cd "$WT" || exit 2
git checkout -q -- . ; git clean -fdq tests/ 2>/dev/null
git apply "$D/patch.diff" || { echo "patch does not apply"; exit 1; }
OUT="$D/suite.txt"
/verif/tools/baseline_check.sh "$WT" > "$OUT" 2>&1
FAILS=$(grep "NOT PASSING:" "$OUT" | awk '{print $3}')
STILL=""
for t in $FAILS; do
  bin=$(echo "$t" | sed 's/^saorsa-core:://' | cut -d: -f1)
  name=$(echo "$t" | sed 's/^saorsa-core:://' | sed 's/^[^:]*:://')
  ok=0
  for try in 1 2; do
    if echo "$t" | grep -q "^saorsa-core::[a-z_0-9]*_test::\|^saorsa-core::[a-z_0-9]*tests::"; then :; fi
    if cargo nextest run --offline --no-fail-fast -E "test(~$(echo "$name" | awk -F:: '{print $NF}'))" >/tmp/seed_rerun_$$.log 2>&1; then ok=1; break; fi
  done
  if [ $ok -eq 1 ]; then echo "  RERUN-ALONE PASS: $t" >> "$OUT"; else echo "  RERUN-ALONE FAIL: $t" >> "$OUT"; STILL="$STILL $t"; fi
done
echo "suite_final_not_passing=$(echo $STILL | wc -w)$STILL" >> "$OUT"
git checkout -q -- .
tail -3 "$OUT"
