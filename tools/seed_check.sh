#!/usr/bin/env bash
# seed_check.sh <name> <tier> <Cxx> [Cyy ...] — apply the seeded change to /repo, run the named checks, undo it straight afterwards
set -u
NAME="$1"; TIER="$2"; shift 2; D="/verif/seeded/$NAME"
cd /repo || exit 2
if [ -n "$(git status --porcelain --untracked-files=no)" ]; then echo "/repo not clean"; exit 2; fi
git apply "$D/patch.diff" || { echo "patch does not apply to /repo"; exit 1; }
: > "$D/check_$TIER.txt"
for c in "$@"; do
  ( cd /verif && VERIF_ROOT_OVERRIDE= ./check "$c" "$TIER" 2>&1 | grep -a -E "^C[0-9]+ (quick|thorough)|VIOLATION|INCONCLUSIVE" | sed 's/replay=[^ ]* //' ) >> "$D/check_$TIER.txt"
done
git -C /repo checkout -- .
cat "$D/check_$TIER.txt"
