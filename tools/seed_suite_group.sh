#!/usr/bin/env bash
# seed_suite_group.sh <name>... — pinned baseline suite with SEVERAL seeded changes applied together (scratch worktree
# /tmp/fixwt); used when the machine is too loaded for one 15-40 min suite run per change. Changes whose patch does not
# apply on top of the ones before it are skipped (printed as DEFERRED) and must go into another group. The result is
# written to each member's suite.txt with a `grouped_with=` line. Tests that do not pass in the full run are re-run alone.
set -u
WT=/tmp/fixwt
cd "$WT" || exit 2
git checkout -q -- . ; git clean -fdq tests/ 2>/dev/null
MEMBERS=()
for NAME in "$@"; do
  if git apply --check "/verif/seeded/$NAME/patch.diff" 2>/dev/null; then git apply "/verif/seeded/$NAME/patch.diff"; MEMBERS+=("$NAME"); else echo "DEFERRED $NAME"; fi
done
[ ${#MEMBERS[@]} -eq 0 ] && exit 0
OUT=/tmp/suite_group_$$.txt
/verif/tools/baseline_check.sh "$WT" > "$OUT" 2>&1
FAILS=$(grep "NOT PASSING:" "$OUT" | awk '{print $3}')
STILL=""
for t in $FAILS; do
  name=$(echo "$t" | sed 's/^saorsa-core:://' | sed 's/^[^:]*:://')
  ok=0
  for try in 1 2; do
    if cargo nextest run --offline --no-fail-fast -E "test(~$(echo "$name" | awk -F:: '{print $NF}'))" >/tmp/seed_rerun_$$.log 2>&1; then ok=1; break; fi
  done
  if [ $ok -eq 1 ]; then echo "  RERUN-ALONE PASS: $t" >> "$OUT"; else echo "  RERUN-ALONE FAIL: $t" >> "$OUT"; STILL="$STILL $t"; fi
done
echo "suite_final_not_passing=$(echo $STILL | wc -w)$STILL" >> "$OUT"
echo "grouped_with=${MEMBERS[*]}" >> "$OUT"
for NAME in "${MEMBERS[@]}"; do cp "$OUT" "/verif/seeded/$NAME/suite.txt"; done
git checkout -q -- .
echo "GROUP ${MEMBERS[*]}"; tail -3 "$OUT"; rm -f "$OUT"
