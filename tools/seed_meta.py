#!/usr/bin/env python3
"""seed_meta.py — (re)generate /verif/seeded/<name>/meta.json and /verif/seeded/README.md from
needs.json (hand-written: what each change needs to manifest) and the confirm/check logs."""
import json, os, re, glob
root = "/verif/seeded"
needs = json.load(open(os.path.join(root, "needs.json")))
rows = []
for d in sorted(glob.glob(root + "/*/")):
    name = os.path.basename(d.rstrip("/"))
    n = needs.get(name, {})
    meta = {"name": name, "property": n.get("property", name.split("-")[0]),
            "origin": "written by a fresh sub-agent that was given only the property text and a scratch worktree (wave 2/3: plus one sentence saying which function an earlier change already touches)",
            "what_it_changes": n.get("change", ""), "needs_to_manifest": n.get("needs", ""),
            "confirmed_by_me": {}, "checks_run": []}
    cf = os.path.join(d, "confirm.txt")
    if os.path.exists(cf):
        t = open(cf).read()
        m = re.search(r"demo_without_change_rc=(\d+) demo_with_change_rc=(\d+)", t)
        if m:
            meta["confirmed_by_me"]["demonstration_passes_without_change"] = m.group(1) == "0"
            meta["confirmed_by_me"]["demonstration_fails_with_change"] = m.group(2) != "0"
        m = re.search(r"ran=(\d+) stable_pass=(\d+) stable_pass_not_passing=(\d+)", t)
        if m:
            meta["confirmed_by_me"]["baseline_suite_with_change"] = {"ran": int(m.group(1)), "stable_pass_not_passing": int(m.group(3)),
                                                                   "not_passing": re.findall(r"NOT PASSING: (\S+)", t)}
    sf = os.path.join(d, "suite.txt")
    if os.path.exists(sf):
        t = open(sf).read()
        m = re.search(r"ran=(\d+) stable_pass=(\d+) stable_pass_not_passing=(\d+)", t)
        m2 = re.search(r"suite_final_not_passing=(\d+)(.*)", t)
        if m:
            meta["confirmed_by_me"]["baseline_suite_with_change"] = {
                "ran": int(m.group(1)), "stable_pass": int(m.group(2)), "not_passing_in_full_run": int(m.group(3)),
                "passed_when_rerun_alone": re.findall(r"RERUN-ALONE PASS: (\S+)", t),
                "still_not_passing": (m2.group(2).split() if m2 else None)}
            g = re.search(r"grouped_with=(.*)", t)
            if g:
                meta["confirmed_by_me"]["baseline_suite_with_change"]["run_together_with"] = [x for x in g.group(1).split() if x != name]
                meta["confirmed_by_me"]["baseline_suite_with_change"]["note"] = "one suite run with all of these changes applied at the same time (the machine was too loaded for one 15-40 min run per change); a test broken by this change alone would also fail in that run unless another change masked it" 
    caught_any = False
    for cf in sorted(glob.glob(d + "check_*.txt")):
        tier = re.search(r"check_(\w+)\.txt", cf).group(1)
        t = open(cf).read()
        sigs = re.findall(r"VIOLATION property=(\S+) signature=(\S+)", t)
        ran = re.findall(r"^(C\d+) (?:quick|thorough):", t, re.M)
        meta["checks_run"].append({"how": f"git -C /repo apply patch.diff; ./check <id> {tier}; git -C /repo checkout -- .", "tier": tier, "checks": ran,
                                   "caught": bool(sigs), "signatures": [f"{p}:{s}" for p, s in sigs]})
        caught_any = caught_any or bool(sigs)
    meta["caught"] = caught_any
    meta["strengthening"] = n.get("strengthening", "")
    json.dump(meta, open(os.path.join(d, "meta.json"), "w"), indent=1)
    rows.append(meta)
with open(os.path.join(root, "README.md"), "w") as f:
    f.write("# Seeded changes\n\nEach directory: `patch.diff` (apply with `git -C /repo apply`), `demo/` (fails with the change, passes without), `notes.md` (the author's explanation), `meta.json`.\n\n")
    f.write("| change | property | needs in order to manifest | caught by (signature) | tier | check strengthened? |\n|---|---|---|---|---|---|\n")
    for m in rows:
        sig = "; ".join(sorted({s for c in m["checks_run"] for s in c["signatures"]})) or ("**missed**" if m["checks_run"] else "not run yet")
        tiers = ",".join(sorted({c["tier"] for c in m["checks_run"] if c["caught"]}))
        f.write(f"| {m['name']} | {m['property']} | {m['needs_to_manifest']} | {sig} | {tiers} | {m['strengthening']} |\n")
print(len(rows), "seeded changes")
