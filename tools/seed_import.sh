#!/usr/bin/env bash
# seed_import.sh <Cxx> <name>  — copy a sub-agent's deliverable from /tmp/mut/<Cxx>/out into /verif/seeded/<name>/
set -e
P="$1"; NAME="$2"; SRC="${3:-/tmp/mut2}/$P/out"; DST="/verif/seeded/$NAME"
mkdir -p "$DST/demo"
cp "$SRC/patch.diff" "$DST/patch.diff"
cp -r "$SRC/demo/." "$DST/demo/" 2>/dev/null || true
cp "$SRC/notes.md" "$DST/notes.md" 2>/dev/null || true
echo "imported $NAME"
