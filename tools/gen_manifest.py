#!/usr/bin/env python3
"""Regenerate /verif/MANIFEST.json from tools/checks.json (one record per property)."""
import json, os, subprocess
root = os.path.dirname(os.path.dirname(os.path.abspath(__file__)))
spec = json.load(open(os.path.join(root, "tools", "checks.json")))
props = [json.loads(l)["id"] for l in open(os.path.join(root, "properties.jsonl"))]
commits = subprocess.run(["git", "-C", "/repo", "log", "--format=%h %s", "--grep=^verif-hooks:"],
                         capture_output=True, text=True).stdout.strip().splitlines()
checks, na = [], []
for pid in props:
    c = spec["checks"].get(pid)
    if not c or c.get("not_applicable"):
        na.append({"property_id": pid, "reason": (c or {}).get("not_applicable", "check not built yet")})
        continue
    checks.append({
        "property_id": pid,
        "quick_cmd": f"./check {pid} quick",
        "thorough_cmd": f"./check {pid} thorough",
        "evidence_file": f"evidence/{pid}.json",
        "replay_cmd_template": f"./check {pid} --replay {{path}}",
        "engine": c.get("engine", "vcheck"),
        "level_claimed": {"category": c["level"], "text": c["text"], "design_ref": c.get("design_ref", f"DESIGN.md §3 {pid}")},
        "level_note": c["note"],
        "technique": c["technique"],
    })
m = {
    "version": 1,
    "setup_cmd": "./setup.sh",
    "hooks": {
        "guard": "cargo feature verif-hooks (off by default)",
        "enable": "harness/Cargo.toml depends on saorsa-core by path=/repo with features=[\"verif-hooks\"]; every ./check run rebuilds from /repo's working tree",
        "baseline_off_cmd": "cd /repo && cargo nextest run --workspace --no-fail-fast --tool-config-file pb:/w/lib/nextest.toml --profile pb --test-threads 8 --offline",
        "source_commits": [c.split()[0] for c in commits][::-1],
        "add_only": True,
    },
    "engines": spec.get("engines", []),
    "checks": checks,
    "notes": spec.get("notes", ""),
    "not_applicable": na,
}
json.dump(m, open(os.path.join(root, "MANIFEST.json"), "w"), indent=1)
print(f"{len(checks)} checks, {len(na)} not claimed")
