#!/usr/bin/env bash
# usage: c07_replay.sh <replay.json> [witness-index]  — rebuilds the damaged directory of a C07 witness and recovers it
set -e
R="$1"; W="${2:-0}"; D="$(mktemp -d)"
jq -r ".witnesses[$W].image_hex[] | \"\(.[0]) \(.[1])\"" "$R" | while read -r n h; do echo -n "$h" | xxd -r -p > "$D/$n"; done
ls -la "$D"; RUST_BACKTRACE=1 /verif/harness/target/verif/c07 --child "$D"; rm -rf "$D"
